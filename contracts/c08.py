"""C08 - device calls bind arguments exactly like the Python signatures do.

Finite back end (DESIGN §3 C08, §1): the specification of every arm is generated at check time from the host
class (inspect.signature of the real classes in the working tree); for every call shape Python's binder
accepts - (number of positional arguments, set of keywords), and keyword orders - the REAL parser is run on a
script containing that call with opaque placeholder arguments, and the IR node it builds must carry, for every
parameter, exactly the source Python binds to it, or the host default when it is omitted.  A shape that the
transpiler rejects with an error satisfies the property; a call that silently produces nothing does not.
"""
import dataclasses
import importlib
import inspect
import re
import itertools
import os
import sys
import time

from pyvc.contracts import Registry

PROPERTY = {
    "level": "other",
    "expect_min_obligations": 150,
    "explanation": "Obligation per (callable, call shape, parameter): the IR field for the parameter equals the source Python's "
                   "binder assigns to it (or the host default). The space of shapes (positional count x keyword subset) of every "
                   "transpilable constructor, method and Core helper is enumerated EXHAUSTIVELY against signatures read from the host "
                   "classes at check time; argument expressions are opaque placeholders (parametricity in the argument text is "
                   "assumed); keyword ORDER is exhaustive up to 4 keywords and sampled (identity, reversed, 3 seeded permutations) "
                   "beyond, which is why the level is 'other' and not 'proof'. Decided by running the real parser (finite "
                   "back end), not by symbolic execution of the 2000-line dispatch function.",
    "trusted_base": ["CPython inspect.signature / Signature.bind as the definition of Python's binding",
                     "the real Reduino.transpile.parser.parse run under python3-vt on the working tree"],
    "assumptions": [
        "parametricity: which source text is bound to which IR field does not depend on the argument expressions beyond "
        "the literal/identifier class used as probe (identifiers for run-time values, literals where the parser demands one)",
        "host-only parameters that have no firmware meaning (state/value/distance providers, default_distance, SerialMonitor "
        "port/timeout/newline, sleep_func, LCD.tick/begin/dump, Button.set_pressed, SerialMonitor.connect/close) are outside "
        "the transpiled surface and are not enumerated",
        "IR field for a parameter has the parameter's name, except for the pairs listed in FIELD_OF",
    ],
}

PRELUDE = """from Reduino import target
from Reduino.Actuators import Led, RGBLed, Servo, DCMotor, Buzzer
from Reduino.Sensors import Button, Potentiometer, Ultrasonic
from Reduino.Displays import LCD
from Reduino.Communication import SerialMonitor
from Reduino.Core import pin_mode, digital_write, analog_write, digital_read, analog_read, INPUT, OUTPUT, INPUT_PULLUP, HIGH, LOW
from Reduino.Utils import sleep, map
def handler():
    pass
"""

# receiver declarations for method calls
DEVICES = {
    "Led": "dev = Led(13)", "RGBLed": "dev = RGBLed(9, 10, 11)", "Servo": "dev = Servo(9)",
    "DCMotor": "dev = DCMotor(2, 3, 5)", "Buzzer": "dev = Buzzer(8)", "Button": "dev = Button(2)",
    "Potentiometer": "dev = Potentiometer(\"A0\")", "Ultrasonic": "dev = Ultrasonic(7, 8)",
    "LCD": "dev = LCD(rs=12, en=11, d4=5, d5=4, d6=3, d7=2)", "SerialMonitor": "dev = SerialMonitor(9600)",
}

HOST_ONLY_PARAMS = {
    ("Button", "__init__"): {"state_provider"}, ("Potentiometer", "__init__"): {"value_provider"},
    ("Ultrasonic", "__init__"): {"distance_provider", "default_distance"},
    ("SerialMonitor", "__init__"): {"port", "timeout", "newline"},
}
HOST_ONLY_METHODS = {("LCD", "tick"), ("LCD", "begin"), ("LCD", "dump"), ("Button", "set_pressed"),
                     ("SerialMonitor", "connect"), ("SerialMonitor", "close")}
# value-returning methods: exercised as `x = dev.m(...)`
EXPR_METHODS = {("SerialMonitor", "read")}

# IR field that carries a host parameter when the names differ
FIELD_OF = {("Servo", "write_us", "pulse"): "pulse_us", ("DCMotor", "set_speed", "value"): "speed",
            ("Buzzer", "melody", "name"): "melody",
            ("Ultrasonic", "__init__", "sensor"): "model", ("SerialMonitor", "__init__", "baud_rate"): "baud"}

# probes for parameters that must be literals (everything else gets a fresh identifier)
LITERAL_PROBES = {
    ("Potentiometer", "__init__", "pin"): ('"A3"', "A3"),
    ("LCD", "write", "align"): ('"center"', "center"), ("LCD", "line", "align"): ('"right"', "right"),
    ("LCD", "message", "top_align"): ('"center"', "center"), ("LCD", "message", "bottom_align"): ('"right"', "right"),
    ("LCD", "progress", "style"): ('"hash"', "hash"), ("LCD", "animate", "animation"): ('"bounce"', "bounce"),
    ("LCD", "glyph", "bitmap"): ("[1, 2, 3, 4, 5, 6, 7, 8]", [1, 2, 3, 4, 5, 6, 7, 8]),
    ("Led", "flash_pattern", "pattern"): ("[1, 0, 1]", [1, 0, 1]),
    ("Buzzer", "melody", "name"): ('"success"', "success"),
    ("Ultrasonic", "__init__", "sensor"): ('"HC-SR04"', "HC-SR04"), ("Ultrasonic", "__init__", "model"): ('"HC-SR04"', "HC-SR04"),
    ("Button", "__init__", "on_click"): ("handler", "handler"),
    ("SerialMonitor", "read", "emit"): ('"host"', "host"),
}

_STATE = {}


def real(modname):
    src = os.path.join(os.environ.get("REDUINO_REPO", "/repo"), "src")
    if src not in sys.path:
        sys.path.insert(0, src)
    cur = sys.modules.get("Reduino")
    if cur is not None and not (getattr(cur, "__file__", "") or "").startswith(src):
        for k in [k for k in sys.modules if k == "Reduino" or k.startswith("Reduino.")]:
            del sys.modules[k]
    return importlib.import_module(modname)


def host_callables():
    """(class, method, signature-without-self, kind) for the transpiled surface, read from the real host modules."""
    A, S = real("Reduino.Actuators"), real("Reduino.Sensors")
    D, C, K = real("Reduino.Displays"), real("Reduino.Communication"), real("Reduino.Core")
    out = []
    for mod, names in ((A, ["Led", "RGBLed", "Servo", "DCMotor", "Buzzer"]), (S, ["Button", "Potentiometer", "Ultrasonic"]),
                       (D, ["LCD"]), (C, ["SerialMonitor"])):
        for n in names:
            obj = getattr(mod, n)
            out.append((n, "__init__", inspect.signature(obj), "ctor"))
            if inspect.isclass(obj):
                for m, f in inspect.getmembers(obj, inspect.isfunction):
                    if m.startswith("_") or (n, m) in HOST_ONLY_METHODS:
                        continue
                    sig = inspect.signature(f)
                    params = list(sig.parameters.values())[1:]
                    if not params:
                        continue
                    out.append((n, m, sig.replace(parameters=params), "expr" if (n, m) in EXPR_METHODS else "stmt"))
    for n in ("pin_mode", "digital_write", "analog_write"):
        out.append(("Core", n, inspect.signature(getattr(K, n)), "corestmt"))
    for n in ("digital_read", "analog_read"):
        out.append(("Core", n, inspect.signature(getattr(K, n)), "coreexpr"))
    return out


def shapes(sig, cls, meth, rnd):
    """All (positional count, keyword subset) shapes accepted by Python's binder, with keyword orders."""
    skip = HOST_ONLY_PARAMS.get((cls, meth), set())
    params = [p for p in sig.parameters.values() if p.name not in skip]
    pos_ok = [p for p in params if p.kind in (p.POSITIONAL_ONLY, p.POSITIONAL_OR_KEYWORD)]
    for n in range(len(pos_ok) + 1):
        rest = [p for p in params if p not in pos_ok[:n] and p.kind != p.POSITIONAL_ONLY]
        required = [p.name for p in rest if p.default is inspect._empty]
        optional = [p.name for p in rest if p.default is not inspect._empty]
        for r in range(len(optional) + 1):
            for sub in itertools.combinations(optional, r):
                kws = required + list(sub)
                if len(kws) <= 4:
                    orders = list(itertools.permutations(kws))
                else:
                    orders = [tuple(kws), tuple(reversed(kws))]
                    for _ in range(3):
                        o = list(kws)
                        rnd.shuffle(o)
                        orders.append(tuple(o))
                    orders = list(dict.fromkeys(orders))
                for order in orders:
                    yield [p.name for p in pos_ok[:n]], list(order), len(kws) <= 4


HOST_VALUES = {"pin": 3, "mode": "OUTPUT", "text": "hi", "top": "a", "bottom": "b", "label": "L", "align": "center",
               "top_align": "center", "bottom_align": "right", "style": "hash", "animation": "bounce",
               "bitmap": [1, 2, 3, 4, 5, 6, 7, 8], "pattern": [1, 0, 1], "name": "success", "sensor": "HC-SR04",
               "model": "HC-SR04", "emit": "host", "on": True, "loop": False, "clear_row": True, "clear_rows": True,
               "row": 0, "col": 0, "cols": 16, "rows": 2, "slot": 1, "i2c_addr": 39}


def host_accepts(cls, meth, kind, pos_names, kw_names, params):
    """Does the real host callable accept this call shape for plausible in-range values?  A shape the host itself
    rejects with TypeError/ValueError (e.g. LCD(i2c_addr=..., rs=...)) is not an accepted calling convention."""
    import time as _t
    A, S = real("Reduino.Actuators"), real("Reduino.Sensors")
    D, C, K = real("Reduino.Displays"), real("Reduino.Communication"), real("Reduino.Core")
    ns = {}
    for m in (A, S, D, C, K):
        ns.update({k: getattr(m, k) for k in dir(m) if not k.startswith("_")})

    def val(pn, i, alt=None):
        if alt is not None and pn not in HOST_VALUES and pn != "on_click" and not (cls == "Potentiometer" and pn == "pin"):
            return alt
        if cls == "Potentiometer" and pn == "pin":
            return "A3"
        if pn == "on_click":
            return (lambda: None)
        if pn in HOST_VALUES:
            return HOST_VALUES[pn]
        return 2 + i
    names = [p.name for p in params]
    saved = _t.sleep
    _t.sleep = lambda s: None
    try:
        # a shape is rejected by the host only if it raises for every candidate value vector
        for alt in (None, 1, 0, 100, 1000, 0.5):
            args = [val(pn, names.index(pn), alt) for pn in pos_names]
            kwargs = {pn: val(pn, names.index(pn), alt) for pn in kw_names}
            try:
                if kind == "ctor":
                    ns[cls](*args, **kwargs)
                elif cls == "Core":
                    ns[meth](*args, **kwargs)
                else:
                    loc = {}
                    exec(DEVICES[cls], ns, loc)
                    getattr(loc["dev"], meth)(*args, **kwargs)
                return True
            except (TypeError, ValueError):
                continue
            except Exception:
                return True
        return False
    finally:
        _t.sleep = saved


def probe(cls, meth, pname, idx):
    lit = LITERAL_PROBES.get((cls, meth, pname))
    if lit:
        return lit
    if cls == "Core" and pname == "mode":
        return ("OUTPUT", "OUTPUT")
    name = f"zq{idx}v"
    return (name, name)


def norm(v):
    if isinstance(v, str):
        s = v.strip()
        while s.startswith("(") and s.endswith(")"):
            s = s[1:-1].strip()
        if len(s) >= 2 and s[0] == s[-1] and s[0] in "\"'":
            s = s[1:-1]
        return s
    return v


def same_value(field, expected):
    a, b = norm(field), norm(expected)
    if isinstance(a, bool) or isinstance(b, bool):
        if isinstance(a, str) or isinstance(b, str):
            return str(a).lower() == str(b).lower()
        return a == b
    if isinstance(a, (int, float)) and isinstance(b, (int, float)):
        return float(a) == float(b)
    if isinstance(a, str) and isinstance(b, (int, float)):
        try:
            return float(a) == float(b)
        except ValueError:
            return False
    if isinstance(b, str) and isinstance(a, (int, float)):
        try:
            return float(b) == float(a)
        except ValueError:
            return False
    return a == b


def find_node(P, prog, base_count, cls, meth, kind):
    nodes = list(prog.setup_body) + list(prog.loop_body)
    return nodes[base_count:]


def build():
    return Registry()


def extra_obligations(mods, tier, seed):
    import random
    rnd = random.Random(seed)
    P = real("Reduino.transpile.parser")
    t_all = time.time()
    out, stats = [], {"shapes": 0, "rejected": 0, "callables": 0, "exhaustive_order_shapes": 0}
    samples = []
    for cls, meth, sig, kind in host_callables():
        stats["callables"] += 1
        skip = HOST_ONLY_PARAMS.get((cls, meth), set())
        params = [p for p in sig.parameters.values() if p.name not in skip]
        decl = "" if kind == "ctor" or cls == "Core" else DEVICES[cls] + "\n"
        base_src = PRELUDE + decl
        base_nodes = len(P.parse(base_src).setup_body)
        any_node = False
        host_ok = {}
        canon_ir = {}
        per_param_fail = {}
        n_shapes = 0
        t0 = time.time()
        for pos_names, kw_names, exhaustive in shapes(sig, cls, meth, rnd):
            hk = (tuple(pos_names), frozenset(kw_names))
            if hk not in host_ok:
                host_ok[hk] = host_accepts(cls, meth, kind, pos_names, kw_names, params)
            if not host_ok[hk]:
                stats["host_rejects"] = stats.get("host_rejects", 0) + 1
                continue
            n_shapes += 1
            stats["shapes"] += 1
            stats["exhaustive_order_shapes"] += 1 if exhaustive else 0
            bound = {}
            for i, pn in enumerate(pos_names + kw_names):
                bound[pn] = probe(cls, meth, pn, [p.name for p in params].index(pn))
            args = [bound[pn][0] for pn in pos_names] + [f"{pn}={bound[pn][0]}" for pn in kw_names]
            call_args = ", ".join(args)
            if kind == "ctor":
                line = f"dev = {cls}({call_args})"
            elif kind == "stmt":
                line = f"dev.{meth}({call_args})"
            elif kind == "expr":
                line = f"got = dev.{meth}({call_args})"
            elif kind == "corestmt":
                line = f"{meth}({call_args})"
            else:
                line = f"got = {meth}({call_args})"
            try:
                prog = P.parse(base_src + line + "\n")
            except (ValueError, SyntaxError) as ex:
                stats["rejected"] += 1
                rej = stats.setdefault("rejected_by_callable", {})
                key = f"{cls}.{meth}"
                rej.setdefault(key, [0, line, str(ex)[:80]])[0] += 1
                continue
            except Exception as ex:
                per_param_fail.setdefault("<crash>", []).append({"line": line, "problem": f"{type(ex).__name__}: {ex}"})
                continue
            new = (list(prog.setup_body) + list(prog.loop_body))[base_nodes:]
            target_node, fields = None, {}
            if kind in ("coreexpr", "corestmt", "expr"):
                # the call is carried as C text inside an expression / declaration node
                text = " ".join(repr(dataclasses.asdict(n)) if dataclasses.is_dataclass(n) else repr(n) for n in new)
                if not new:
                    per_param_fail.setdefault("<dropped>", []).append({"line": line, "problem": "accepted call produced no IR"})
                    continue
                any_node = True
                c_name = {"pin_mode": "pinMode", "digital_write": "digitalWrite", "analog_write": "analogWrite",
                          "digital_read": "digitalRead", "analog_read": "analogRead"}.get(meth)
                if c_name:
                    import re
                    m = re.search(re.escape(c_name) + r"\(([^()]*)\)", text)
                    got = [x.strip() for x in m.group(1).split(",")] if m else []
                    order = [p.name for p in params]
                    for j, pn in enumerate(order):
                        exp = bound[pn][1] if pn in bound else None
                        if j >= len(got) or norm(got[j]) != norm(exp):
                            per_param_fail.setdefault(pn, []).append(
                                {"line": line, "problem": f"C call arguments {got}, Python binds {pn}={exp}"})
                else:
                    # value-returning method whose argument selects behaviour: every shape binding the same values must
                    # give the same IR as the all-keyword form
                    key = tuple(sorted(bound))
                    ref = canon_ir.setdefault(key, (line, text))
                    if ref[1] != text:
                        for pn in bound:
                            per_param_fail.setdefault(pn, []).append(
                                {"line": line, "problem": f"IR differs from the equivalent call {ref[0]!r}: {text[:160]} vs {ref[1][:160]}"})
                continue
            if not new:
                per_param_fail.setdefault("<dropped>", []).append({"line": line, "problem": "accepted call produced no IR node and no error"})
                continue
            any_node = True
            target_node = new[0]
            if not dataclasses.is_dataclass(target_node):
                continue
            fields = {f.name: getattr(target_node, f.name) for f in dataclasses.fields(target_node)}
            for p in params:
                fname = FIELD_OF.get((cls, meth, p.name), p.name)
                if fname not in fields:
                    per_param_fail.setdefault(p.name, []).append(
                        {"line": line, "problem": f"IR node {type(target_node).__name__} has no field {fname!r}: {fields}"})
                    continue
                exp = bound[p.name][1] if p.name in bound else (None if p.default is inspect._empty else p.default)
                if cls == "Ultrasonic" and p.name in ("sensor", "model"):
                    # host: selected = sensor if sensor is not None else model; None selects "HC-SR04"
                    exp = bound["sensor"][1] if "sensor" in bound else bound["model"][1] if "model" in bound else "HC-SR04"
                if not same_value(fields[fname], exp):
                    per_param_fail.setdefault(p.name, []).append(
                        {"line": line, "problem": f"{type(target_node).__name__}.{fname} = {fields[fname]!r}, Python binds {p.name} = {exp!r}"})
            if len(samples) < 6 and n_shapes % 7 == 1:
                samples.append({"line": line, "ir": repr(target_node)[:200]})
        label = f"{cls}.{meth}" if cls != "Core" else meth
        dt = round(time.time() - t0, 3)
        out.append({"name": f"C08/{label}/arm-exists", "status": "discharged" if any_node else "sat", "backend": "enum",
                    "where": f"some accepted call shape of {label} yields an IR node ({n_shapes} shapes)", "time": 0.0,
                    "replay": {"shapes": n_shapes}, "replay_confirmed": not any_node})
        names = [p.name for p in params] + ["<dropped>", "<crash>"]
        for pn in names:
            fails = per_param_fail.get(pn, [])
            if pn.startswith("<") and not fails:
                continue
            out.append({"name": f"C08/{label}/{pn}", "status": "discharged" if not fails else "sat", "backend": "enum",
                        "where": f"for all {n_shapes} accepted shapes of {label}{sig}: IR field for {pn} = what Python binds",
                        "time": dt / max(1, len(names)), "replay": {"failing_shapes": len(fails), "examples": fails[:4]},
                        "replay_confirmed": bool(fails), "shapes": n_shapes})
    del LITVAR_JOBS[:]
    out += spacing_and_literal_obligations(P)
    out += litvar_obligations()
    out += branch_declared_obligations(P)
    _STATE["stats"] = stats
    _STATE["samples"] = samples
    _STATE["wall"] = round(time.time() - t_all, 2)
    return out


ALT_LITERAL_PROBES = {
    ("LCD", "write", "align"): ('"right"', "right"), ("LCD", "line", "align"): ('"center"', "center"),
    ("LCD", "message", "top_align"): ('"right"', "right"), ("LCD", "message", "bottom_align"): ('"center"', "center"),
    ("LCD", "progress", "style"): ('"block"', "block"), ("LCD", "animate", "animation"): ('"scroll"', "scroll"),
    ("LCD", "glyph", "bitmap"): ("[8, 7, 6, 5, 4, 3, 2, 1]", [8, 7, 6, 5, 4, 3, 2, 1]),
    ("Led", "flash_pattern", "pattern"): ("[0, 1, 1, 0]", [0, 1, 1, 0]), ("Buzzer", "melody", "name"): ('"error"', "error"),
}
FLOAT_PROBE = {"speed": 0.625, "value": 0.625, "target_speed": 0.375, "pulse": 1062.5, "min_pulse_us": 612.5, "max_pulse_us": 2312.5}


def spacing_and_literal_obligations(P):
    """(a) optional blanks around `=` of a keyword argument never change the binding: for every callable the all-keyword call
    written `k=v`, `k = v`, `k =v`, `k= v` yields the same IR; (b) a non-integer literal given for a float-typed parameter reaches
    the IR unchanged (no truncation / re-scaling by the argument resolver) or the call is rejected."""
    out = []
    for cls, meth, sig, kind in host_callables():
        if kind not in ("ctor", "stmt"):
            continue
        skip = HOST_ONLY_PARAMS.get((cls, meth), set())
        params = [p for p in sig.parameters.values() if p.name not in skip]
        decl = "" if kind == "ctor" else DEVICES[cls] + "\n"
        base_src = PRELUDE + decl
        base_nodes = len(P.parse(base_src).setup_body)
        names = [p.name for p in params]
        label = f"{cls}.{meth}"

        def ir_of(arg_texts):
            line = (f"dev = {cls}(" if kind == "ctor" else f"dev.{meth}(") + ", ".join(arg_texts) + ")"
            try:
                prog = P.parse(base_src + line + "\n")
            except (ValueError, SyntaxError) as ex:
                return line, ("rejected", str(ex)[:80])
            new = (list(prog.setup_body) + list(prog.loop_body))[base_nodes:]
            return line, ("ir", repr(new))
        # ---- (a) spacing
        t0 = time.time()
        kwable = [p for p in params if p.kind != p.POSITIONAL_ONLY]
        if cls == "LCD" and kind == "ctor":
            kwable = [p for p in kwable if p.name in ("rs", "en", "d4", "d5", "d6", "d7", "cols", "rows")]
        fails = []
        if kwable:
            vals = {p.name: probe(cls, meth, p.name, names.index(p.name))[0] for p in kwable}
            for npos in sorted({0, min(1, len([p for p in params if p.kind == p.POSITIONAL_OR_KEYWORD]))}):
                posn = [p.name for p in params if p.kind in (p.POSITIONAL_ONLY, p.POSITIONAL_OR_KEYWORD)][:npos]
                kws = [p.name for p in kwable if p.name not in posn]
                ref_line, ref = ir_of([vals.get(n, "1") for n in posn] + [f"{k}={vals[k]}" for k in kws])
                for style in ("{k} = {v}", "{k} ={v}", "{k}= {v}"):
                    line, got = ir_of([vals.get(n, "1") for n in posn] + [style.format(k=k, v=vals[k]) for k in kws])
                    if got != ref and not (got[0] == "rejected" and ref[0] == "rejected"):
                        fails.append({"call": line, "reference": ref_line, "got": got[1][:200], "expected": ref[1][:200]})
            out.append({"name": f"C08/{label}/keyword-spacing", "status": "discharged" if not fails else "sat", "backend": "enum",
                        "where": f"{label}: blanks around `=` of keyword arguments do not change the IR", "time": round(time.time() - t0, 3),
                        "replay": {"examples": fails[:3]}, "replay_confirmed": bool(fails)})
        # ---- (a2) two calls of the same method in one block do not share argument state: each IR node carries its own call's arguments
        if kind == "stmt":
            t0 = time.time()
            req = [p for p in params if p.default is inspect._empty] + [p for p in params if p.default is not inspect._empty][:2]

            def args_for(tag, alt):
                out_args, bound = [], {}
                for p in req:
                    lit = LITERAL_PROBES.get((cls, meth, p.name))
                    if lit:
                        text, val = (ALT_LITERAL_PROBES.get((cls, meth, p.name)) or lit) if alt else lit
                    else:
                        text = val = f"{tag}{names.index(p.name)}v"
                    bound[p.name] = val
                    out_args.append(text if p.kind == p.POSITIONAL_ONLY else f"{p.name}={text}")
                return ", ".join(out_args), bound
            a_txt, a_b = args_for("zq", False)
            b_txt, b_b = args_for("yq", True)
            src2 = base_src + f"while True:\n    dev.{meth}({a_txt})\n    dev.{meth}({b_txt})\n"
            fails = []
            try:
                prog = P.parse(src2)
                nodes2 = [n for n in prog.loop_body if dataclasses.is_dataclass(n) and type(n).__name__ not in ("ButtonPoll", "LCDTick")]
                if len(nodes2) != 2:
                    fails.append({"script": src2[-200:], "problem": f"{len(nodes2)} IR nodes for two calls"})
                else:
                    for node2, bnd, which in ((nodes2[0], a_b, "first"), (nodes2[1], b_b, "second")):
                        fields = {f.name: getattr(node2, f.name) for f in dataclasses.fields(node2)}
                        for pn, exp in bnd.items():
                            fname = FIELD_OF.get((cls, meth, pn), pn)
                            if fname in fields and not same_value(fields[fname], exp):
                                fails.append({"call": which, "problem": f"{type(node2).__name__}.{fname} = {fields[fname]!r}, this call passes {pn} = {exp!r}"})
            except (ValueError, SyntaxError):
                pass
            except Exception as ex:
                fails.append({"problem": f"{type(ex).__name__}: {ex}"})
            out.append({"name": f"C08/{label}/two-calls-in-one-block", "status": "discharged" if not fails else "sat", "backend": "enum",
                        "where": f"{label}: two calls with different arguments in one block give two IR nodes, each with its own arguments", "time": round(time.time() - t0, 3),
                        "replay": {"examples": fails[:3], "script": src2[-260:]}, "replay_confirmed": bool(fails)})
            # ---- (a4) an omitted parameter binds to its default whatever the values of the other arguments: the IR of the call with the
            #      parameter omitted equals the IR with the default written out, for small, boundary and large literal values of the others
            t0 = time.time()
            fails = []
            simple_defaults = [p for p in params if p.default is not inspect._empty and isinstance(p.default, (int, float, str, bool)) and p.kind != p.POSITIONAL_ONLY]
            for p in simple_defaults:
                others = [q for q in params if q is not p]
                for k in (0, 1, 7, 20, 49, 50, 255, 1000):
                    for with_optional in (False, True):
                        base_args = []
                        for q in others:
                            if q.default is not inspect._empty and not with_optional:
                                continue
                            lit = LITERAL_PROBES.get((cls, meth, q.name))
                            if lit:
                                v = lit[0]
                            elif isinstance(q.default, (bool, str)) and q.default is not inspect._empty:
                                v = repr(q.default)
                            else:
                                v = str(k)
                            base_args.append(f"{q.name}={v}" if q.kind != q.POSITIONAL_ONLY else v)
                        line_o, omitted = ir_of(base_args)
                        line_e, explicit = ir_of(base_args + [f"{p.name}={p.default!r}"])
                        if omitted[0] == "rejected" or explicit[0] == "rejected":
                            continue
                        norm = lambda t: re.sub(r"(?<![\w.])(-?\d+)\.0(?![\d])", r"\1", t)     # 100 and 100.0 are the same bound value
                        if norm(omitted[1]) != norm(explicit[1]):
                            fails.append({"call": line_o, "parameter": p.name, "default": repr(p.default), "ir_with_parameter_omitted": omitted[1][:200], "ir_with_default_written_out": explicit[1][:200]})
            if simple_defaults:
                out.append({"name": f"C08/{label}/omitted-parameter-is-its-default-for-any-other-arguments", "status": "discharged" if not fails else "sat", "backend": "enum",
                            "where": f"{label}: omitting a defaulted parameter gives the IR of writing its default, for other arguments 0, 1, 7, 20, 49, 50, 255, 1000", "time": round(time.time() - t0, 3),
                            "replay": {"examples": fails[:3]}, "replay_confirmed": bool(fails)})
            # ---- (a3) an explicit None for a parameter whose default is None binds like the omitted argument (or is rejected)
            t0 = time.time()
            fails = []
            for p in params:
                if p.default is not None or p.kind == p.POSITIONAL_ONLY:
                    continue
                others = [q for q in params if q is not p and q.default is inspect._empty]
                base_args = []
                for q in others:
                    v = LITERAL_PROBES.get((cls, meth, q.name), (None,))[0] or f"zq{names.index(q.name)}v"
                    base_args.append(f"{q.name}={v}" if q.kind != q.POSITIONAL_ONLY else v)
                _, omitted = ir_of(base_args)
                line_n, explicit = ir_of(base_args + [f"{p.name}=None"])
                if explicit[0] == "rejected":
                    continue
                if explicit != omitted:
                    fails.append({"call": line_n, "problem": f"IR with {p.name}=None differs from the IR with {p.name} omitted", "got": explicit[1][:160], "omitted": omitted[1][:160]})
            if any(p.default is None for p in params):
                out.append({"name": f"C08/{label}/explicit-None-binds-like-omitted", "status": "discharged" if not fails else "sat", "backend": "enum",
                            "where": f"{label}: passing None explicitly for a None-default parameter gives the IR of the omitted form, or an error", "time": round(time.time() - t0, 3),
                            "replay": {"examples": fails[:3]}, "replay_confirmed": bool(fails)})
        # ---- (b) a literal argument behaves like the same value routed through a variable (executed on the firmware mock)
        for p in params:
            ann = str(p.annotation)
            int_param = "float" not in ann and "int" in ann and p.name not in ("pin", "trig", "echo", "red_pin", "green_pin", "blue_pin", "in1", "in2", "enable", "row", "col", "slot",
                                                                                "rs", "en", "d4", "d5", "d6", "d7", "rw", "backlight_pin", "i2c_addr", "cols", "rows")
            if ("float" not in ann and not int_param) or p.kind == p.POSITIONAL_ONLY or kind != "stmt":
                continue
            others = [q for q in params if q is not p and q.default is inspect._empty]
            args = []
            for q in others:
                v = LITERAL_PROBES.get((cls, meth, q.name), (None,))[0] or str(HOST_VALUES.get(q.name, 3 + names.index(q.name)) if not isinstance(HOST_VALUES.get(q.name), str) else repr(HOST_VALUES[q.name]))
                args.append(f"{q.name}={v}" if q.kind != q.POSITIONAL_ONLY else v)
            # a non-integer value and zero (a falsy constant must not be mistaken for "argument omitted")
            # an integer parameter given a fractional constant (folded `0.9 * 255`) is truncated like the run-time value, not rounded
            probes = (("", FLOAT_PROBE.get(p.name, 62.5)), ("/zero", 0)) if not int_param else (("/fraction-above-half", 62.75), ("/fraction-odd-half", 63.5), ("/fraction-product", "0.9 * 70"))
            for tag, lit in probes:
                call_lit = f"dev.{meth}(" + ", ".join(args + [f"{p.name}={lit}"]) + ")"
                call_var = f"dev.{meth}(" + ", ".join(args + [f"{p.name}=zzv"]) + ")"
                LITVAR_JOBS.append((f"{label}/{p.name}{tag}", base_src + call_lit + "\n", base_src + f"zzv = {lit}\n" + call_var + "\n"))
            # the way the SAME value is written does not matter: parenthesised, through a constant expression, a conversion call, abs()/max(),
            # an expression around a variable, positionally - the firmware trace is that of the plain keyword literal
            base_val = FLOAT_PROBE.get(p.name, 62.5) if not int_param else 62
            plain = base_src + f"dev.{meth}(" + ", ".join(args + [f"{p.name}={base_val}"]) + ")\n"
            half = base_val / 2
            forms = {"parenthesised": f"({base_val})", "sum-of-halves": f"{half!r} + {half!r}", "product": f"2 * {half!r}", "difference": f"{base_val + 4} - 4",
                     "conversion-call": (f"int({base_val})" if int_param else f"float({base_val})"), "abs": f"abs({base_val})", "max": f"max({base_val}, 0)", "min": f"min({base_val}, 100000)",
                     "conditional": f"({base_val} if 2 > 1 else 0)", "negated-twice": f"-(-{base_val})"}
            for fname, text in forms.items():
                LITVAR_JOBS.append((f"{label}/{p.name}/written-as-{fname}", plain, base_src + f"dev.{meth}(" + ", ".join(args + [f"{p.name}={text}"]) + ")\n"))
            for fname, pre, text in (("variable-plus-zero", f"zzv = {base_val}\n", "zzv + 0"), ("variable-in-parentheses", f"zzv = {base_val}\n", "(zzv)"),
                                     ("two-variables", f"zzv = {half!r}\nyyv = {half!r}\n", "zzv + yyv"), ("variable-changed-in-branch", f"zzc = 1\nzzv = {1 if int_param else 1.5}\nif zzc > 0:\n    zzv = {base_val}\n", "zzv"),
                                     ("variable-changed-in-loop", f"zzv = {0 if int_param else 0.0}\nfor i9 in range(2):\n    zzv = zzv + {half!r}\n", "zzv"), ("helper-result", f"def zzf():\n    return {base_val}\n", "zzf()")):
                LITVAR_JOBS.append((f"{label}/{p.name}/written-as-{fname}", plain, base_src + pre + f"dev.{meth}(" + ", ".join(args + [f"{p.name}={text}"]) + ")\n"))
            # positionally (when the parameter can be reached positionally with the required arguments before it)
            pos_params = [q for q in params if q.kind in (q.POSITIONAL_ONLY, q.POSITIONAL_OR_KEYWORD)]
            if p in pos_params and all(q.default is inspect._empty or q is p for q in pos_params[:pos_params.index(p) + 1]):
                pos_args = []
                for q in pos_params[:pos_params.index(p)]:
                    v = LITERAL_PROBES.get((cls, meth, q.name), (None,))[0] or str(HOST_VALUES.get(q.name, 3 + names.index(q.name)) if not isinstance(HOST_VALUES.get(q.name), str) else repr(HOST_VALUES[q.name]))
                    pos_args.append(v)
                rest = [a for a in args if a.split("=")[0] not in {q.name for q in pos_params[:pos_params.index(p)]}]
                LITVAR_JOBS.append((f"{label}/{p.name}/written-as-positional", plain, base_src + f"dev.{meth}(" + ", ".join(pos_args + [str(base_val)] + rest) + ")\n"))
    return out


BRANCH_DECLARED_CALLS = {
    "RGBLed": ["dev.blink(10, 20, 30)", "dev.blink(10, blue=30, green=20)", "dev.blink(10, 20, 30, delay_ms=50, times=4)", "dev.set_color(1, blue=3, green=2)",
               "dev.fade(1, 2, 3, steps=4, duration_ms=40)", "dev.on(10, blue=30, green=20)", "dev.off()"],
    "Servo": ["dev.write(90)", "dev.write_us(1500)", "dev.write(angle=45)"],
    "DCMotor": ["dev.set_speed(0.5)", "dev.run_for(speed=0.25, duration_ms=50)", "dev.ramp(0.5, 40)", "dev.stop()"],
    "Buzzer": ["dev.play_tone(440, 20)", "dev.beep(frequency=600, on_ms=10, off_ms=5, times=2)", "dev.stop()"],
    "Led": ["dev.blink(20, 2)", "dev.set_brightness(77)", "dev.toggle()"],
    "LCD": ["dev.write(1, 0, 'hi', align='right')", "dev.line(1, 'x')", "dev.message(bottom='b')"],
}


def branch_declared_obligations(P):
    """a call on a device binds the same way wherever the constructor line stood: declared at module level vs declared in both arms of an
    if / else, and vs re-declared in a taken branch - the IR node the parser builds for the call is the same"""
    t0 = time.time()
    bad, n = [], 0
    for cls, calls in sorted(BRANCH_DECLARED_CALLS.items()):
        d = DEVICES[cls]
        for c in calls:
            top = PRELUDE + "cfg = 1\n" + d + "\n" + c + "\n"
            variants = {"both-arms": PRELUDE + "cfg = 1\nif cfg == 1:\n    " + d + "\nelse:\n    " + d + "\n" + c + "\n",
                        "elif-arms": PRELUDE + "cfg = 1\nif cfg == 0:\n    " + d + "\nelif cfg == 1:\n    " + d + "\nelse:\n    " + d + "\n" + c + "\n"}
            try:
                ref = repr(P.parse(top).setup_body[-1])
            except Exception as ex:
                bad.append({"call": c, "device": cls, "problem": f"rejected with a module-level device: {type(ex).__name__}: {ex}"})
                continue
            for vn, src in variants.items():
                n += 1
                try:
                    got = repr(P.parse(src).setup_body[-1])
                except Exception as ex:
                    got = f"rejected: {type(ex).__name__}: {ex}"
                if got != ref:
                    bad.append({"call": c, "device": cls, "declared": vn, "module_level_ir": ref[:200], "branch_declared_ir": got[:200], "script": src[len(PRELUDE):]})
    return [{"name": "C08/device-declared-in-branch-arms/call-binds-as-at-module-level", "status": "discharged" if not bad else "sat", "backend": "enum",
             "where": f"{n} (device call, declaration placement) pairs: the IR node of the call is the same with the constructor at module level and in every arm of an if/else",
             "time": round(time.time() - t0, 2), "replay": {"failing": bad[:4]}, "replay_confirmed": bool(bad)}]


LITVAR_JOBS = []


def _litvar_one(job):
    name, a, b = job
    from progs.diff import transpile
    from fwsim.run import run_sketch
    res = []
    for src in (a, b):
        cpp, err = transpile(src)
        if cpp is None:
            return name, "rejected", err, a, b
        r = run_sketch(cpp, passes=1)
        if not r.get("compiled"):
            return name, "does-not-compile", r.get("errors", "")[-300:], a, b
        res.append([e for e in r["events"] if not e.startswith("S:")])
    if res[0] != res[1]:
        k = next((i for i, (x, y) in enumerate(zip(res[0], res[1])) if x != y), min(len(res[0]), len(res[1])))
        return name, "differs", {"index": k, "literal": res[0][max(0, k - 2):k + 3], "variable": res[1][max(0, k - 2):k + 3]}, a, b
    return name, "same", None, a, b


def litvar_obligations():
    import multiprocessing as mp
    t0 = time.time()
    with mp.Pool(16) as pool:
        res = pool.map(_litvar_one, LITVAR_JOBS, chunksize=1)
    per = round((time.time() - t0) / max(1, len(res)), 3)
    out = []
    for name, verdict, detail, a, b in res:
        ok = verdict in ("same", "rejected")
        out.append({"name": f"C08/{name}/literal-behaves-like-variable", "status": "discharged" if ok else "sat", "backend": "enum+fwsim",
                    "where": f"{name}: a non-integer literal and the same value in a variable produce the same firmware event trace [{verdict}]", "time": per,
                    "replay": {"literal_script": a[-200:], "variable_script": b[-200:], "detail": detail}, "replay_confirmed": not ok})
    return out


def extra_evidence():
    st = _STATE.get("stats", {})
    return {"shapes_rejected_by_host_itself": st.get("host_rejects", 0), "shapes_enumerated": st.get("shapes"), "shapes_rejected_with_error": st.get("rejected"),
            "callables": st.get("callables"), "rejected_by_callable": st.get("rejected_by_callable"), "shapes_with_all_keyword_orders": st.get("exhaustive_order_shapes"),
            "exhaustive": False, "samples_ir": _STATE.get("samples"),
            "evaluations": st.get("shapes", 0), "distinct_nontrivial": st.get("shapes", 0) - st.get("rejected", 0)}
