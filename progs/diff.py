"""Bounded differential back end shared by C01/C02/C05/C06: the same script under CPython with the real host modules
and as firmware (real parser + emitter, g++ against the recording Arduino mock in /verif/fwsim)."""
import json
import os
import re
import subprocess
import sys

HERE = os.path.dirname(os.path.abspath(__file__))
ROOT = os.path.dirname(HERE)
sys.path.insert(0, ROOT)
from fwsim.run import run_sketch   # noqa: E402

NUM = re.compile(r"-?\d+(?:\.\d+)?(?:e[-+]?\d+)?")


def host_events(src, passes=3, timeout=20):
    env = dict(os.environ)
    env.setdefault("REDUINO_REPO", "/repo")
    try:
        r = subprocess.run([sys.executable, os.path.join(HERE, "hostrun.py")], input=json.dumps({"src": src, "passes": passes}),
                           capture_output=True, text=True, timeout=timeout, env=env)
    except subprocess.TimeoutExpired:
        return {"status": "timeout", "events": []}
    if r.returncode != 0:
        return {"status": "crash:" + r.stderr[-400:], "events": []}
    return json.loads(r.stdout)


def transpile(src, repo=None):
    """real parse + emit; returns (cpp, None) or (None, 'ErrorType: msg')"""
    from contracts.c08 import real
    P, E = real("Reduino.transpile.parser"), real("Reduino.transpile.emitter")
    try:
        return E.emit(P.parse(src)), None
    except Exception as ex:
        return None, f"{type(ex).__name__}: {ex}"


def norm_line(line):
    """presentation-insensitive form of an event line: booleans print as 1/0 on the device, floats with two decimals"""
    line = line.replace("True", "1").replace("False", "0")
    parts, pos = [], 0
    for m in NUM.finditer(line):
        parts.append(line[pos:m.start()])
        tok = m.group(0)
        # an int prints without a fraction on both sides, a float with one: keep the kind next to the value
        parts.append((float(tok), ("." in tok) or ("e" in tok)))
        pos = m.end()
    parts.append(line[pos:])
    return parts


def same_line(a, b, tol=0.0051, strict_kinds=True):
    if a.startswith("D:") and b.startswith("D:"):
        # delays: the device sleeps whole milliseconds, the host the exact value - "the same delays up to the device's whole-millisecond
        # rounding (under 1 ms per delay)"
        try:
            return abs(float(a[2:]) - float(b[2:])) < 1.0
        except ValueError:
            return a == b
    pa, pb = norm_line(a), norm_line(b)
    if len(pa) != len(pb):
        return False
    for x, y in zip(pa, pb):
        if isinstance(x, tuple) != isinstance(y, tuple):
            return False
        if isinstance(x, tuple):
            if strict_kinds and x[1] != y[1]:
                return False          # an integer value held in a float (6 printed as 6.00) or the reverse
            if abs(x[0] - y[0]) > tol + 1e-4 * max(abs(x[0]), abs(y[0])):
                return False
        elif x != y:
            return False
    return True


def observable(events, kinds=("S", "D")):
    return [e for e in events if e.startswith("== ") or e.split(":", 1)[0] in kinds]


def compare(host, fw, strict_kinds=True):
    """first difference between two event lists, or None.  Delays are compared up to the device's whole-millisecond rounding (< 1 ms per
    delay): a delay under one millisecond on one side may have no counterpart on the other (it rounded to nothing there)"""
    def blocks(ev):
        """[(event | None, [delays that follow it])]: consecutive delays form one block between two other events"""
        out, cur = [(None, [])], None
        for e in ev:
            if e.startswith("D:"):
                try:
                    out[-1][1].append(float(e[2:]))
                    continue
                except ValueError:
                    pass
            out.append((e, []))
        return out
    hb, fb = blocks(host), blocks(fw)
    for k in range(max(len(hb), len(fb))):
        he, hd = hb[k] if k < len(hb) else ("<end>", [])
        fe, fd = fb[k] if k < len(fb) else ("<end>", [])
        if he != fe and not (he is not None and fe is not None and same_line(he, fe, strict_kinds=strict_kinds)):
            return {"index": k, "cpython": he, "firmware": fe}
        # every single delay may differ by less than a millisecond (and a sub-millisecond delay may vanish): the block's total agrees to
        # within that allowance
        n = max(len(hd), len(fd))
        must, may, got = sum(1 for d in hd if d >= 1.0), sum(1 for d in hd if d >= 0.5), sum(1 for d in fd if d > 0)
        if not (must <= got <= may) or (abs(sum(hd) - sum(fd)) >= max(n, 1) * 1.0 and not (n == 0)):
            return {"index": k, "after": he, "cpython": "delays " + " ".join(f"{d:g}" for d in hd[:8]) + (" ..." if len(hd) > 8 else "") + f" (total {sum(hd):g} ms)",
                    "firmware": "delays " + " ".join(f"{d:g}" for d in fd[:8]) + (" ..." if len(fd) > 8 else "") + f" (total {sum(fd):g} ms)"}
    return None


def differential(src, passes=3, kinds=("S", "D"), strict_kinds=True):
    """-> dict(verdict = 'same' | 'rejected' | 'python-undefined' | 'differs' | 'does-not-compile' | 'crash', ...)"""
    host = host_events(src, passes)
    if host["status"].startswith(("crash", "timeout")):
        return {"verdict": "harness-" + host["status"].split(":")[0], "detail": host["status"]}
    if host["status"] != "ok":
        return {"verdict": "python-undefined", "detail": host["status"]}
    # A-INT16: a script whose integers leave the device's int range is outside the comparison (Python ints are unbounded)
    for e in host["events"]:
        if e.startswith("S:"):
            for m in NUM.finditer(e):
                tok = m.group(0)
                if "." not in tok and "e" not in tok and abs(int(tok)) > 32767:
                    return {"verdict": "python-undefined", "detail": f"integer {tok} exceeds the 16-bit device int (A-INT16)"}
    cpp, err = transpile(src)
    if cpp is None:
        return {"verdict": "rejected", "detail": err}
    fw = run_sketch(cpp, passes=passes)
    if not fw.get("compiled"):
        return {"verdict": "does-not-compile", "detail": fw.get("errors", "")[-600:], "cpp": cpp}
    if fw.get("timeout") or fw.get("rc", 0) != 0:
        return {"verdict": "crash", "detail": fw.get("stderr", "timeout"), "cpp": cpp}
    h, f = _strip_empty_passes(observable(host["events"], kinds)), _strip_empty_passes(observable(fw["events"], kinds))
    d = compare(h, f, strict_kinds)
    if d is None:
        return {"verdict": "same", "events": len(h)}
    return {"verdict": "differs", "first_difference": d, "cpython": h[:40], "firmware": f[:40], "cpp": cpp}


def _strip_empty_passes(ev):
    """a `== loop k` marker not followed by an event carries no observation (scripts without a main loop)"""
    out = []
    for i, e in enumerate(ev):
        if e.startswith("== loop") and (i + 1 == len(ev) or ev[i + 1].startswith("== ")):
            continue
        out.append(e)
    return out


def _one(args):
    name, src, passes = args
    try:
        r = differential(src, passes)
    except Exception as ex:     # harness failure: never a verdict about the code
        r = {"verdict": "harness-crash", "detail": f"{type(ex).__name__}: {ex}"}
    r["name"] = name
    return r


def run_corpus(corpus, passes=4, jobs=16):
    import multiprocessing as mp
    with mp.Pool(jobs) as pool:
        return pool.map(_one, [(n, s, passes) for n, s in sorted(corpus.items())], chunksize=1)
