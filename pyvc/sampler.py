"""Random concrete pre-states and arguments for the native cross-check (seeded by VERIF_SEED)."""
from fractions import Fraction
from . import tsplit as typespec

INTS = [-300, -2, -1, 0, 1, 2, 3, 5, 17, 20, 50, 100, 127, 128, 254, 255, 256, 300, 1000]
REALS = ["-300", "-3/2", "-1", "-1/2", "-1/510", "0", "1/1000", "1/4", "1/2", "3/4", "1", "3/2", "5/2", "10", "90",
         "100", "509/2", "255", "511/2", "544", "1000", "2400", "3000"]


def value(spec, rnd, pools=None, name=None):
    alts = typespec.alternatives(spec)
    alt = rnd.choice(alts)
    if pools and name in pools:
        return rnd.choice(pools[name])
    if alt == "int":
        return rnd.choice(INTS) if rnd.random() < 0.7 else rnd.randint(-400, 400)
    if alt in ("real", "float"):
        return {"real": rnd.choice(REALS)} if rnd.random() < 0.7 else {"real": str(Fraction(rnd.randint(-6000, 6000), rnd.choice([1, 2, 4, 8, 10])))}
    if alt == "bool":
        return rnd.random() < 0.5
    if alt == "str":
        return rnd.choice(["", "a", "red", "7", "A0"])
    if alt == "none":
        return None
    if alt == "any":
        return "<any>"
    if alt.startswith("("):
        return [value(s, rnd, pools, name) for s in typespec.split_tuple(alt)]
    if alt.startswith("list["):
        ek = alt[5:-1]
        return {"$list": [value(ek, rnd) for _ in range(rnd.randint(0, 5))]}
    if alt.startswith("fn"):
        return {"$fn": alt[3:] or name}
    return None


def jobs_for(reg, rnd, n, state_samplers=None, pools=None, skip=()):
    out = []
    k = 0
    for (file, qual), c in reg.contracts.items():
        if c.extern or c.inline or file == "<extern>" or qual in skip:
            continue
        is_method = "." in qual
        cd = reg.classes.get(qual.split(".")[0]) if is_method else None
        for _ in range(n):
            job = {"id": f"x{k}", "file": file, "unit": qual, "params": {}, "self": None,
                   "ghost": {"slept": rnd.choice([0.0, 12.5, 100.0]), "sleeps": rnd.choice([0, 3])}}
            k += 1
            for p, spec in c.params.items():
                job["params"][p] = value(spec, rnd, (pools or {}).get(qual), p)
            if cd is not None and not c.is_init:
                ss = (state_samplers or {}).get(cd.name)
                if ss:
                    job["self"] = ss(rnd)
                else:
                    allf = dict(cd.fields)
                    allf.update(cd.ghost_fields)
                    job["self"] = {f: value(s, rnd, (pools or {}).get(cd.name), f) for f, s in allf.items()}
            out.append(job)
    return out
