"""Concrete (CPython) run-time contract checker for the REAL code.

Runs under the test-suite interpreter (/venv/bin/python, stdlib only):
    python native.py <contracts module> <jobs.json> <out.json>
Each job builds the pre-state natively (object.__new__ + fields, module globals), calls the real
function, and evaluates the same contract clauses the symbolic engine generates obligations for,
under the same clause names.  Used for: replaying solver counterexamples, path witnesses
(vacuity guard), and random cross-checks of contracts against the real code.
Float comparisons use a relative tolerance of 1e-9 (the proofs treat floats as reals).
"""
from __future__ import annotations

import ast
import copy
import importlib
import json
import math
import os
import sys
from fractions import Fraction

TOL = 1e-9


class AnyVal:
    def __init__(self, tag):
        self.tag = tag

    def __repr__(self):
        return f"<any {self.tag}>"

    def __deepcopy__(self, memo):
        return self


def decode(v, spec=None):
    if isinstance(v, dict):
        if "real" in v:
            return float(Fraction(v["real"]))
        if "$list" in v:
            return [decode(x) for x in v["$list"]]
        if "$obj" in v:
            return v
        if "$any" in v:
            return AnyVal(v["$any"])
        if "$fn" in v:
            return v
    if isinstance(v, list):
        return tuple(decode(x) for x in v)
    if isinstance(v, str) and v.startswith("<any"):
        return AnyVal(v)
    return v


def approx_eq(a, b):
    if isinstance(a, tuple) and isinstance(b, tuple):
        return len(a) == len(b) and all(approx_eq(x, y) for x, y in zip(a, b))
    if isinstance(a, (int, float, Fraction)) and isinstance(b, (int, float, Fraction)) and (
            isinstance(a, float) or isinstance(b, float)):
        fa, fb = float(a), float(b)
        if fa == 0.0 or fb == 0.0:
            return fa == fb          # "is zero" has no dead band: rounding noise is relative, a value compared with exact zero is zero or not
        return abs(fa - fb) <= TOL * max(1.0, abs(fa), abs(fb))
    return a == b


def approx_le(a, b):
    return a <= b or approx_eq(a, b)


def approx_lt(a, b):
    return a < b and not approx_eq(a, b)


class Tol(ast.NodeTransformer):
    """a == b / a <= b ... -> tolerant comparisons; old(e) -> names prefixed with __old_."""

    def visit_Compare(self, node):
        self.generic_visit(node)
        parts = []
        left = node.left
        for op, right in zip(node.ops, node.comparators):
            fn = {ast.Eq: "__eq", ast.NotEq: "__ne", ast.LtE: "__le", ast.GtE: "__ge", ast.Lt: "__lt", ast.Gt: "__gt"}.get(type(op))
            if fn is None:
                parts.append(ast.Compare(left=left, ops=[op], comparators=[right]))
            else:
                parts.append(ast.Call(func=ast.Name(id=fn, ctx=ast.Load()), args=[left, right], keywords=[]))
            left = right
        return parts[0] if len(parts) == 1 else ast.BoolOp(op=ast.And(), values=parts)

    def visit_Call(self, node):
        if isinstance(node.func, ast.Name) and node.func.id == "old":
            inner = OldNames().visit(node.args[0])
            return self.visit(inner)
        self.generic_visit(node)
        return node


class OldNames(ast.NodeTransformer):
    def visit_Name(self, node):
        return ast.copy_location(ast.Name(id="__old_" + node.id, ctx=node.ctx), node)


def rhe(x):
    return round(Fraction(x)) if not isinstance(x, float) else round(x)


SPEC_ENV = {
    "implies": lambda a, b: (not a) or bool(b),
    "iff": lambda a, b: bool(a) == bool(b),
    "ite": lambda c, a, b: a if c else b,
    "trunc": lambda x: math.trunc(x),
    "floor": lambda x: math.floor(x),
    "rhe": rhe,
    "real": lambda x: float(x) if isinstance(x, float) else Fraction(int(x)) if isinstance(x, (bool, int)) else x,
    "is_int": lambda x: isinstance(x, int),
    "is_float": lambda x: isinstance(x, float),
    "is_bool": lambda x: isinstance(x, bool),
    "is_num": lambda x: isinstance(x, (int, float)),
    "is_str": lambda x: isinstance(x, str),
    "is_none": lambda x: x is None,
    "same": lambda a, b: type(a) is type(b) and (a is b or approx_eq(a, b)),
    "__eq": approx_eq, "__ne": lambda a, b: not approx_eq(a, b),
    "__le": approx_le, "__ge": lambda a, b: approx_le(b, a),
    "__lt": approx_lt, "__gt": lambda a, b: approx_lt(b, a),
    "abs": abs, "min": min, "max": max, "len": len, "int": int, "float": float, "str": str, "bool": bool,
    "True": True, "False": False, "None": None,
}

_cache = {}
EXTRA_SPEC_ENV = {}


def spec_eval(src, env):
    code = _cache.get(src)
    if code is None:
        tree = ast.parse(src.strip(), mode="eval")
        tree = ast.fix_missing_locations(Tol().visit(tree))
        code = compile(tree, "<contract>", "eval")
        _cache[src] = code
    return eval(code, dict(SPEC_ENV, **EXTRA_SPEC_ENV, **env))


class Snapshot:
    """attribute bag for the old(self)."""


def cdeep(v):
    """copy containers, keep every other object by identity (external objects, callables)."""
    if isinstance(v, list):
        return [cdeep(x) for x in v]
    if isinstance(v, tuple):
        return tuple(cdeep(x) for x in v)
    if isinstance(v, dict):
        return {k: cdeep(x) for k, x in v.items()}
    if isinstance(v, set):
        return set(v)
    return v


def snap(obj):
    s = Snapshot()
    s.__dict__.update({k: cdeep(v) for k, v in obj.__dict__.items()})
    return s


class Ghost:
    """All ghost variables of the contract module, by name."""

    def __init__(self, d, names):
        self.vals = {}
        for n, kind in names.items():
            v = d.get(n)
            if isinstance(v, dict) and "real" in v:
                v = float(Fraction(v["real"]))
            if v is None:
                v = {"int": 0, "real": 0.0, "bool": False, "str": ""}.get(kind, [] if kind.startswith("seq:") else {} if kind.startswith("map:") else 0)
            if kind.startswith("seq:") and isinstance(v, list):
                v = [int(x) if kind == "seq:int" else x for x in v]
            if isinstance(v, dict) and "$map" in v:
                v = {k: x for k, x in v["$map"]}
            self.vals[n] = float(v) if kind == "real" else v

    def __getattr__(self, n):
        try:
            return self.__dict__["vals"][n]
        except KeyError:
            raise AttributeError(n)

    def __setattr__(self, n, v):
        if n == "vals":
            self.__dict__[n] = v
        else:
            self.vals[n] = v


def run_job(reg, job, hooks):
    import time as _time
    file, qual = job["file"], job["unit"]
    c = reg.lookup(file, qual)
    modname = file[:-3].replace("/", ".")
    if file.startswith("@verif/"):
        modname = file[7:-3].replace("/", ".")
    if modname.endswith(".__init__"):
        modname = modname[:-9]
    mod = importlib.import_module(modname)
    is_method = "." in qual
    ghost = Ghost(job.get("ghost") or {}, reg.ghosts)
    real_sleep = _time.sleep

    def fake_sleep(seconds):
        if hooks.get("on_time_sleep"):
            hooks["on_time_sleep"](ghost, seconds)
            return
        ghost.slept += seconds * 1000.0
        ghost.sleeps += 1
    _time.sleep = fake_sleep
    try:
        cd = reg.classes.get(qual.split(".")[0]) if is_method else None
        obj = None
        env = {}
        params = {k: decode(v) for k, v in (job.get("params") or {}).items()}
        for k, v in list(params.items()):
            if isinstance(v, dict) and "$fn" in v:
                params[k] = hooks["make_fn"](v, ghost)
        if is_method:
            cls = getattr(mod, qual.split(".")[0])
            static = isinstance(cls.__dict__.get(qual.split(".")[1]), staticmethod)
            if not static:
                obj = object.__new__(cls)
                if not c.is_init:
                    for f, v in (job.get("self") or {}).items():
                        if f.startswith("$"):
                            continue
                        val = decode(v)
                        if isinstance(val, dict) and "$fn" in val:
                            val = hooks["make_fn"](val, ghost)
                        if isinstance(val, dict) and "$ext" in val:
                            val = hooks["make_ext"](val, ghost)
                        obj.__dict__[f] = val
                env["self"] = obj
            fn = getattr(cls, qual.split(".")[1])
        else:
            fn = getattr(mod, qual)
        if hooks.get("setup"):
            hooks["setup"](mod, job, ghost, env)
        env.update(params)
        old = {"__old_" + k: (snap(v) if k == "self" and not c.is_init else cdeep(v))
               for k, v in env.items()}
        for g, gv in ghost.vals.items():
            old["__old_" + g] = cdeep(gv)
        if hooks.get("snapshot"):
            old.update(hooks["snapshot"](mod, ghost))
        # the concrete pre-state must satisfy the class invariant and the preconditions
        if job.get("check_pre", True):
            pv = {k[6:]: v for k, v in old.items()}
            pv.update(old)
            pv.update(env)
            pv.update(ghost.vals)
            try:
                if cd is not None and obj is not None and c.public and not c.is_init:
                    pv["inv"] = lambda o: all(spec_eval(s, dict(pv, self=o)) for s in cd.inv)
                    if not all(spec_eval(s, pv) for s in cd.inv):
                        return {"id": job.get("id"), "skipped": "class invariant does not hold in the given pre-state"}
                if not all(spec_eval(s, pv) for s in c.requires):
                    return {"id": job.get("id"), "skipped": "precondition does not hold"}
            except Exception as ex:
                return {"id": job.get("id"), "skipped": f"pre-state not evaluable: {ex}"}
        raised = None
        result = None
        try:
            if obj is not None:
                result = fn(obj, **params)
            else:
                result = fn(**params)
        except Exception as ex:  # noqa
            raised = type(ex).__name__
            raised_obj = ex
            listed = list(c.raises) + list(c.may_raise_other)
            if raised not in listed and "Exception" in listed:
                raised = "Exception"   # the contract's generic class stands for any other exception
        failed, checked = [], []

        def cur_env():
            e = dict(env)
            e.update(old)
            e.update(ghost.vals)
            e["result"] = result
            if hooks.get("snapshot_cur"):
                e.update(hooks["snapshot_cur"](mod, ghost))
            if cd is not None:
                e["inv"] = lambda o: all(spec_eval(s, dict(e, self=o)) for s in cd.inv)
            return e

        def check(name, src, envx=None):
            checked.append(name)
            try:
                ok = bool(spec_eval(src, envx or cur_env()))
            except Exception as ex:
                ok = False
                failed.append({"clause": name, "src": src, "error": f"{type(ex).__name__}: {ex}"})
                return
            if not ok:
                failed.append({"clause": name, "src": src})
        pre_env = dict(env)
        pre_env.update(old)
        # raise conditions are over the pre-state
        pre_view = {k[6:]: v for k, v in old.items()}
        pre_view.update(old)
        if cd is not None:
            pre_view["inv"] = lambda o: all(spec_eval(s, dict(pre_view, self=o)) for s in cd.inv)
        conds = {}
        for exc, src in c.raises.items():
            try:
                conds[exc] = bool(spec_eval(src, pre_view))
            except Exception as ex:
                conds[exc] = None
                failed.append({"clause": f"xpost/{exc}-cond", "src": src, "error": str(ex)})
        if raised is None:
            for exc, src in c.raises.items():
                checked.append(f"xpost/{exc}-if")
                if conds[exc]:
                    failed.append({"clause": f"xpost/{exc}-if", "src": src})
            for g, src in c.ghost_update.items():
                if g.startswith("self."):
                    obj.__dict__[g[5:]] = spec_eval(src, cur_env())
            for i, src in enumerate(c.ensures):
                check(f"post/{i + 1}", src)
            if obj is not None and (c.public or c.is_init) and cd is not None:
                for i, src in enumerate(cd.inv):
                    check(f"inv/{i + 1}", src)
            if obj is not None and not c.is_init:
                o = old["__old_self"]
                for f in o.__dict__:
                    if f"self.{f}" in c.modifies or f"self.{f}" in c.ghost_update:
                        continue
                    checked.append(f"frame/self.{f}")
                    if f not in obj.__dict__ or not SPEC_ENV["same"](o.__dict__[f], obj.__dict__[f]):
                        failed.append({"clause": f"frame/self.{f}"})
            for g in ghost.vals:
                if g.startswith("_") or g in hooks.get("prophecy", ()):
                    continue
                if f"ghost.{g}" not in c.modifies:
                    checked.append(f"frame/ghost.{g}")
                    if not approx_eq(getattr(ghost, g), old["__old_" + g]):
                        failed.append({"clause": f"frame/ghost.{g}"})
            if hooks.get("frame"):
                hooks["frame"](mod, c, old, ghost, failed, checked, "frame")
        else:
            if raised in c.raises:
                checked.append(f"xpost/{raised}-only-if")
                if not conds[raised]:
                    failed.append({"clause": f"xpost/{raised}-only-if", "src": c.raises[raised]})
            elif raised not in c.may_raise_other:
                failed.append({"clause": f"xpost/unexpected-{raised}", "error": str(raised_obj)})
            if c.atomic and not c.is_init:
                if obj is not None:
                    o = old["__old_self"]
                    for f in o.__dict__:
                        checked.append(f"xpost/{raised}/atomic/self.{f}")
                        if f not in obj.__dict__ or not SPEC_ENV["same"](o.__dict__[f], obj.__dict__[f]):
                            failed.append({"clause": f"xpost/{raised}/atomic/self.{f}"})
                for g in ghost.vals:
                    if g.startswith("_") or g in hooks.get("prophecy", ()):
                        continue
                    checked.append(f"xpost/{raised}/atomic/ghost.{g}")
                    if not approx_eq(getattr(ghost, g), old["__old_" + g]):
                        failed.append({"clause": f"xpost/{raised}/atomic/ghost.{g}"})
                if hooks.get("frame"):
                    hooks["frame"](mod, c, old, ghost, failed, checked, f"xpost/{raised}/atomic", everything=True)
            for i, src in enumerate(c.on_raise):
                check(f"xpost/{raised}/on_raise/{i + 1}", src, dict(cur_env(), raised="Exception" if raised not in ("ValueError", "RuntimeError", "TypeError", "SyntaxError", "OSError") and "Exception" in c.may_raise_other + list(c.raises) else raised))
            if obj is not None and c.public and not c.is_init and not c.atomic and cd is not None:
                for i, src in enumerate(cd.inv):
                    check(f"xpost/{raised}/inv/{i + 1}", src)
        observed = {"raised": raised, "result": repr(result)[:300], "ghost": {k: repr(v)[:300] for k, v in ghost.vals.items() if not k.startswith("_")}}
        if obj is not None:
            observed["self"] = {k: repr(v) for k, v in obj.__dict__.items()}
        if hooks.get("observe"):
            observed.update(hooks["observe"](mod, ghost))
        return {"id": job.get("id"), "raised": raised, "failed": failed, "checked": checked, "observed": observed}
    finally:
        _time.sleep = real_sleep
        if hooks.get("teardown"):
            hooks["teardown"](ghost)


def pre_ok(reg, job):
    """Does the concrete pre-state satisfy requires + class invariant?"""
    return True


def main():
    sys.path.insert(0, os.path.dirname(os.path.dirname(os.path.abspath(__file__))))
    repo_src = os.path.join(os.environ.get("REDUINO_REPO", "/repo"), "src")
    sys.path.insert(0, repo_src)
    cm = importlib.import_module(sys.argv[1])
    reg = cm.build()
    hooks = getattr(cm, "NATIVE_HOOKS", {})
    EXTRA_SPEC_ENV.update(hooks.get("spec_env", {}))
    jobs = json.load(open(sys.argv[2]))
    out = []
    for job in jobs:
        try:
            out.append(run_job(reg, job, hooks))
        except Exception as ex:
            import traceback
            out.append({"id": job.get("id"), "harness_error": traceback.format_exc()})
    json.dump(out, open(sys.argv[3], "w"))


if __name__ == "__main__":
    main()
