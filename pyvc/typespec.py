"""Type specs used in contracts: 'int', 'real', 'bool', 'str', 'any', 'none', 'fn',
'(int,int,int)' (static tuple), 'list[int]' (symbolic-length list), 'obj:Class', 'ext:name',
alternatives 'a|b'."""
from __future__ import annotations

import z3
from .sym import *  # noqa
from .state import *  # noqa


from .tsplit import alternatives, split_tuple  # noqa


SORTS = {INT: z3.IntSort(), REAL: z3.RealSort(), BOOL: z3.BoolSort(), STR: z3.StringSort()}


def make(spec, name, st, engine=None):
    """A fresh symbolic value of (alternative-free) spec, named `name`."""
    spec = spec.strip()
    if spec == "float":
        spec = "real"
    if spec in (INT, REAL, BOOL, STR, ANY, NONE):
        return named(spec, name)
    if spec.startswith("("):
        return vtuple([make(s, f"{name}.{i}", st, engine) for i, s in enumerate(split_tuple(spec))])
    if spec.startswith("list["):
        ek = spec[5:-1].strip()
        if ek == "float":
            ek = "real"
        return st.alloc(SList(z3.Const(name, z3.SeqSort(SORTS[ek])), ek))
    if spec.startswith("alist["):
        ek = spec[6:-1].strip()
        if ek == "float":
            ek = "real"
        return st.alloc(AList(z3.Const(name + ".arr", z3.ArraySort(z3.IntSort(), SORTS[ek])), z3.Int(name + ".len"), ek))
    if spec.startswith("fn"):
        # 'fn' or 'fn:contractname'
        cname = spec[3:] if spec.startswith("fn:") else name
        return V(FN, ("extfn", cname))
    if spec.startswith("ext:"):
        return st.alloc(Ext(spec[4:]))
    if spec.startswith("obj:"):
        cname = spec[4:]
        cd = engine.reg.classes[cname]
        fields = {f: make(alternatives(s)[0], f"{name}.{f}", st, engine) for f, s in cd.fields.items()}
        return st.alloc(Obj(cname, fields))
    if spec == "path":
        return V("path", z3.String(name))
    raise ToolLimit(f"type spec {spec!r}")


def kind_matches(v, spec, st):
    """Does the (static) kind of v fit one alternative of spec?"""
    for alt in alternatives(spec):
        if alt == "float":
            alt = "real"
        if alt == v.k:
            return True
        if alt == "any":
            return True
        if alt.startswith("(") and v.k == TUPLE:
            parts = split_tuple(alt)
            if len(parts) == len(v.t) and all(kind_matches(x, p, st) for x, p in zip(v.t, parts)):
                return True
        if alt.startswith("fn") and v.k == FN:
            return True
        if alt.startswith("list[") and v.k == REF and isinstance(st.heap[v.t], (SList, CList, AList)):
            return True
        if alt.startswith("alist[") and v.k == REF and isinstance(st.heap[v.t], AList):
            return True
        if alt.startswith("obj:") and v.k == REF and isinstance(st.heap[v.t], Obj) and st.heap[v.t].cls == alt[4:]:
            return True
        if alt.startswith("ext:") and v.k == REF and isinstance(st.heap[v.t], Ext):
            return True
        if alt == "path" and v.k == "path":
            return True
    return False


def spec_of(v, st):
    if v.k == TUPLE:
        return "(" + ",".join(spec_of(x, st) for x in v.t) + ")"
    return v.k
