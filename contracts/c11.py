"""C11 - transpiling never runs user code, has no side effects, fails only cleanly.

  E1 effects  (static, per function): every call site of transpile/{parser,emitter,ast}.py resolves to a function of
              the module, an IR node class, ast.parse/literal_eval/unparse/walk/..., re.*, operator.*, or a builtin
              from a fixed pure list; imports are limited to ast, operator, re, typing, dataclasses and siblings;
              the dispatch tables that are called through (_SAFE_CASTS, operator tables) hold only pure builtins.
  E2 types    (finite back end): every arm of the constant evaluator returns int|float|str|bool or a list/tuple of
              those when its children do - so no user-defined __add__/__int__ can ever run.
  E3 guards   (static, per site): every `_eval_const` call is inside `try/except Exception`, and so is every numeric
              conversion of its result.
  E4 size / termination, E5 exception classes and side effects for hostile inputs: bounded audit-hook replay.
"""
import ast
import json
import os
import subprocess
import sys
import time

from pyvc.contracts import Registry
from contracts.c10 import Mod, functions_of, parent_map, unparse

FILES = ["Reduino/transpile/parser.py", "Reduino/transpile/emitter.py", "Reduino/transpile/ast.py"]

PROPERTY = {
    "level": "other",
    "expect_min_obligations": 110,
    "explanation": "The effect-freedom half of the property is decided statically per function (call-site whitelist, import "
                   "whitelist, pure dispatch tables, guarded evaluator call sites) and by exhaustive enumeration of the constant "
                   "evaluator's arms over type tags; 'terminates promptly' and 'raises only ValueError/SyntaxError for every text' "
                   "are NOT provable with contracts within reach (4400 lines of exception-freedom, regex backtracking, big-int "
                   "arithmetic) and are only covered by a bounded hostile-input replay under an audit hook, labelled bounded.",
    "trusted_base": ["CPython ast", "sys.addaudithook event coverage (exec, open, import, os.*, subprocess.*, socket.*)"],
    "assumptions": [
        "method calls on non-module objects (str/list/dict/set/IR dataclasses) have no external side effects",
        "ast.parse / ast.literal_eval never execute code (language guarantee)",
        "exception-freedom of the whole of parse() and wall-clock bounds are outside what is proved (bounded replay only)",
    ],
    "bounded": [],
}

ALLOWED_IMPORTS = {"__future__", "ast", "operator", "re", "typing", "dataclasses"}
PURE_BUILTINS = {
    "isinstance", "issubclass", "len", "int", "float", "str", "bool", "list", "tuple", "dict", "set", "frozenset", "sorted",
    "enumerate", "zip", "range", "min", "max", "abs", "any", "all", "sum", "repr", "type", "next", "iter", "reversed", "round",
    "ord", "chr", "hasattr", "callable", "map", "filter", "divmod", "format", "id_", "super", "object", "slice", "bytes",
    "ValueError", "SyntaxError", "TypeError", "KeyError", "IndexError", "RuntimeError", "NotImplementedError", "AssertionError",
    "Exception", "StopIteration", "field", "dataclass",
}
ALLOWED_MODULE_CALLS = {
    "ast": {"parse", "literal_eval", "unparse", "walk", "iter_child_nodes", "dump", "get_source_segment", "fix_missing_locations",
            "copy_location", "iter_fields", "Name", "Constant", "Load", "Call", "Expression", "BinOp", "Attribute"},
    "re": {"compile", "match", "fullmatch", "search", "sub", "split", "findall", "finditer", "escape"},
    "op": None, "operator": None, "typing": None,
}
FORBIDDEN_METHODS = {"system", "popen", "Popen", "run", "call", "check_output", "read_text", "write_text", "write_bytes", "unlink",
                     "mkdir", "rmdir", "rename", "connect", "send", "recv", "load", "loads", "dump", "dumps", "exec_module",
                     "import_module", "getenv", "putenv", "chdir", "exit", "_exit", "kill", "urlopen", "eval", "exec"}


def build():
    return Registry()


def e1_obligations(mod, out):
    tree = mod.tree
    imported_modules, imported_names = {}, set()
    bad_imports = []
    for n in tree.body:
        if isinstance(n, ast.Import):
            for a in n.names:
                imported_modules[a.asname or a.name] = a.name
                if a.name.split(".")[0] not in ALLOWED_IMPORTS:
                    bad_imports.append({"line": n.lineno, "import": a.name})
        elif isinstance(n, ast.ImportFrom):
            base = (n.module or "").split(".")[0]
            if n.level == 0 and base not in ALLOWED_IMPORTS:
                bad_imports.append({"line": n.lineno, "import": n.module})
            for a in n.names:
                imported_names.add(a.asname or a.name)
    for n in ast.walk(tree):
        if isinstance(n, (ast.Import, ast.ImportFrom)) and n not in tree.body and not (isinstance(n, ast.ImportFrom) and n.level > 0):
            bad_imports.append({"line": n.lineno, "import": "import inside a function: " + unparse(n)})
    out.append({"name": f"C11/E1-imports/{mod.rel.split('/')[-1]}", "status": "discharged" if not bad_imports else "sat",
                "backend": "static", "where": f"imports are limited to {sorted(ALLOWED_IMPORTS)} and package siblings", "time": 0.0,
                "replay": {"imports": bad_imports}, "structural": True})
    module_defs = {n.name for n in tree.body if isinstance(n, (ast.FunctionDef, ast.ClassDef))}
    module_names = {t.id for n in tree.body if isinstance(n, (ast.Assign, ast.AnnAssign))
                    for t in (n.targets if isinstance(n, ast.Assign) else [n.target]) if isinstance(t, ast.Name)}
    fns = functions_of(tree)
    # module-level code is checked as one pseudo-function
    units = [("<module>", tree)] + fns
    for qual, fn in units:
        problems = []
        nested = {q.split(".")[-1] for q, f in fns if q.startswith(qual + ".")} if qual != "<module>" else set()
        enclosing = set()
        for q2, f2 in fns:
            if qual.startswith(q2 + "."):
                enclosing |= {q.split(".")[-1] for q, f in fns if q.startswith(q2 + ".")}
        own_nested_nodes = set()
        if qual != "<module>":
            for q2, f2 in functions_of(fn):
                own_nested_nodes |= {id(x) for x in ast.walk(f2)}
        else:
            for q2, f2 in fns:
                own_nested_nodes |= {id(x) for x in ast.walk(f2)}
        local_callables = set()
        if qual != "<module>":
            for n in ast.walk(fn):
                if isinstance(n, ast.Name) and isinstance(n.ctx, ast.Store):
                    local_callables.add(n.id)
            local_callables |= {a.arg for a in fn.args.args + fn.args.kwonlyargs}
        for n in ast.walk(fn):
            if id(n) in own_nested_nodes or not isinstance(n, ast.Call):
                continue
            f = n.func
            if isinstance(f, ast.Name):
                nm = f.id
                if nm in module_defs or nm in imported_names or nm in nested or nm in enclosing or nm in PURE_BUILTINS:
                    continue
                if nm in ("getattr", "hasattr") and len(n.args) >= 2 and isinstance(n.args[1], ast.Constant) and isinstance(n.args[1].value, str):
                    continue   # attribute name is a literal: plain attribute access on an IR node
                if nm in local_callables and nm not in ("eval", "exec", "compile", "__import__", "open"):
                    # a local holding a callable (from a pure dispatch table checked by E1-tables, or a nested function)
                    continue
                problems.append({"line": n.lineno, "call": nm + "(...)", "why": "not a module function, IR class or pure builtin"})
            elif isinstance(f, ast.Attribute):
                base = f.value
                if isinstance(base, ast.Name) and base.id in imported_modules:
                    allowed = ALLOWED_MODULE_CALLS.get(base.id, set())
                    if allowed is not None and f.attr not in allowed:
                        problems.append({"line": n.lineno, "call": unparse(f), "why": "module function outside the whitelist"})
                    continue
                if f.attr in FORBIDDEN_METHODS:
                    problems.append({"line": n.lineno, "call": unparse(f)[:60], "why": "method name associated with external effects"})
            elif isinstance(f, ast.Subscript):
                tbl = unparse(f.value)
                if tbl not in ("_SAFE_CASTS", "ops"):
                    problems.append({"line": n.lineno, "call": unparse(f)[:60], "why": "call through an unknown table"})
            elif isinstance(f, ast.Call) or isinstance(f, ast.Lambda):
                problems.append({"line": n.lineno, "call": unparse(f)[:60], "why": "call of a computed callable"})
        shadowed = local_callables | module_names
        for q2, f2 in fns:
            if qual.startswith(q2 + "."):
                shadowed |= {x.id for x in ast.walk(f2) if isinstance(x, ast.Name) and isinstance(x.ctx, ast.Store)}
                shadowed |= {a.arg for a in f2.args.args + f2.args.kwonlyargs}
        for n in ast.walk(fn):
            if id(n) in own_nested_nodes:
                continue
            if isinstance(n, ast.Name) and n.id not in shadowed and n.id in ("eval", "exec", "compile", "__import__", "open", "setattr", "delattr",
                                                     "globals", "locals", "vars", "input", "breakpoint", "__builtins__"):
                problems.append({"line": n.lineno, "call": n.id, "why": "reference to a builtin that can run code or touch the host"})
        out.append({"name": f"C11/E1-effects/{mod.rel.split('/')[-1]}:{qual}", "status": "discharged" if not problems else "sat",
                    "backend": "static", "where": "every call site is a module function, IR class, ast/re/operator function or pure builtin",
                    "time": 0.0, "replay": {"problems": problems[:6]}, "structural": True})
    # dispatch tables hold pure builtins only
    for n in tree.body:
        if isinstance(n, ast.Assign) and isinstance(n.targets[0], ast.Name) and n.targets[0].id == "_SAFE_CASTS":
            vals = [unparse(v) for v in n.value.values] if isinstance(n.value, ast.Dict) else ["?"]
            ok = set(vals) <= {"int", "float", "str", "bool"}
            out.append({"name": "C11/E1-tables/_SAFE_CASTS", "status": "discharged" if ok else "sat", "backend": "static",
                        "where": "_SAFE_CASTS maps to int/float/str/bool only", "time": 0.0, "replay": {"values": vals}, "structural": True})
    for n in ast.walk(tree):
        if isinstance(n, ast.Assign) and isinstance(n.targets[0], ast.Name) and n.targets[0].id == "ops" and isinstance(n.value, ast.Dict):
            vals = [unparse(v) for v in n.value.values]
            ok = all(v.startswith("op.") for v in vals)
            out.append({"name": f"C11/E1-tables/ops@{'apply_bin' if len(vals) > 6 else 'compare'}", "status": "discharged" if ok else "sat",
                        "backend": "static", "where": "operator dispatch table maps to operator.* only", "time": 0.0,
                        "replay": {"values": vals}, "structural": True})


def finite_lemma(out):
    """_eval_const never returns a non-finite float (nor a list/tuple containing one): decided on every way of
    producing one - literal, arithmetic overflow, casts of 'inf'/'nan' strings, nesting in lists/tuples/conditionals."""
    from contracts.c08 import real
    P = real("Reduino.transpile.parser")
    forms = ["1e999", "-1e999", "1e308 * 10", "1e308 + 1e308", "-1e308 - 1e308", "1e308 / 1e-308", "float('inf')", "float('-inf')",
             "float('nan')", "float('infinity')", "[1e999]", "(1, 1e999)", "[[1e999]]", "1e999 if True else 0", "max(1e999, 1)",
             "min(-1e999, 1)", "abs(-1e999)", "0 or 1e999", "1 and 1e999", "+1e999", "1e999 - 1e999", "1e999 * 0", "2.0 ** 5000",
             "float(str(1e999))", "float(f'{1e999}')"]
    bad = []
    for f in forms:
        try:
            v = P._eval_const(f, {})
        except Exception:
            continue

        def nonfinite(x):
            if isinstance(x, float):
                return x != x or x in (float("inf"), float("-inf"))
            if isinstance(x, (list, tuple)):
                return any(nonfinite(y) for y in x)
            return False
        if nonfinite(v):
            bad.append({"expr": f, "value": repr(v)})
    out.append({"name": "C11/E3-lemma/_eval_const-result-finite", "status": "discharged" if not bad else "sat", "backend": "enum",
                "where": f"_eval_const returns no non-finite float for any of the {len(forms)} producing forms (literal, overflow, casts, nesting)",
                "time": 0.0, "replay": {"bad": bad[:5]}, "replay_confirmed": bool(bad)})
    return not bad


def e3_obligations(mod, out, finite_ok=False):
    """every _eval_const call sits under try/except Exception; a numeric conversion of its result outside the guard is
    admissible only under the lemma that the result is finite (int()/float() of a finite int/float cannot raise)."""
    if not mod.rel.endswith("parser.py"):
        return
    for qual, fn in functions_of(mod.tree):
        pm = parent_map(fn)
        own = set()
        for q2, f2 in functions_of(fn):
            own |= {id(x) for x in ast.walk(f2)}
        k = 0
        for n in ast.walk(fn):
            if id(n) in own or not (isinstance(n, ast.Call) and unparse(n.func) == "_eval_const"):
                continue
            k += 1
            cur, guard = n, None
            while id(cur) in pm:
                par = pm[id(cur)]
                if isinstance(par, ast.Try) and any(cur is s or any(cur is d for d in ast.walk(s)) for s in par.body):
                    if any(h.type is None or unparse(h.type) in ("Exception", "BaseException") for h in par.handlers):
                        guard = par
                        break
                cur = par
            problems = []
            if guard is None:
                problems.append({"line": n.lineno, "what": "_eval_const call not under try/except Exception"})
            else:
                # names bound from the call in the try body, converted in the else: clause (outside the guard)
                bound = set()
                for s in guard.body:
                    for a in ast.walk(s):
                        if isinstance(a, ast.Assign) and any(d is n for d in ast.walk(a.value)):
                            bound |= {t.id for t in a.targets if isinstance(t, ast.Name)}
                for s in guard.orelse:
                    for c in ast.walk(s):
                        if isinstance(c, ast.Call) and unparse(c.func) in ("int", "float", "round") and c.args and \
                                isinstance(c.args[0], ast.Name) and c.args[0].id in bound:
                            inner_guard = False
                            cc = c
                            while id(cc) in pm and pm[id(cc)] is not guard:
                                cc2 = pm[id(cc)]
                                if isinstance(cc2, ast.Try) and any(cc is s2 or any(cc is d for d in ast.walk(s2)) for s2 in cc2.body):
                                    inner_guard = True
                                    break
                                cc = cc2
                            if not inner_guard and not finite_ok:
                                problems.append({"line": c.lineno, "what": f"{unparse(c)} outside the guard: OverflowError/ValueError for inf/nan constants"})
            out.append({"name": f"C11/E3-guard/parser.py:{qual}#{k}", "status": "discharged" if not problems else "sat",
                        "backend": "static", "where": "_eval_const and the numeric conversion of its result are under try/except Exception",
                        "time": 0.0, "replay": {"problems": problems}, "structural": True})


def e2_obligations(out):
    """constant evaluator: result types stay within int|float|str|bool|list|tuple (finite back end over type tags)."""
    from contracts.c08 import real
    P = real("Reduino.transpile.parser")
    t0 = time.time()
    samples = {"int": ["0", "7", "-3"], "float": ["0.5", "2.0"], "str": ["'ab'", "''"], "bool": ["True", "False"],
               "list": ["[1, 2]", "[]"], "tuple": ["(1, 'a')", "()"]}
    allowed = (int, float, str, bool, list, tuple)

    def ok_value(v):
        if isinstance(v, (list, tuple)):
            return all(ok_value(x) for x in v)
        return isinstance(v, (int, float, str, bool))
    binops = ["+", "-", "*", "/", "//", "%", "**", "&", "|", "^", "<<", ">>"]
    forms = []
    for ta, va in samples.items():
        for a in va:
            forms += [f"-{a}", f"+{a}", f"not {a}", f"len({a})", f"abs({a})", f"int({a})", f"float({a})", f"str({a})", f"bool({a})",
                      f"f'x{{{a}}}y'", f"[{a}, {a}]", f"({a}, 1)", f"max({a}, {a})", f"min({a})", f"{a} if {a} else 1"]
            for tb, vb in samples.items():
                for b in vb:
                    forms += [f"{a} {o} {b}" for o in binops if not (o in ("**", "<<") and tb == "int" and b.lstrip('-').isdigit() and int(b) > 8)]
                    forms += [f"{a} and {b}", f"{a} or {b}", f"{a} == {b}", f"{a} < {b}", f"{a} <= {b} < 3"]
    bad, n, raised = [], 0, 0
    for src in forms:
        n += 1
        try:
            v = P._eval_const(src, {})
        except Exception:
            raised += 1
            continue
        if not ok_value(v):
            bad.append({"expr": src, "type": type(v).__name__})
    out.append({"name": "C11/E2-types/_eval_const", "status": "discharged" if not bad else "sat", "backend": "enum",
                "where": f"every evaluator arm over operand type tags int/float/str/bool/list/tuple returns a plain value or raises "
                         f"({n} forms, {raised} raise)", "time": round(time.time() - t0, 3), "replay": {"bad": bad[:5]},
                "replay_confirmed": bool(bad)})
    _S["e2"] = {"forms": n, "raised": raised}


# ------------------------------------------------------------------ bounded hostile replay under an audit hook
HOSTILE = r'''
import sys, json, time
sys.path.insert(0, sys.argv[1])
import Reduino.transpile.parser as P, Reduino.transpile.emitter as E
import Reduino
events = []
armed = [False]
def hook(ev, args):
    if not armed[0]:
        return
    if ev in ("exec", "open", "import", "os.system", "subprocess.Popen", "os.exec", "os.spawn", "os.posix_spawn", "os.fork") or ev.startswith("socket."):
        if ev == "open" and args and isinstance(args[0], str) and (args[0].endswith((".pyc", ".py")) or args[0].startswith("<")):
            return   # '<unknown>': CPython's own source-line lookup for SyntaxError of ast.parse, not a file
        events.append([ev, repr(args)[:120]])
sys.addaudithook(hook)
cases = json.loads(sys.argv[2])
out = []
import builtins
builtins.CANARY = []
# an importable user package next to the script: importing it (or merely resolving a dotted name through it) runs its __init__ on the host
import tempfile, os as _os
_pkgroot = tempfile.mkdtemp(prefix="c11-canary-")
_os.makedirs(_os.path.join(_pkgroot, "c11_canary_pkg"))
open(_os.path.join(_pkgroot, "c11_canary_pkg", "__init__.py"), "w").write("import builtins\nbuiltins.CANARY.append('package __init__ executed')\n")
open(_os.path.join(_pkgroot, "c11_canary_pkg", "patterns.py"), "w").write("import builtins\nbuiltins.CANARY.append('module executed')\nx = [1, 0, 1]\n")
sys.path.insert(0, _pkgroot)
import os, warnings, decimal, locale, signal, gc
def snapshot():
    return {"recursionlimit": sys.getrecursionlimit(), "cwd": os.getcwd(), "environ": dict(os.environ), "sys.path": list(sys.path),
            "warnings.filters": len(warnings.filters), "decimal.prec": decimal.getcontext().prec, "locale": locale.setlocale(locale.LC_ALL),
            "sigint": repr(signal.getsignal(signal.SIGINT)), "stdout": sys.stdout is sys.__stdout__, "stderr": sys.stderr is sys.__stderr__,
            "gc": gc.isenabled(), "switchinterval": sys.getswitchinterval(), "excepthook": sys.excepthook is sys.__excepthook__,
            "builtins": sorted(k for k in vars(builtins) if not k.startswith("__"))}
# the host's warning machinery is a side channel too (stderr, a module's __warningregistry__, an exception that is not ValueError under -W error);
# CPython's own SyntaxWarning for the script text (file '<unknown>', raised by ast.parse) is the text's, not the transpiler's
_warned = []
def _showwarning(message, category, filename, lineno, file=None, line=None):
    if filename != "<unknown>":
        _warned.append("%s: %s" % (category.__name__, str(message)[:80]))
warnings.showwarning = _showwarning
warnings.simplefilter("always")
for name, src in cases:
    events.clear(); builtins.CANARY.clear(); _warned.clear()
    before = snapshot()
    armed[0] = True
    t0 = time.time()
    try:
        cpp = E.emit(P.parse(src))
        res = "ok"
        if len(cpp) > 400 * len(src) + 200000:
            res = "CRASH:output of %d characters for a source of %d characters (the emitted text grows faster than the source)" % (len(cpp), len(src))
    except (ValueError, SyntaxError) as ex:
        res = "clean:" + type(ex).__name__
    except BaseException as ex:
        res = "CRASH:" + type(ex).__name__ + ": " + str(ex)[:80]
    armed[0] = False
    after = snapshot()
    changed = sorted(k for k in before if before[k] != after[k])
    if _warned and not res.startswith("CRASH"):
        res = "CRASH:the transpiler reported through the host's warning machinery (stderr output, module state; not a ValueError under -W error): " + _warned[0]
    if changed and not res.startswith("CRASH"):
        res = "CRASH:interpreter state changed by parse(): " + ", ".join(f"{k}: {str(before[k])[:40]} -> {str(after[k])[:40]}" for k in changed[:3])
        sys.setrecursionlimit(before["recursionlimit"])
    out.append({"case": name, "result": res, "events": list(events), "canary": list(builtins.CANARY), "ms": int((time.time() - t0) * 1000)})
import shutil
shutil.rmtree(_pkgroot, ignore_errors=True)
print(json.dumps(out))
'''

HOSTILE_EXPRS = [
    "CANARY.append(1)", "__import__('os').getpid()", "().__class__.__base__.__subclasses__()", "(lambda: CANARY.append(2))()",
    "open('/nonexistent-c11')", "[CANARY.append(3) for _ in range(1)]", "exec('CANARY.append(4)')", "eval('CANARY.append(5)')",
]


FAULT_EXPRS = ["10**400", "-10**400", "1e999", "1/0", "0**-1", "1 % 0", "7 // 0", "int(10.0**400)", "-'a'", "'a' + 1", "int('x')", "[1][5]", "float('x')", "'é'", "1 << -1", "abs('a')", "max()", "len(5)"]


def hostile_cases():
    from contracts.c08 import PRELUDE, DEVICES
    cases = []
    for h in HOSTILE_EXPRS:
        tag = h[:18]
        cases += [
            (f"led-pin:{tag}", f"from Reduino.Actuators import Led\nled = Led({h})\n"),
            (f"blink-arg:{tag}", f"from Reduino.Actuators import Led\nled = Led(13)\nled.blink({h}, times={h})\n"),
            (f"sleep:{tag}", f"from Reduino.Utils import sleep\nsleep({h})\n"),
            (f"cond:{tag}", f"x = 1\nif {h}:\n    x = 2\nwhile {h}:\n    x = 3\n"),
            (f"list-item:{tag}", f"vals = [1, {h}, 3]\nn = len(vals)\n"),
            (f"fstring:{tag}", f"from Reduino.Communication import SerialMonitor\nm = SerialMonitor(9600)\nm.write(f'v={{{h}}}')\n"),
            (f"decorator:{tag}", f"@({h})\ndef f(a=({h})):\n    return a\ny = f()\n"),
            (f"ultra-model:{tag}", f"from Reduino.Sensors import Ultrasonic\nu = Ultrasonic(2, 3, sensor={h})\n"),
            (f"flash:{tag}", f"from Reduino.Actuators import Led\nled = Led(13)\nled.flash_pattern({h})\n"),
            (f"glyph:{tag}", f"from Reduino.Displays import LCD\nl = LCD(i2c_addr=39)\nl.glyph(0, {h})\n"),
            (f"range:{tag}", f"for i in range({h}):\n    pass\n"),
            (f"assign:{tag}", f"x = {h}\ny, z = {h}, 2\n"),
            (f"servo-kw:{tag}", f"from Reduino.Actuators import Servo\ns = Servo(9, min_angle={h})\ns.write({h})\n"),
            (f"lcd-text:{tag}", f"from Reduino.Displays import LCD\nl = LCD(i2c_addr=39)\nl.write(0, 0, {h}, align='left')\n"),
        ]
    # expressions whose transpile-time folding faults (not hostile code): the fault must surface as ValueError/SyntaxError or be left to run time
    for f in FAULT_EXPRS:
        tag = f[:14]
        cases += [
            (f"append:{tag}", f"xs = [1, 2]\nxs.append({f})\n"), (f"remove:{tag}", f"xs = [1, 2]\nxs.remove({f})\n"),
            (f"fault-assign:{tag}", f"v = {f}\n"), (f"fault-sleep:{tag}", f"from Reduino.Utils import sleep\nsleep({f})\n"),
            (f"fault-cond:{tag}", f"x = 1\nif {f}:\n    x = 2\n"), (f"fault-range:{tag}", f"for i in range({f}):\n    pass\n"),
            (f"fault-blink:{tag}", f"from Reduino.Actuators import Led\nled = Led(13)\nled.blink({f})\n"),
            (f"fault-list:{tag}", f"ys = [1, {f}]\n"), (f"fault-fstring:{tag}", f"from Reduino.Communication import SerialMonitor\nm = SerialMonitor(9600)\nm.write(f'v={{{f}}}')\n"),
            (f"fault-servo:{tag}", f"from Reduino.Actuators import Servo\ns = Servo(9, min_angle={f})\ns.write({f})\ns.write_us({f})\n"),
            (f"fault-buzzer:{tag}", f"from Reduino.Actuators import Buzzer\nb = Buzzer(8, default_frequency={f})\nb.play_tone({f})\nb.beep({f}, on_ms={f}, times={f})\nb.sweep({f}, {f}, duration_ms={f}, steps={f})\nb.melody('success', tempo={f})\n"),
            (f"fault-pattern:{tag}", f"from Reduino.Actuators import Led\nled = Led(13)\nled.flash_pattern([1, {f}], {f})\nled.fade_in({f}, {f})\nled.set_brightness({f})\n"),
            (f"fault-motor:{tag}", f"from Reduino.Actuators import DCMotor\nm = DCMotor(2, 3, 5)\nm.set_speed({f})\nm.ramp({f}, {f})\nm.run_for({f}, {f})\n"),
            (f"fault-rgb:{tag}", f"from Reduino.Actuators import RGBLed\nr = RGBLed(9, 10, 11)\nr.set_color({f}, 1, 2)\nr.fade(1, 2, 3, {f}, {f})\nr.blink(1, 2, 3, {f}, {f})\n"),
            (f"fault-lcd:{tag}", f"from Reduino.Displays import LCD\nl = LCD(i2c_addr=39, cols={f})\nl.write({f}, {f}, 'x')\nl.progress(0, {f}, {f}, width={f})\nl.brightness({f})\n"),
            (f"fault-call-arg:{tag}", f"def g(a):\n    return a\nw = g({f})\n"), (f"fault-in-function:{tag}", f"xs = [1]\ndef h():\n    xs.append({f})\nh()\n"),
        ]
    cases += [("mutual-recursion-float-entry", "def a(x):\n    if x < 1:\n        return 0\n    return b(x - 1)\ndef b(x):\n    return a(x / 2)\nr = a(2.5)\n"),
              ("mutual-recursion-int-then-float", "def a(x):\n    if x < 1:\n        return 0\n    return b(x - 1)\ndef b(x):\n    if x < 1:\n        return 1\n    return a(x - 1)\nr = a(4)\ns = a(2.5)\n"),
              ("self-recursion-two-argument-types", "def f(x):\n    if x < 1:\n        return 0\n    return f(x / 2) + f(int(x) - 1)\nr = f(5)\n"),
              ("three-cycle", "def p(x):\n    return q(x)\ndef q(x):\n    return r3(x * 1.5)\ndef r3(x):\n    if x > 100:\n        return x\n    return p(x + 1)\nv = p(1)\n"),
              ("import-from-user-package", "from c11_canary_pkg.patterns import x\nfrom Reduino.Actuators import Led\nled = Led(13)\nled.on()\n"),
              ("import-dotted-user-module", "import c11_canary_pkg.patterns\ny = 1\n"), ("import-user-package", "import c11_canary_pkg\ny = 1\n"),
              ("import-user-package-as", "from c11_canary_pkg import patterns as p\ny = 1\n"), ("import-inside-function", "def f():\n    import c11_canary_pkg.patterns\n    return 1\ny = f()\n"),
              ("import-stdlib-dotted", "import wsgiref.util\nimport xml.dom.minidom\ny = 1\n"), ("import-relative", "from . import c11_canary_pkg\ny = 1\n"),
              ("format-spec-expression-canary", "x = f\"{5:{CANARY.append(61)}}\"\n"), ("format-spec-expression-in-tuple", "a, b = f\"{1:{CANARY.append(62)}}\", 2\n"),
              ("format-spec-expression-subclasses", "y = f\"{5:{().__class__.__base__.__subclasses__()}}\"\n"), ("format-spec-expression-in-sleep", "from Reduino.Utils import sleep\nsleep(f\"{5:{CANARY.append(63)}}\")\n"),
              ("format-spec-expression-in-helper", "def f():\n    return f\"{7!r:{CANARY.append(64)}}\"\nz = f()\n"), ("conversion-and-spec-constant", "w = f\"{5!r:>4}\"\n"),
              ("ultrasonic-model-keyword", "from Reduino.Sensors import Ultrasonic\nu = Ultrasonic(2, 3, model='HC-SR04')\nd = u.measure_distance()\n"),
              ("ultrasonic-unknown-model", "from Reduino.Sensors import Ultrasonic\nu = Ultrasonic(2, 3, model='nope')\n"), ("ultrasonic-sensor-keyword", "from Reduino.Sensors import Ultrasonic\nu = Ultrasonic(2, 3, sensor='HC-SR04')\n"),
              ("lone-surrogate-in-string", "x = '\ud800'\n"), ("lone-surrogate-in-call", "from Reduino.Communication import SerialMonitor\nm = SerialMonitor(9600)\nm.write('a\udcffb')\n"),
              ("lone-surrogate-in-identifier-position", "y = 1\n\udc80 = 2\n"), ("lone-surrogate-in-device-argument", "from Reduino.Actuators import Led\nled = Led(13)\nled.blink(\ud800)\n"),
              ("lone-surrogate-in-comment", "x = 1  # \udc80 note\ny = x + 1\n"),
              ("bare-except", "x = 1\ntry:\n    x = 2\nexcept:\n    x = 3\n"), ("bare-except-in-main-loop", "x = 1\nwhile True:\n    try:\n        x = 2\n    except:\n        x = 3\n"),
              ("bare-except-in-helper", "def f():\n    try:\n        return 1\n    except:\n        return 2\ny = f()\n"), ("named-then-bare-except", "x = 1\ntry:\n    x = 2\nexcept ValueError:\n    x = 3\nexcept:\n    x = 4\n"),
              ("except-tuple", "x = 1\ntry:\n    x = 2\nexcept (ValueError, TypeError):\n    x = 3\n"), ("except-as", "x = 1\ntry:\n    x = 2\nexcept Exception as e:\n    x = 3\n"),
              ("try-finally", "x = 1\ntry:\n    x = 2\nfinally:\n    x = 3\n"), ("try-else", "x = 1\ntry:\n    x = 2\nexcept Exception:\n    x = 3\nelse:\n    x = 4\n"),
              ("nested-try", "x = 1\ntry:\n    try:\n        x = 2\n    except:\n        x = 3\nexcept a.b.C:\n    x = 4\n"),
              ("self-call-with-growing-list-type", "def f(a):\n    return f([a])\nx = f(1)\n"),
              ("self-call-with-growing-list-type-two-helpers", "def f(a):\n    return g([a])\ndef g(b):\n    return f([b])\nx = f(1)\n"),
              ("self-call-with-growing-list-type-in-branch", "def f(a, n):\n    if n > 0:\n        return f([a], n - 1)\n    return 0\nx = f(1, 3)\n"),
              ("break-at-top-level", "x = 1\nbreak\n"), ("default-argument", "def f(a=1):\n    return a\ny = f()\n"), ("unknown-melody", "from Reduino.Actuators import Buzzer\nb = Buzzer(8)\nb.melody('nope')\n"),
              ("fstring-format-spec", "from Reduino.Communication import SerialMonitor\nm = SerialMonitor(9600)\nx = 1.5\nm.write(f'{x:.1f}')\n"),
              ("long-chained-condition", "x = 1\nif " + " and ".join(["x > 0"] * 300) + ":\n    x = 2\n")]
    cases += [("format-field-in-rejected-melody", "from Reduino.Actuators import Buzzer\nb = Buzzer(8)\nb.melody('{tune}')\n"),
              ("format-attr-in-rejected-style", "from Reduino.Displays import LCD\nl = LCD(i2c_addr=39)\nl.progress(0, 5, style='{options.__class__.__name__}')\n"),
              ("format-index-in-rejected-animation", "from Reduino.Displays import LCD\nl = LCD(i2c_addr=39)\nl.animate('{0[0]}{1}', 0, 'x')\n"),
              ("format-width-in-rejected-align", "from Reduino.Displays import LCD\nl = LCD(i2c_addr=39)\nl.write(0, 0, 'x', align='{:>99999}')\n"),
              ("percent-in-rejected-melody", "from Reduino.Actuators import Buzzer\nb = Buzzer(8)\nb.melody('%(x)s %s %d')\n")]
    # identifiers the transpiler itself uses for bookkeeping are ordinary identifiers for the user
    for ident in ("_helpers", "_ctx", "ctx", "vars", "helpers", "globals", "var_types", "functions", "self", "lines", "body", "src", "node", "env"):
        cases.append((f"bookkeeping-name:{ident}", f"{ident} = 3\ndata = [1, 2, 3]\ndata.append({ident})\nn = len(data)\nfor {ident} in range(2):\n    n = n + {ident}\ndef f({ident}):\n    return {ident} + 1\nq = f(2)\n"))
    cases += [("tuple-too-few-values", "a, b, c = 1, 2\n"), ("tuple-too-many-values", "a, b = 1, 2, 3\n"), ("tuple-from-scalar", "a, b = 5\n"),
              ("swap-length-mismatch", "a = 1\nb = 2\na, b = b, a, a\n")]
    cases += [("noise-1", "\x00\x01\x02 garbage ((("), ("noise-2", "def def def"), ("noise-3", "while True:\n\tx = = 1\n"),
              ("empty", ""), ("unicode", "s = 'üñí✓'\n"), ("inf-literal", "from Reduino.Actuators import Led\nled = Led(13)\nled.set_brightness(1e999)\n")]
    return cases


def hostile_replay(tier, out):
    t0 = time.time()
    src = os.path.join(os.environ.get("REDUINO_REPO", "/repo"), "src")
    cases = hostile_cases()
    # the workers' scratch directories live under a directory this process owns and removes (a worker killed on a time-out cannot clean up)
    import tempfile as _tf
    _scratch = _tf.TemporaryDirectory(prefix="c11-scratch-")
    _wenv = dict(os.environ, TMPDIR=_scratch.name)
    r = subprocess.run(["/venv/bin/python", "-c", HOSTILE, src, json.dumps(cases)], capture_output=True, text=True, timeout=600, env=_wenv)
    executed, crashed, slow = [], [], []
    res = []
    if r.returncode != 0:
        crashed.append({"harness": r.stderr[-400:]})
    else:
        res = json.loads(r.stdout)
        for c in res:
            if c["events"] or c["canary"]:
                executed.append(c)
            if c["result"].startswith("CRASH"):
                crashed.append(c)
            if c["ms"] > 5000:
                slow.append(c)
    PROPERTY["bounded"] = [{"check": "hostile replay under sys.addaudithook", "bound": f"{len(cases)} scripts ({len(HOSTILE_EXPRS)} hostile "
                            "expressions x 14 argument positions + noise)", "executed_or_effect": len(executed), "non_clean_exceptions": len(crashed)}]
    out.append({"name": "C11/bounded/no-host-execution", "status": "discharged" if not executed else "sat", "backend": "bounded-native",
                "where": "no exec/open/import/os/subprocess/socket audit event and no canary side effect while transpiling hostile scripts",
                "time": round(time.time() - t0, 2), "bounded": True, "replay": {"cases": executed[:3]}, "replay_confirmed": bool(executed)})
    known = []
    other = [c for c in crashed if c not in known]
    out.append({"name": "C11/bounded/clean-failure", "status": "discharged" if not other else "sat", "backend": "bounded-native",
                "where": "hostile and noise inputs end in firmware text, ValueError or SyntaxError", "time": 0.0, "bounded": True,
                "replay": {"cases": other[:3]}, "replay_confirmed": bool(other)})
    # termination: constant expressions that would blow up an unbounded evaluator, each under a 20 s budget
    big = [("big-pow", "from Reduino.Utils import sleep\nsleep(9**9**9)\n"), ("big-shift", "x = 1 << 10**9\n"),
           ("pow-chain", "y = (((2**64)**64)**64)**64\n"), ("pow-in-arg", "from Reduino.Actuators import Led\nled = Led(13)\nled.blink(7**7**7**7)\n"),
           ("deep-parens", "x = " + "(" * 80 + "1" + ")" * 80 + "\n"), ("long-sum", "x = " + " + ".join(["1"] * 400) + "\n")]
    # sign / operand-order grid of the size-sensitive operators (the size guard must not depend on the sign or position of an operand)
    for b in ("2", "3", "-2", "-3", "(-3)", "10**6", "(-10**6)", "7.5", "(-7.5)"):
        for e in ("10**9", "(10**7)"):
            big.append((f"pow {b}^{e}", f"x = ({b}) ** ({e})\n"))
            big.append((f"pow-arg {b}^{e}", f"from Reduino.Utils import sleep\nsleep(({b}) ** {e})\n"))
        big.append((f"shl {b}", f"x = {b} << 10**9\n") if "." not in b else (f"mul-float {b}", f"x = {b} * 10.0**300 * 10.0**300\n"))
    for a, b in (("'ab'", "10**10"), ("10**10", "'ab'"), ("[0]", "10**10"), ("10**10", "[0, 1]"), ("'ab' * 10**5", "10**6")):
        big.append((f"repeat {a}*{b}", f"x = {a} * {b}\n"))
    big.append(("factorial-like", "x = " + " * ".join(["10**300"] * 60) + "\n"))
    # growth that compounds from statement to statement / level to level (each step is small, the sequence is exponential)
    big.append(("repeated-squaring-40", "a = 2**2000\n" + "a = a*a\n" * 40))
    big.append(("repeated-squaring-in-loop-body", "a = 3**2500\nwhile True:\n" + "    a = a*a\n" * 40))
    big.append(("product-towers", "a = 3**2500\n" + "".join(f"{chr(98 + k)} = " + "*".join([chr(97 + k)] * 8) + "\n" for k in range(8))))
    big.append(("repeated-shift", "a = 1 << 4000\n" + "a = a << 4000\n" * 60 + "b = a * a\nc = b * b\nd = c * c\n"))
    big.append(("string-doubling", "s = 'ab'\n" + "s = s + s\n" * 40))
    big.append(("fstring-doubling", "s = 'ab'\n" + "s = f'{s}{s}'\n" * 40))
    for depth in (14, 40):
        e_const, e_var, e_call = "2", "k", "m(k)"
        for _ in range(depth):
            e_const, e_var, e_call = f"1 < ({e_const}) < 3", f"1 < ({e_var}) < 3", f"1 < ({e_call}) < 3"
        big.append((f"nested-chained-comparison-constants-{depth}", f"x = {e_const}\n"))
        big.append((f"nested-chained-comparison-variable-{depth}", f"k = 2\nwhile True:\n    x = {e_var}\n    k = k + 1\n"))
        big.append((f"nested-chained-comparison-call-{depth}", f"def m(v):\n    return v\nk = 2\nwhile True:\n    x = {e_call}\n    k = k + 1\n"))
    e_chain = "k"
    for _ in range(12):
        e_chain = f"0 <= {e_chain} + 1 <= 9"
    big.append(("chained-comparison-of-chained-comparisons-12", f"k = 2\nx = {e_chain}\n"))
    # conditional-expression ladders (one line, many arms of differing types): inference and emission stay linear in the number of arms
    for arms in (18, 40):
        ladder_f = " else ".join(f"{k} if d < {10 * (k + 1)}" for k in range(arms)) + " else 0.5"
        ladder_s = " else ".join(f"{k} if d < {10 * (k + 1)}" for k in range(arms // 2)) + " else " + " else ".join(f"'s{k}' if d < {900 + k}" for k in range(arms // 2)) + " else 'z'"
        big.append((f"conditional-ladder-float-tail-{arms}", f"d = 5\nlevel = {ladder_f}\ndef f(d):\n    return {ladder_f}\ny = f(3)\n"))
        big.append((f"conditional-ladder-string-tail-{arms}", f"d = 5\nlabel = {ladder_s}\n"))
        big.append((f"conditional-ladder-in-body-arm-{arms}", "d = 5\nv = " + "(" * arms + "1.5" + "".join(f" if d > {k} else {k})" for k in range(arms)) + "\n"))
    # header / call regexes must not backtrack exponentially: long identifiers followed by text that makes the header not match
    L = "averyveryverylongidentifiername" * 2
    for k, text in enumerate([
            f"try:\n    x = 1\nexcept {L}.{L}.{L}: pass\n", f"try:\n    x = 1\nexcept {L}, e:\n    pass\n", f"try:\n    x = 1\nexcept ({L}, {L}) as e junk\n    pass\n",
            f"x = 1\nif x > 0:\n    x = 2\nelif {L} {L} !!\n    x = 3\n", f"for {L} in range(3) junk:\n    pass\n", f"def {L}(a, b junk:\n    pass\n",
            f"while {L} {L} junk\n    pass\n", f"{L}.{L}.{L}({L}, {L}\n", f"from Reduino.Actuators import Led\nled = Led({'(' * 60}1{')' * 59}\n",
            f"from {L}.{L} import {L} as {L} junk\n", f"led = {L}({L}={L}, {L}={L} {L})\n", f"x = '{'a' * 3000}' + \"{'b' * 3000}\n",
            "x = " + "[" * 200 + "]" * 199 + "\n", f"import {'.'.join([L] * 12)} junk junk\n"]):
        big.append((f"regex-{k}", text))

    # a device method called on a name that is not (known to be) a device - undeclared, or an alias of a device: the dispatcher's
    # handlers must fall through or reject, never spin on the line
    try:
        import contracts.c08 as _c8
        seen_m = set()
        for cls, meth, sig, kind in _c8.host_callables():
            if kind == "ctor" or cls == "Core" or meth in seen_m:
                continue
            seen_m.add(meth)
            nreq = len([p_ for p_ in sig.parameters.values() if p_.default is p_.empty and p_.name != "self" and p_.kind in (p_.POSITIONAL_ONLY, p_.POSITIONAL_OR_KEYWORD)])
            args = ", ".join(["1"] * nreq)
            big.append((f"method-on-undeclared-name:{meth}", f"from Reduino.Utils import sleep\nghost.{meth}({args})\nx = 1\n"))
            big.append((f"method-on-undeclared-name-in-main-loop:{meth}", f"from Reduino.Utils import sleep\nwhile True:\n    ghost.{meth}({args})\n    sleep(5)\n"))
            decl = _c8.DEVICES.get(cls)
            if decl:
                big.append((f"method-on-alias:{cls}.{meth}", _c8.PRELUDE + decl + f"\nalias = dev\nalias.{meth}({args})\nx = 1\n"))
    except Exception as ex_:
        big.append(("method-on-undeclared-name:harness", f"raise RuntimeError({str(ex_)!r})\n"))

    def one_case(job):
        name, text = job
        try:
            rr = subprocess.run(["/venv/bin/python", "-c", HOSTILE, src, json.dumps([[name, text]])], capture_output=True, text=True, timeout=20, env=_wenv)
            one = json.loads(rr.stdout)[0] if rr.returncode == 0 else {"result": "CRASH:harness " + rr.stderr[-200:]}
            if one["result"].startswith("CRASH"):
                return {"case": name, "result": one["result"], "source": text[:120]}
        except subprocess.TimeoutExpired:
            return {"case": name, "result": "no result within 20 s", "source": text[:120]}
        return None
    from concurrent.futures import ThreadPoolExecutor
    with ThreadPoolExecutor(16) as ex:
        hung = [h for h in ex.map(one_case, big) if h]
    _scratch.cleanup()
    out.append({"name": "C11/bounded/terminates-promptly", "status": "discharged" if not hung else "sat", "backend": "bounded-native",
                "where": f"{len(big)} scripts (explosive constant expressions, pathological headers, every device method called on an undeclared name / an alias) are transpiled or rejected within 20 s each",
                "time": 0.0, "bounded": True, "replay": {"cases": hung}, "replay_confirmed": bool(hung)})
    if known:
        out.append({"name": "C11/bounded/clean-failure/overflow-error", "status": "sat", "backend": "bounded-native",
                    "where": "a non-finite numeric constant reaches int() outside the evaluator guard", "time": 0.0, "bounded": True,
                    "replay": {"cases": known[:3]}, "replay_confirmed": True})
    _S["hostile"] = {"cases": len(cases), "results": {c["case"]: c["result"] for c in res[:12]}}


TARGET_PROG = r'''
import sys, json, os, types, tempfile
sys.path.insert(0, sys.argv[1])
import Reduino
events = []
armed = [False]
def hook(ev, args):
    if armed[0] and ev in ("os.mkdir", "os.rename", "os.remove", "tempfile.mkdtemp", "tempfile.mkstemp", "subprocess.Popen", "os.system") :
        events.append([ev, repr(args)[:100]])
    if armed[0] and ev == "open" and isinstance(args[1], str) and any(c in args[1] for c in "wax+"):
        events.append([ev, repr(args)[:100]])
sys.addaudithook(hook)
scratch = tempfile.mkdtemp(prefix="c11-target-")
tempfile.tempdir = scratch
out = []
for name, src in json.loads(sys.argv[2]):
    path = os.path.join(scratch, name.replace("/", "_") + ".py")
    open(path, "w").write(src)
    fake = types.ModuleType("__main__"); fake.__file__ = path
    saved = sys.modules["__main__"]; sys.modules["__main__"] = fake
    before = sorted(os.listdir(scratch))
    events.clear(); armed[0] = True
    try:
        Reduino.target("COM3", upload=False)
        res = "ok"
    except (ValueError, SyntaxError) as ex:
        res = "clean:" + type(ex).__name__
    except BaseException as ex:
        res = "CRASH:" + type(ex).__name__ + ": " + str(ex)[:80]
    armed[0] = False
    sys.modules["__main__"] = saved
    after = sorted(os.listdir(scratch))
    out.append({"case": name, "result": res, "events": list(events), "new_entries": [e for e in after if e not in before]})
import shutil
shutil.rmtree(scratch, ignore_errors=True)
print(json.dumps(out))
'''


def target_on_rejected_scripts(out):
    """target() on a script the transpiler rejects has no effect on the file system (no project directory is left behind, nothing is written)"""
    import time as _t
    t0 = _t.time()
    src = os.path.join(os.environ.get("REDUINO_REPO", "/repo"), "src")
    REJ = [("default-argument", "def f(a=1):\n    return a\ny = f()\n"), ("break-at-top-level", "x = 1\nbreak\n"), ("return-at-top-level", "x = 1\nreturn x\n"),
           ("unknown-melody", "from Reduino.Actuators import Buzzer\nb = Buzzer(8)\nb.melody('nope')\n"),
           ("accepted-control", "from Reduino.Actuators import Led\nled = Led(13)\nled.on()\n")]
    bad = []
    try:
        rr = subprocess.run(["/venv/bin/python", "-c", TARGET_PROG, src, json.dumps(REJ)], capture_output=True, text=True, timeout=120)
        res = json.loads(rr.stdout) if rr.returncode == 0 else None
    except Exception as ex:
        res, rr = None, None
    if res is None:
        out.append({"name": "C11/bounded/target-on-rejected-script-has-no-effect", "status": "unknown", "backend": "bounded-native", "bounded": True,
                    "where": "harness failed: " + ((rr.stderr[-300:] if rr is not None else "no result")), "time": round(_t.time() - t0, 2)})
        return
    for r in res:
        if r["case"] == "accepted-control":
            if not r["result"] == "ok" or not r["new_entries"]:
                bad.append({"case": r["case"], "problem": f"the accepted control script did not produce a project ({r['result']}, {r['new_entries']}): the observation is vacuous"})
            continue
        if not r["result"].startswith("clean:"):
            bad.append({"case": r["case"], "problem": "expected a clean rejection, got " + r["result"]})
        elif r["events"] or [e for e in r["new_entries"] if not e.endswith(".py")]:
            bad.append({"case": r["case"], "problem": "a rejected script left traces on the file system", "events": r["events"][:4], "new_entries": r["new_entries"]})
    out.append({"name": "C11/bounded/target-on-rejected-script-has-no-effect", "status": "discharged" if not bad else "sat", "backend": "bounded-native", "bounded": True,
                "where": f"{len(REJ) - 1} rejected scripts through Reduino.target(port, upload=False): ValueError/SyntaxError and no directory, file or process is created (an accepted control script does create its project)",
                "time": round(_t.time() - t0, 2), "replay": {"cases": bad}, "replay_confirmed": bool(bad)})


def extra_obligations(mods_unused, tier, seed):
    out = []
    fin = finite_lemma(out)
    for rel in FILES:
        m = Mod(rel)
        e1_obligations(m, out)
        e3_obligations(m, out, fin)
    e2_obligations(out)
    hostile_replay(tier, out)
    target_on_rejected_scripts(out)
    # input-independent state: the same text transpiled repeatedly / after other texts in one process (bounded)
    from contracts import c10
    tmp = []
    saved = c10.PROPERTY.get("bounded")
    c10.replay_differ("state-only", seed, tmp)
    c10.PROPERTY["bounded"] = saved
    for o in tmp:
        o["name"] = "C11/bounded/no-state-leak"
        o["where"] = "byte-identical output for repeated and interleaved transpilations in one process (bounded corpus)"
        out.append(o)
    seen = {}
    for o in out:
        k = seen.get(o["name"], 0)
        seen[o["name"]] = k + 1
        if k:
            o["name"] += f"~{k + 1}"
    return out


_S = {}


def extra_evidence():
    return {"evaluator_forms": _S.get("e2"), "hostile": _S.get("hostile"), "bounded": PROPERTY.get("bounded", [])}
