"""Two-call laws of the Core pin memory, stated as client programs.  They are verified by pyvc
*modularly*: every call below is replaced by the callee's contract (never its body), so each law is
a lemma over the contracts proved for Reduino/Core/__init__.py.  Not part of /repo."""
from Reduino.Core import pin_mode, digital_write, analog_write, digital_read, analog_read


def law_digital_write_then_read(p, q, v):
    digital_write(p, v)
    return digital_read(q)


def law_analog_write_then_read(p, q, v):
    analog_write(p, v)
    return analog_read(q)


def law_other_pin_untouched_digital(p, q, v):
    before = digital_read(q)
    digital_write(p, v)
    analog_write(p, v)
    return (before, digital_read(q))


def law_other_pin_untouched_analog(p, q, v):
    before = analog_read(q)
    analog_write(p, v)
    digital_write(p, v)
    return (before, analog_read(q))


def law_pin_mode_is_not_a_write(p, q, m, v):
    digital_write(p, v)
    pin_mode(q, m)
    return digital_read(p)


def law_unwritten_pullup_reads_high(p, m1, m2):
    pin_mode(p, m1)
    pin_mode(p, m2)
    return digital_read(p)
