"""Ghost event traces shared by host-side and firmware-side contracts.

Event = Ev(kind, a, b) with kinds:
  1 level(pin=a, value=b)      analogWrite / digitalWrite (HIGH = 255, LOW = 0) / host brightness, colour channel
  2 delay(ms=a)                delay() / host sleep
  3 tone(pin=a, hz=b)   4 notone(pin=a)   5 servo_deg(obj=a, deg=b)   6 servo_us(obj=a, us=b)
  7 pinmode(pin=a, mode=b)     8 call(fn=a)   9 lcd_cursor(col=a,row=b)  10 lcd_print(len=a)  11 other
Writes of the level a pin already has are not events (a repeated identical level does not change the waveform):
the `cur` ghost map holds the current level per pin."""
import z3
from .sym import V, vbool, as_real_term, as_int_term
from . import typespec

Event = z3.Datatype("Event")
Event.declare("Ev", ("kind", z3.IntSort()), ("a", z3.RealSort()), ("b", z3.RealSort()))
Event = Event.create()
typespec.SORTS["event"] = Event


def install(eng):
    from .specfuncs import install_map_funcs, _cell
    from .state import Map
    from .pyval import key_of
    install_map_funcs(eng)

    def ev(e, st, kind, a, b):
        return V("event", Event.Ev(as_int_term(kind), as_real_term(a), as_real_term(b)))

    def stored(e, st, m, k, v):
        c = _cell(st, m)
        kk = k.t if k.k == "pykey" else key_of(k)
        val = as_int_term(v) if c.vk == "int" else v.t
        return V("cell", Map(z3.Store(c.arr, kk, val), z3.Store(c.dom, kk, z3.BoolVal(True)), c.vk))

    def level_trace(e, st, E, cur, pin, v):
        """trace after writing level v to pin: unchanged if the pin already has that level"""
        c = _cell(st, cur)
        kk = key_of(pin)
        same = z3.And(z3.Select(c.dom, kk), z3.Select(c.arr, kk) == as_int_term(v))
        return V("seq", z3.If(same, E.t, z3.Concat(E.t, z3.Unit(Event.Ev(z3.IntVal(1), as_real_term(pin), as_real_term(v))))), "event")

    eng.spec_funcs.update(ev=ev, stored=stored, level_trace=level_trace)
