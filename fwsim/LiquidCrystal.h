#pragma once
#include <Arduino.h>
class LiquidCrystal : public Print { public: int c = 0, r = 0, cols = 16, rows = 2; std::vector<std::string> cells;
  int id = next_id()++;   // displays are numbered in construction (= declaration) order; the first one prints "L:", the k-th "L<k>:"
  static int &next_id() { static int n = 0; return n; }
  LiquidCrystal(int, int, int, int, int, int) {} LiquidCrystal(int, int, int, int, int, int, int) {}
  void begin(int cc, int rr) { printf("LB:%d:%d\n", cc, rr); cols = cc; rows = rr; cells.assign(rr, std::string(cc, ' ')); }
  void clear() { for (auto &x : cells) x.assign(cols, ' '); c = r = 0; dump(); } void home() { c = r = 0; }
  void display() {} void noDisplay() {} void setCursor(int cc, int rr) { c = cc; r = rr; }
  void createChar(int slot, uint8_t *rows) { printf("G:%d:%d,%d,%d,%d,%d,%d,%d,%d\n", slot, rows[0], rows[1], rows[2], rows[3], rows[4], rows[5], rows[6], rows[7]); }
  void put(const std::string &s) { for (char ch : s) { if (r >= 0 && r < rows && c >= 0 && c < cols) cells[r][c] = ch; else printf("LCD-OUT-OF-RANGE:%d:%d:display%d\n", c, r, id); c++; } dump(); }
  void dump() { for (int i = 0; i < rows; ++i) { if (id == 0) printf("L:%d:%s\n", i, cells[i].c_str()); else printf("L%d:%d:%s\n", id, i, cells[i].c_str()); } }
  size_t print(const String &x) { put(x.s); return 1; } size_t print(const char *x) { put(x); return 1; } size_t print(char ch) { put(std::string(1, ch)); return 1; } };
