#!/bin/bash
# Runs every registered quick check on the current /repo tree (rewrites /verif/evidence/*.json).
cd /verif
python3 - <<'PY'
import json, subprocess, time
m = json.load(open('/verif/MANIFEST.json'))
for c in m['checks']:
    t = time.time()
    r = subprocess.run(c['quick_cmd'], shell=True, cwd='/verif', capture_output=True, text=True)
    last = [l for l in r.stdout.splitlines() if l.strip()][-1][:150] if r.stdout.strip() else r.stderr[-200:]
    print(f"{c['property_id']} exit={r.returncode} {time.time()-t:.1f}s  {last}", flush=True)
PY
