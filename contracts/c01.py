"""C01 - reject-or-preserve for the core language (necessary lemmas + bounded differential).

  L1  expression lemmas (deductive, all operand values): for every expression form of the grid the C++ text the REAL
      _to_c_expr produces, compiled by clang for AVR and translated mechanically (cxx2py), is proved to compute the value
      CPython's semantics give for the same source expression, for ALL int16 / real / bool operands on which Python is
      defined.  One pyvc unit per form: `ensures result == <the python source expression>`.
  L2  statement and whole-program behaviour (BOUNDED differential, not proof): a corpus of scripts covering every statement
      kind of the documented subset is run under CPython with the real host modules and as firmware (real parser+emitter,
      g++ against the recording Arduino mock) for N loop() passes; serial lines and delays must agree.
"""
import ast
import hashlib
import json
import os
import re
import time

from pyvc.contracts import Registry
from cxxvc import harvest as H
from cxxvc import cxx2py

GEN = "@gen/c01_expr.py"

PROPERTY = {
    "level": "other",
    "expect_min_obligations": 60,
    "explanation": "L1: per-expression equivalence lemmas are proved for all operand values on the C++ the real _to_c_expr emits (cxx2py "
                   "translation of clang's AVR AST, pyvc/z3). L2: statements, control flow, helper functions, lists and the setup/loop "
                   "state are compared by a bounded CPython-vs-firmware differential over a fixed corpus (labelled bounded, never counted "
                   "as proved). That EVERY script of the subset is preserved is a compiler-correctness theorem over all programs: no "
                   "contract within reach states it, so the property is decided only up to these necessary lemmas.",
    "trusted_base": ["pyvc", "cxx2py translation of clang's AVR AST", "mock Arduino.h (min/max/abs/round are the Arduino macros)", "z3/cvc5",
                     "fwsim (host g++ mock of the Arduino core: int is 32-bit there) for the bounded differential"],
    "assumptions": [
        "A-INT16: the integer values a script computes fit the device's 16-bit int (signed overflow is assumed away in L1, recorded here)",
        "A-REAL: device floats are treated as reals in L1; the differential compares numbers to two decimals (Serial prints floats so)",
        "presentation: True/False print as 1/0 on the device and floats with two decimals; lines are compared modulo that",
    ],
    "bounded": [],
}

VT = {"i": "int", "j": "int", "f": "float", "g": "float", "p": "bool", "q": "bool"}
KIND = {"int": "int", "float": "real", "bool": "bool", "String": "str"}
CPARAMS = "int i, int j, float f, float g, bool p, bool q"


def expr_forms():
    out = []
    num = ["i", "j", "f", "g"]
    for a, b in (("i", "j"), ("i", "f"), ("f", "i"), ("f", "g"), ("p", "i"), ("i", "p")):
        for op in ("+", "-", "*", "/", "//", "%"):
            out.append(f"{a} {op} {b}")
        for op in ("==", "!=", "<", "<=", ">", ">="):
            out.append(f"{a} {op} {b}")
        out += [f"max({a}, {b})", f"min({a}, {b})", f"{a} if p else {b}"]
    for a in ("i", "f", "p"):
        out += [f"-{a}", f"+{a}", f"not {a}", f"abs({a})", f"int({a})", f"float({a})", f"bool({a})"]
    out += ["p and q", "p or q", "i and j", "i or j", "f and i", "not p and q", "p and q or not p",
            "i < j < 10", "i < j <= f", "0 <= i < j", "i == j == 3",
            "i ** 2", "i ** j", "f ** 2",
            "i << 2", "i >> 1",
            "(i + j) * 2 - i", "i - (j - 1)", "i * j + i // 2", "-i // 2", "(i + j) / 2", "i % 10 + j % 10", "-(i % j)", "abs(i - j)",
            "max(i, j, 3)", "min(i, j, f)", "max(abs(i), abs(j))", "i if i > j else j", "(i if p else j) + 1", "max(i + 1, j) * 2",
            "int(f) + i", "int(f * 2)", "float(i) / 2", "int(i / j)", "i + p", "p + q", "not (i < j)", "not i",
            "i // 2 * 2 + i % 2", "(i < j) == (j > i)", "i - -j"]
    seen, res = set(), []
    for s in out:
        if s not in seen:
            seen.add(s)
            res.append(s)
    return res


def divisors(node):
    """sub-expressions that Python divides by: the lemma requires them to be non-zero (Python raises otherwise)"""
    out = []
    for n in ast.walk(node):
        if isinstance(n, ast.BinOp) and isinstance(n.op, (ast.Div, ast.FloorDiv, ast.Mod)):
            out.append(ast.unparse(n.right))
    return out


def pow_guards(node):
    out = []
    for n in ast.walk(node):
        if isinstance(n, ast.BinOp) and isinstance(n.op, ast.Pow):
            out.append(f"({ast.unparse(n.right)}) >= 0")
    return out


def shift_guards(node):
    out = []
    for n in ast.walk(node):
        if isinstance(n, ast.BinOp) and isinstance(n.op, (ast.LShift, ast.RShift)):
            out.append(f"({ast.unparse(n.right)}) >= 0")
    return out


_SLUG = [("//", "_fdiv_"), ("**", "_pow_"), ("<<", "_shl_"), (">>", "_shr_"), ("<=", "_le_"), (">=", "_ge_"), ("==", "_eq_"), ("!=", "_ne_"),
         ("/", "_div_"), ("%", "_mod_"), ("*", "_mul_"), ("+", "_add_"), ("-", "_neg_"), ("<", "_lt_"), (">", "_gt_"), ("(", "L"), (")", "R"),
         (",", "_"), (" ", "")]


def slug(src):
    """a stable, readable unit name for an expression form (does not depend on the position in the grid)"""
    t = re.sub(r"(?<=[\w)]) - ", " _sub_ ", src)
    for a, b in _SLUG:
        t = t.replace(a, b)
    return "x_" + re.sub(r"[^A-Za-z0-9_]", "_", t)


_B = {"forms": {}, "rejected": {}, "uncompilable": {}, "untranslatable": {}}


def _unit_for(P, k, src):
    """(status, payload): the C++ of one expression form through the real _to_c_expr, translated"""
    node = ast.parse(src, mode="eval").body
    try:
        ctx = {"var_types": dict(VT)}
        c = P._to_c_expr(src, {}, ctx)
        label = P._infer_expr_type(node, dict(VT))
        cty = P._cpp_type(label)
    except Exception as ex:
        return "rejected", f"{type(ex).__name__}: {ex}"
    name = slug(src)
    text = f"#include <Arduino.h>\n{cty} {name}({CPARAMS}) {{ return {c}; }}\n"
    key = "c01-" + hashlib.sha256((text + open(cxx2py.__file__).read() + open(os.path.join(os.path.dirname(cxx2py.__file__), "Arduino.h")).read()).encode()).hexdigest()[:24]
    hit = H._cache_get(key)
    if hit is None:
        try:
            tu, _ = cxx2py.run_clang(text)
        except cxx2py.Untranslatable as ex:
            hit = {"status": "uncompilable", "detail": str(ex)[-500:]}
        else:
            try:
                T = cxx2py.Translator(tu)
                hit = {"status": "ok", "py": T.function(name), "prims": sorted(T.used_prims)}
            except Exception as ex:
                hit = {"status": "untranslatable", "detail": f"{type(ex).__name__}: {ex}"}
        H._cache_put(key, hit)
    hit = dict(hit)
    hit.update({"c": c, "ctype": cty, "label": label, "name": name, "src": src})
    return hit["status"], hit


def int_divmods(P, node):
    """(left, right) source of every // or % whose operands are both inferred int/bool by the real _infer_expr_type"""
    out = []
    for n in ast.walk(node):
        if isinstance(n, ast.BinOp) and isinstance(n.op, (ast.FloorDiv, ast.Mod)):
            lt, rt = P._infer_expr_type(n.left, dict(VT)), P._infer_expr_type(n.right, dict(VT))
            if lt in ("int", "bool") and rt in ("int", "bool"):
                out.append((ast.unparse(n.left), ast.unparse(n.right)))
    return out


def build():
    from contracts.c08 import real
    P = real("Reduino.transpile.parser")
    reg = Registry()
    texts = []
    _B["forms"].clear(), _B["rejected"].clear(), _B["uncompilable"].clear(), _B["untranslatable"].clear()
    for k, src in enumerate(expr_forms()):
        status, u = _unit_for(P, k, src)
        if status == "rejected":
            _B["rejected"][src] = u
            continue
        if status == "uncompilable":
            _B["uncompilable"][src] = u
            continue
        if status == "untranslatable":
            _B["untranslatable"][src] = u
            continue
        texts.append(u["py"])
        _B["forms"][u["name"]] = u
        node = ast.parse(src, mode="eval").body
        req = ["-32768 <= i <= 32767", "-32768 <= j <= 32767"]
        req += [f"({d}) != 0" for d in divisors(node)] + pow_guards(node) + shift_guards(node)
        dm = int_divmods(P, node)
        common = dict(params={n: KIND[t] for n, t in VT.items()}, returns=KIND.get(u["label"], "int"), public=False,
                      ensures=[f"result == ({src})"], assume_in_range=True)
        note = f"`{src}` is emitted as `{u['c']}` ({u['ctype']}): it computes Python's value for all operands on which Python is defined"
        if dm:
            # C's / and % truncate toward zero, Python's floor: they agree on non-negative operands (main lemma);
            # the full domain is probed by a separate unit (a listed known finding of the pinned tree)
            nonneg = [f"({l}) >= 0" for l, _ in dm] + [f"({r}) > 0" for _, r in dm]
            reg.unit(u["name"], GEN, requires=req + nonneg, note=note + " (integer // and % operands non-negative)", **common)
            texts.append(re.sub(rf"\bdef {u['name']}\(", f"def {u['name']}__neg(", u["py"]))
            reg.unit(u["name"] + "__neg", GEN, requires=req, probe=True, note=note + " - probe: any sign", **common)
            u["probe"] = True
        else:
            reg.unit(u["name"], GEN, requires=req, note=note, **common)
    key = H.register_module("c01_expr.py", texts)
    assert key == GEN
    return reg


def extra_obligations(mods, tier, seed):
    out = []
    # a form the real parser turns into C++ that the compiler refuses is a violation of reject-or-preserve (it is neither)
    for src, u in sorted(_B["uncompilable"].items()):
        out.append({"name": f"C01/L1/compiles/{slug(src)}", "status": "sat", "backend": "clang", "where": f"`{src}` is accepted and emitted as `{u['c']}`, which is not C++",
                    "time": 0.0, "replay": {"expr": src, "c": u["c"], "clang": u["detail"][-300:]}, "replay_confirmed": True})
    for name, u in sorted(_B["forms"].items()):
        out.append({"name": f"C01/L1/compiles/{name}", "status": "discharged", "backend": "clang", "where": f"`{u['src']}` -> `{u['c']}` compiles for AVR", "time": 0.0})
    # ---- L2: bounded differential over the corpus
    from progs.diff import run_corpus
    from progs.corpus import CORPUS
    passes = 6 if tier == "thorough" else 4
    t0 = time.time()
    res = run_corpus(CORPUS, passes=passes)
    per = round((time.time() - t0) / max(1, len(res)), 3)
    counts = {}
    for r in res:
        v = r["verdict"]
        counts[v] = counts.get(v, 0) + 1
        ok = v in ("same", "rejected", "python-undefined")
        status = "discharged" if ok else ("unknown" if v.startswith("harness") else "sat")
        out.append({"name": f"C01/L2/{r['name']}", "status": status, "backend": "bounded-differential", "bounded": True,
                    "where": f"script '{r['name']}': firmware trace (serial lines, delays) over setup() + {passes} loop() passes equals CPython's, or the script is rejected"
                             f" [{v}]",
                    "time": per, "replay": {"script": CORPUS[r["name"]], **{k: r.get(k) for k in ("verdict", "first_difference", "detail", "cpython", "firmware", "cpp") if r.get(k)}},
                    "replay_confirmed": status == "sat"})
    # generated programs of the healthy region of the subset (seeded, deterministic): one aggregate obligation
    from progs.gen import programs
    # the generator seeds are fixed (not VERIF_SEED): the check must give the same verdict on the same tree on every run, and every
    # generated program of these seeds has been run against the pinned tree
    t0 = time.time()
    if tier == "thorough":
        gen = {}
        for gs in (0, 1, 2):
            gen.update(programs(150, seed=gs))
    else:
        gen = programs(48, seed=0)
    n_gen = len(gen)
    gres = run_corpus(gen, passes=3)
    gbad = [r for r in gres if r["verdict"] not in ("same", "rejected", "python-undefined")]
    gharness = [r for r in gbad if r["verdict"].startswith("harness")]
    gcounts = {}
    for r in gres:
        gcounts[r["verdict"]] = gcounts.get(r["verdict"], 0) + 1
    status = "discharged" if not gbad else ("unknown" if len(gharness) == len(gbad) else "sat")
    out.append({"name": "C01/L2/generated-programs", "status": status, "backend": "bounded-differential", "bounded": True,
                "where": f"{n_gen} generated scripts (fixed generator seeds; typed variables, arithmetic, conditionals, counted loops with break/continue, helpers, tuple and "
                         f"augmented assignments, f-strings, fixed lists): firmware trace equals CPython's over setup() + 3 passes {gcounts}",
                "time": round(time.time() - t0, 2),
                "replay": {"failing": [{"name": r["name"], "verdict": r["verdict"], "first_difference": r.get("first_difference"), "detail": (r.get("detail") or "")[:300],
                                        "script": gen[r["name"]]} for r in gbad[:3]]},
                "replay_confirmed": status == "sat"})
    counts["generated"] = gcounts
    _B["l2"] = counts
    PROPERTY["bounded"] = [{"check": "L2 CPython-vs-firmware differential", "bound": f"{len(CORPUS)} corpus scripts x setup() + {passes} loop() passes + {n_gen} generated scripts x 3 passes; "
                            "observables: serial lines and delays; host int is 32-bit in fwsim"}]
    return out


def replay_model(o):
    """replay an L1 counterexample on the real code: the expression in a helper function called with the model's operand
    values, under CPython and as firmware on the fwsim mock"""
    unit = o["name"].split("/")[1].split("[")[0]
    unit = unit[:-5] if unit.endswith("__neg") else unit
    if unit not in _B["forms"]:
        return None
    u = _B["forms"][unit]
    model = o.get("model") or {}

    def lit(name):
        v = model.get(name)
        if isinstance(v, dict) and "real" in v:
            a, b = v["real"].split("/")
            return repr(int(a) / int(b))
        if isinstance(v, bool):
            return repr(v)
        return repr(v if v is not None else 1)
    from progs.diff import differential
    from progs.corpus import HEAD
    args = ", ".join(lit(n) for n in VT)
    src = (HEAD + f"def fn({', '.join(VT)}):\n    return {u['src']}\nr = fn({args})\nmon.write(r)\n")
    r = differential(src, passes=1)
    return {"failed": r["verdict"] in ("differs", "does-not-compile", "crash"), "script": src, "verdict": r["verdict"],
            "first_difference": r.get("first_difference"), "detail": (r.get("detail") or "")[:400]}


def extra_evidence():
    return {"expression_forms": len(expr_forms()), "under_contract": len(_B["forms"]), "rejected_by_parser": _B["rejected"],
            "untranslatable": {k: v["detail"] for k, v in _B["untranslatable"].items()}, "differential_verdicts": _B.get("l2"),
            "bounded": PROPERTY.get("bounded", [])}
