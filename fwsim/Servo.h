#pragma once
#include <Arduino.h>
class Servo { public: int pin = -1;
  uint8_t attach(int p) { pin = p; printf("SA:%d\n", p); return 1; }
  uint8_t attach(int p, int, int) { pin = p; printf("SA:%d\n", p); return 1; }
  void write(int v) { printf("SW:%d:%d\n", pin, v); }
  void writeMicroseconds(int v) { printf("SU:%d:%d\n", pin, v); } };
