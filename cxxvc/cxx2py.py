"""cxx2py: mechanical translation of emitted Arduino C++ into the Python subset that pyvc verifies.

The C++ text is whatever the REAL emitter produced on this run.  It is type-checked and parsed by
    clang++ --target=avr -std=gnu++17 -fsyntax-only -Xclang -ast-dump=json
against the mock headers in this directory (AVR ABI: int 16 bit, long 32 bit, float = double = 32 bit), and the
typed AST is translated statement by statement.  C semantics are made explicit as calls of primitives that the
verifier models (and that generate run-time-error obligations):

    ck_i8/ck_i16/ck_i32(v)     signed arithmetic result: OBLIGATION "no overflow", value unchanged
    wrap_u8/u16/u32(v)         unsigned arithmetic / conversion: value modulo 2^n
    c_div(a, b), c_mod(a, b)   integer division truncating toward zero, OBLIGATION b != 0
    f2i_<T>(x)                 float -> integer conversion: truncation, OBLIGATION "in range of T" (UB otherwise)
    i2f(v)                     integer -> float (exact; floats are reals, assumption A-REAL)

What the translation drops (stated in every evidence file): declarations of unused functions, `const`/`static`
qualifiers of globals (function-local statics become module-level state), the distinction float/double, integer
conversion rank details already made explicit by clang's implicit casts, and comments.  Anything it cannot
translate raises Untranslatable: the unit is then undecided, never green.
"""
from __future__ import annotations

import hashlib
import json
import re
import os
import subprocess

HERE = os.path.dirname(os.path.abspath(__file__))


class Untranslatable(Exception):
    pass


SIGNED = {"int": 16, "short": 16, "long": 32, "signed char": 8, "char": 8, "int8_t": 8, "int16_t": 16, "int32_t": 32,
          "long long": 64}
UNSIGNED = {"unsigned int": 16, "unsigned short": 16, "unsigned long": 32, "unsigned char": 8, "uint8_t": 8, "uint16_t": 16,
            "uint32_t": 32, "size_t": 16, "byte": 8, "unsigned long long": 64}
FLOATS = {"float", "double", "long double"}


def canon(qt):
    t = qt.replace("const ", "").replace("volatile ", "").replace(" const", "").strip()
    # a non-deduced parameter type `typename __redu_identity<T>::type` is T (clang prints the sugared name on instantiations)
    t = re.sub(r"(?:typename\s+)?__redu_identity<\s*(.+?)\s*>::type", r"\1", t)
    while t.endswith("&"):
        t = t[:-1].strip()
    return t


def type_of(node):
    t = node.get("type", {})
    return canon(t.get("desugaredQualType") or t.get("qualType") or "")


def kind_of_type(t):
    t = canon(t)
    if t == "bool":
        return "bool"
    if t == "char":
        return "str"       # a C char is carried as a one-character string (character arithmetic is not translated)
    if t in SIGNED or t in UNSIGNED:
        return "int"
    if t in FLOATS:
        return "real"
    if t == "String":
        return "str"
    if t.endswith("*") or t.endswith("]"):
        return "list"
    return "obj"


def int_wrapper(t):
    t = canon(t)
    if t in SIGNED:
        return f"ck_i{SIGNED[t]}"
    if t in UNSIGNED:
        return f"wrap_u{UNSIGNED[t]}"
    return None


def run_clang(cpp_text, extra_includes=()):
    key = hashlib.sha256(cpp_text.encode()).hexdigest()[:16]
    import tempfile
    with tempfile.TemporaryDirectory(prefix="cxx2py-") as d:
        p = os.path.join(d, "unit.cpp")
        open(p, "w").write(cpp_text)
        cmd = ["clang++", "--target=avr", "-std=gnu++17", "-fsyntax-only", "-Wno-everything", "-I", HERE]
        for inc in extra_includes:
            cmd += ["-I", inc]
        cmd += ["-Xclang", "-ast-dump=json", p]
        r = subprocess.run(cmd, capture_output=True, text=True, timeout=300)
        if r.returncode != 0:
            raise Untranslatable("clang rejects the emitted C++:\n" + r.stderr[-1500:])
        return json.loads(r.stdout), key


class Translator:
    def __init__(self, tu, unit_file="unit.cpp"):
        self.tu = tu
        self.globals = {}          # name -> (ctype, init python expr or None)
        self.functions = {}        # python name -> FunctionDecl node
        self.statics = {}
        self.used_prims = set()
        self.externs_called = set()
        self.out_funcs = {}
        self.tmp = 0
        self.ref_params = {}       # decl id of a `const T &` scalar parameter -> name (passed as block, index, value)
        self.local_names = {}      # decl id -> python name (locals re-declared in sibling scopes get a numeric suffix)
        self.collect()

    # ------------------------------------------------------------------ collection
    def in_main_file(self, n):
        loc = n.get("loc", {})
        f = loc.get("file") or loc.get("spellingLoc", {}).get("file") or loc.get("expansionLoc", {}).get("file")
        if f is not None:
            self._cur_file = f
        cur = getattr(self, "_cur_file", "")
        inc = loc.get("includedFrom") or loc.get("spellingLoc", {}).get("includedFrom")
        return cur.endswith("unit.cpp")

    def collect(self):
        for n in self.tu.get("inner", []):
            main = self.in_main_file(n)
            k = n.get("kind")
            if not main:
                continue
            if k == "VarDecl":
                self.globals[n["name"]] = (type_of(n), n)
            elif k == "FunctionDecl" and any(c.get("kind") == "CompoundStmt" for c in n.get("inner", [])):
                self.functions[n["name"]] = n
            elif k == "FunctionTemplateDecl":
                for c in n.get("inner", []):
                    if c.get("kind") == "FunctionDecl" and any(x.get("kind") == "CompoundStmt" for x in c.get("inner", [])):
                        targs = [a for a in c.get("inner", []) if a.get("kind") == "TemplateArgument"]
                        if targs:   # an instantiation
                            nm = self.inst_name(c)
                            while nm in self.functions:
                                nm += "_c"      # const overload of the same template
                            self.functions[nm] = c

    def inst_name(self, fn):
        targs = [a for a in fn.get("inner", []) if a.get("kind") == "TemplateArgument"]
        if not targs:
            return fn["name"]
        parts = []
        for a in targs:
            t = a.get("type", {}).get("qualType", "?")
            parts.append("".join(ch if ch.isalnum() else "_" for ch in canon(t)))
        return fn["name"] + "__" + "_".join(parts)

    # ------------------------------------------------------------------ expressions
    def prim(self, name):
        self.used_prims.add(name)
        return name

    def fresh(self, base="t"):
        self.tmp += 1
        return f"__cx_{base}{self.tmp}"

    def expr(self, n):
        k = n["kind"]
        m = getattr(self, "e_" + k, None)
        if m is None:
            raise Untranslatable(f"expression kind {k}")
        return m(n)

    def kids(self, n):
        return [c for c in n.get("inner", [])]

    def e_ParenExpr(self, n):
        return "(" + self.expr(self.kids(n)[0]) + ")"

    def e_ConstantExpr(self, n):
        return self.expr(self.kids(n)[0])

    def e_ExprWithCleanups(self, n):
        return self.expr(self.kids(n)[0])

    def e_MaterializeTemporaryExpr(self, n):
        return self.expr(self.kids(n)[0])

    def e_CXXBindTemporaryExpr(self, n):
        return self.expr(self.kids(n)[0])

    def e_SubstNonTypeTemplateParmExpr(self, n):
        return self.expr(self.kids(n)[-1])

    def e_IntegerLiteral(self, n):
        return str(int(n["value"]))

    def e_FloatingLiteral(self, n):
        v = float(n["value"])
        from fractions import Fraction
        # the literal denotes a real number (A-REAL); keep short decimal text where exact
        s = repr(v)
        return s if "e" not in s and "inf" not in s else str(Fraction(n["value"]).limit_denominator(10**12).numerator) + " / " + str(Fraction(n["value"]).limit_denominator(10**12).denominator)

    def e_CXXBoolLiteralExpr(self, n):
        return "True" if n["value"] else "False"

    def e_StringLiteral(self, n):
        v = n["value"]
        # clang prints the literal with C escapes and quotes
        import ast as pyast
        try:
            return repr(pyast.literal_eval(v))
        except Exception:
            return repr(v.strip('"'))

    def e_CharacterLiteral(self, n):
        return repr(chr(int(n["value"])))

    def e_DeclRefExpr(self, n):
        ref = n.get("referencedDecl", {})
        name = ref.get("name")
        if ref.get("id") in self.ref_params:
            p = self.ref_params[ref["id"]]
            return f"{self.prim('c_deref')}({p}__blk, {p}__idx, {p}__val)"
        if ref.get("kind") == "EnumConstantDecl":
            return self.enum_value(ref)
        if ref.get("kind") == "FunctionDecl":
            return name
        return self.rename(name, ref)

    def rename(self, name, ref=None):
        if ref is not None and ref.get("id") in self.statics:
            return self.statics[ref["id"]]
        if ref is not None and ref.get("id") in self.local_names:
            return self.local_names[ref["id"]]
        return name

    def enum_value(self, ref):
        # enumerators are numbered in declaration order unless initialised; look the constant up in the TU
        for n in self.tu.get("inner", []):
            if n.get("kind") == "EnumDecl":
                val = -1
                for c in n.get("inner", []):
                    if c.get("kind") == "EnumConstantDecl":
                        init = [x for x in c.get("inner", []) if x.get("kind") in ("ConstantExpr", "IntegerLiteral", "ImplicitCastExpr")]
                        if init:
                            val = int(self.const_int(init[0]))
                        else:
                            val += 1
                        if c.get("id") == ref.get("id") or c.get("name") == ref.get("name"):
                            return str(val)
        raise Untranslatable("enum constant " + str(ref.get("name")))

    def const_int(self, n):
        if n.get("kind") == "IntegerLiteral":
            return n["value"]
        if "value" in n and n.get("kind") == "ConstantExpr":
            return n["value"]
        return self.const_int(self.kids(n)[0])

    def e_ImplicitCastExpr(self, n):
        return self.cast(n, n.get("castKind"), self.kids(n)[0])

    def e_CStyleCastExpr(self, n):
        return self.cast(n, n.get("castKind"), self.kids(n)[0])

    def e_CXXStaticCastExpr(self, n):
        return self.cast(n, n.get("castKind"), self.kids(n)[0])

    def e_CXXFunctionalCastExpr(self, n):
        return self.cast(n, n.get("castKind"), self.kids(n)[0])

    def e_CXXReinterpretCastExpr(self, n):
        # F("...") : flash string helper - the characters are what matters
        return self.expr(self.kids(n)[0])

    def cast(self, n, ck, inner):
        src_t, dst_t = type_of(inner), type_of(n)
        e = self.expr(inner)
        if ck in ("LValueToRValue", "NoOp", "FunctionToPointerDecay", "ArrayToPointerDecay", "UserDefinedConversion",
                  "ConstructorConversion", "DerivedToBase", "UncheckedDerivedToBase", "FloatingCast", "BuiltinFnToFnPtr"):
            return e
        if ck == "IntegralCast":
            if kind_of_type(src_t) == "bool":
                e = f"int({e})"
            w = int_wrapper(dst_t)
            if w is None:
                raise Untranslatable(f"integral cast to {dst_t}")
            if dst_t in SIGNED and src_t in SIGNED and SIGNED[dst_t] >= SIGNED[src_t]:
                return e        # widening signed conversion: value preserved
            if dst_t in SIGNED and src_t in UNSIGNED and SIGNED[dst_t] > UNSIGNED[src_t]:
                return e
            if dst_t in UNSIGNED and src_t in UNSIGNED and UNSIGNED[dst_t] >= UNSIGNED[src_t]:
                return e
            return f"{self.prim(w)}({e})"
        if ck == "IntegralToFloating":
            if kind_of_type(src_t) == "bool":
                e = f"int({e})"
            return f"{self.prim('i2f')}({e})"
        if ck == "FloatingToIntegral":
            w = int_wrapper(dst_t)
            bits = SIGNED.get(dst_t) or UNSIGNED.get(dst_t)
            sign = "i" if dst_t in SIGNED else "u"
            return f"{self.prim(f'f2i_{sign}{bits}')}({e})"
        if ck == "IntegralToBoolean":
            return f"(({e}) != 0)"
        if ck == "FloatingToBoolean":
            return f"(({e}) != 0)"
        if ck == "BooleanToSignedIntegral":
            return f"int({e})"
        if ck == "NullToPointer":
            return "0"
        if ck == "PointerToBoolean":
            return f"(({e}) != 0)"
        raise Untranslatable(f"cast kind {ck} ({src_t} -> {dst_t})")

    def e_UnaryOperator(self, n):
        op = n["opcode"]
        inner = self.kids(n)[0]
        t = type_of(n)
        e = self.expr(inner)
        if op == "!":
            return f"(not {e})"
        if op == "-":
            w = int_wrapper(t)
            return f"{self.prim(w)}(-({e}))" if w else f"(-({e}))"
        if op == "+":
            return e
        if op == "~":
            raise Untranslatable("bitwise not")
        if op in ("&", "*"):
            return e   # references / pointer-to-array decay: the object itself
        raise Untranslatable(f"unary {op} as an expression")

    ARITH = {"+": "+", "-": "-", "*": "*"}
    CMP = {"<", "<=", ">", ">=", "==", "!="}

    def e_BinaryOperator(self, n):
        op = n["opcode"]
        a, b = self.kids(n)
        t = type_of(n)
        if op == ",":
            raise Untranslatable("comma operator")
        ea, eb = self.expr(a), self.expr(b)
        if op in self.CMP:
            if kind_of_type(type_of(a)) == "str" or kind_of_type(type_of(b)) == "str":
                return f"(({ea}) {op} ({eb}))"
            return f"(({ea}) {op} ({eb}))"
        if op == "&&":
            return f"(({ea}) and ({eb}))"
        if op == "||":
            return f"(({ea}) or ({eb}))"
        k = kind_of_type(t)
        if op in self.ARITH:
            if k == "real":
                return f"(({ea}) {op} ({eb}))"
            w = int_wrapper(t)
            if w is None:
                raise Untranslatable(f"arithmetic on {t}")
            return f"{self.prim(w)}(({ea}) {op} ({eb}))"
        if op == "/":
            if k == "real":
                return f"{self.prim('f_div')}({ea}, {eb})"
            return f"{self.prim(int_wrapper(t))}({self.prim('c_div')}({ea}, {eb}))"
        if op == "%":
            return f"{self.prim('c_mod')}({ea}, {eb})"
        if op == "&":
            return f"{self.prim('c_bitand')}({ea}, {eb})"
        if op in ("<<", ">>", "|", "^"):
            return f"{self.prim({'<<': 'c_shl', '>>': 'c_shr', '|': 'c_bitor', '^': 'c_bitxor'}[op])}({ea}, {eb})"
        if op == "=":
            raise Untranslatable("assignment used as a value")
        raise Untranslatable(f"binary {op}")

    def e_ConditionalOperator(self, n):
        c, a, b = self.kids(n)
        return f"(({self.expr(a)}) if ({self.expr(c)}) else ({self.expr(b)}))"

    def is_pointer(self, node):
        t = node.get("type", {}).get("qualType", "")
        return t.rstrip().endswith("*")

    def strip_casts(self, x):
        while x.get("kind") in ("ImplicitCastExpr", "ParenExpr") and x.get("inner"):
            x = x["inner"][0]
        return x

    def is_heap_pointer(self, a):
        """a genuine pointer value (heap block), not an array that merely decays to a pointer for the subscript"""
        base = self.strip_casts(a)
        bt = base.get("type", {}).get("qualType", "")
        if bt.rstrip().endswith("]"):
            return False
        return self.is_pointer(base) or (self.is_pointer(a) and not bt.rstrip().endswith("]"))

    def e_ArraySubscriptExpr(self, n):
        a, i = self.kids(n)
        if self.is_heap_pointer(a):
            return f"{self.prim('c_load')}({self.expr(a)}, {self.expr(i)})"
        return f"{self.expr(a)}[{self.expr(i)}]"

    def e_CXXNullPtrLiteralExpr(self, n):
        return "0"

    def e_CXXNewExpr(self, n):
        if not n.get("isArray"):
            raise Untranslatable("scalar new")
        kids = self.kids(n)
        size = kids[0]
        if len(kids) > 1:
            raise Untranslatable("new[] with an initialiser list")
        return f"{self.prim('c_new')}({self.expr(size)})"

    def sizeof_type(self, t):
        t = canon(t)
        import re as _re
        m = _re.match(r"^(.*?)\[(\d+)\]$", t)
        if m:
            return int(m.group(2)) * self.sizeof_type(m.group(1).strip())
        if t in SIGNED:
            return SIGNED[t] // 8
        if t in UNSIGNED:
            return UNSIGNED[t] // 8
        if t in FLOATS:
            return 4
        if t == "bool":
            return 1
        raise Untranslatable(f"sizeof({t})")

    def e_UnaryExprOrTypeTraitExpr(self, n):
        if n.get("name") != "sizeof":
            raise Untranslatable(n.get("name", "type trait"))
        if "argType" in n:
            return str(self.sizeof_type(n["argType"].get("desugaredQualType") or n["argType"]["qualType"]))
        inner = self.kids(n)[0]
        while inner.get("kind") == "ParenExpr":
            inner = inner["inner"][0]
        return str(self.sizeof_type(type_of(inner)))

    def e_InitListExpr(self, n):
        return "[" + ", ".join(self.expr(c) for c in self.kids(n)) + "]"

    def e_MemberExpr(self, n):
        base = self.kids(n)[0]
        return f"{self.expr(base)}.{n['name']}"

    def e_CXXThisExpr(self, n):
        return "self"

    def e_CXXConstructExpr(self, n):
        t = type_of(n)
        args = self.kids(n)
        if t == "String":
            if not args:
                return "''"
            a = args[0]
            at = type_of(a)
            e = self.expr(a)
            ak = kind_of_type(at)
            if ak == "str" or at.startswith("char") or "char" in at or "__FlashStringHelper" in at:
                if at == "char":
                    return e
                return e
            if ak == "int":
                return f"{self.prim('str_of_int')}({e})"
            if ak == "real":
                return f"{self.prim('str_of_float2')}({e})"
            if ak == "bool":
                return f"{self.prim('str_of_int')}(int({e}))"
            raise Untranslatable(f"String constructed from {at}")
        if len(args) == 1:
            return self.expr(args[0])     # copy construction
        raise Untranslatable(f"construction of {t}")

    def e_CXXDefaultArgExpr(self, n):
        kids = self.kids(n)
        if kids:
            return self.expr(kids[0])
        return "__DEFAULT__"

    def e_CallExpr(self, n):
        kids = self.kids(n)
        callee = kids[0]
        name = self.callee_name(callee)
        args = [a for a in kids[1:] if a.get("kind") != "CXXDefaultArgExpr"]
        ea = [self.expr(a) for a in args]
        self.externs_called.add(name)
        return f"{name}({', '.join(ea)})"

    def callee_name(self, c):
        while c.get("kind") in ("ImplicitCastExpr", "ParenExpr"):
            c = c["inner"][0]
        if c.get("kind") == "DeclRefExpr":
            ref = c["referencedDecl"]
            nm = ref["name"]
            # calls to template instantiations carry the found specialisation
            fd = c.get("foundReferencedDecl")
            for fname, fn in self.functions.items():
                if fn.get("id") == ref.get("id"):
                    return fname
            return nm
        raise Untranslatable("call of a computed function")

    STRING_METHODS = {"length": lambda o, a: f"len({o})", "charAt": lambda o, a: f"{o}[{a[0]}]",
                      "c_str": lambda o, a: o, "reserve": lambda o, a: "None"}

    def e_CXXMemberCallExpr(self, n):
        kids = self.kids(n)
        me = kids[0]
        while me.get("kind") in ("ImplicitCastExpr", "ParenExpr"):
            me = me["inner"][0]
        if me.get("kind") != "MemberExpr":
            raise Untranslatable("member call shape")
        obj = me["inner"][0]
        ot = type_of(obj)
        oe = self.expr(obj)
        meth = me["name"]
        args = [self.expr(a) for a in kids[1:] if a.get("kind") != "CXXDefaultArgExpr"]
        if ot == "String":
            if meth == "substring":
                if len(args) == 1:
                    return f"{self.prim('str_substring')}({oe}, {args[0]}, len({oe}))"
                return f"{self.prim('str_substring')}({oe}, {args[0]}, {args[1]})"
            if meth in self.STRING_METHODS:
                return self.STRING_METHODS[meth](oe, args)
            raise Untranslatable(f"String::{meth}")
        self.externs_called.add(f"{ot}.{meth}")
        return f"{oe}.{meth}({', '.join(args)})"

    def e_CXXOperatorCallExpr(self, n):
        kids = self.kids(n)
        op = self.callee_name(kids[0])
        args = kids[1:]
        ts = [type_of(a) for a in args]
        ea = [self.expr(a) for a in args]
        if "String" in ts or any("String" in t for t in ts):
            if op == "operator+":
                return f"(({ea[0]}) + ({self.as_str(args[1], ea[1])}))"
            if op == "operator[]":
                return f"{ea[0]}[{ea[1]}]"
            if op in ("operator==", "operator!="):
                return f"(({ea[0]}) {'==' if op == 'operator==' else '!='} ({ea[1]}))"
        raise Untranslatable(f"operator call {op} on {ts}")

    def as_str(self, node, e):
        t = type_of(node)
        if t == "char":
            return e
        return e

    # ------------------------------------------------------------------ statements
    def stmt(self, n, ind, ctx):
        k = n["kind"]
        m = getattr(self, "s_" + k, None)
        if m is None:
            # expression statement
            return self.expr_stmt(n, ind, ctx)
        return m(n, ind, ctx)

    def block(self, n, ind, ctx):
        if n is None:
            return [ind + "pass"]
        if n.get("kind") == "CompoundStmt":
            out = []
            for c in n.get("inner", []):
                out += self.stmt(c, ind, ctx)
            return out or [ind + "pass"]
        return self.stmt(n, ind, ctx)

    def s_CompoundStmt(self, n, ind, ctx):
        return self.block(n, ind, ctx)

    def s_NullStmt(self, n, ind, ctx):
        return [ind + "pass"]

    def s_DeclStmt(self, n, ind, ctx):
        out = []
        for d in n.get("inner", []):
            if d.get("kind") != "VarDecl":
                raise Untranslatable("declaration " + d.get("kind", "?"))
            name = d["name"]
            t = type_of(d)
            init = [c for c in d.get("inner", []) if c.get("kind") not in ("TypeLoc",)]
            if d.get("storageClass") == "static":
                g = f"{ctx['fn']}__{name}"
                self.statics[d["id"]] = g
                self.globals[g] = (t, d)
                ctx["globals_used"].add(g)
                continue
            if name in ctx["declared"] and ctx["declared"][name] != d["id"]:
                # the same identifier declared again in another (sibling or nested) scope: a distinct variable
                k = 2
                while f"{name}__{k}" in ctx["declared"]:
                    k += 1
                name = f"{name}__{k}"
            ctx["declared"][name] = d["id"]
            self.local_names[d["id"]] = name
            if init:
                out.append(f"{ind}{name} = {self.init_value(t, init[0])}")
            else:
                out.append(f"{ind}{name} = {self.default_value(t)}")
        return out or [ind + "pass"]

    def init_value(self, t, init):
        return self.expr(init)

    def default_value(self, t):
        k = kind_of_type(t)
        return {"int": "0", "real": "0.0", "bool": "False", "str": "''"}.get(k, "None")

    def lvalue(self, n):
        while n.get("kind") in ("ParenExpr",):
            n = n["inner"][0]
        if n.get("kind") == "DeclRefExpr":
            return self.rename(n["referencedDecl"]["name"], n["referencedDecl"])
        if n.get("kind") == "ArraySubscriptExpr":
            a, i = self.kids(n)
            return f"{self.expr(a)}[{self.expr(i)}]"
        if n.get("kind") == "MemberExpr":
            return f"{self.expr(n['inner'][0])}.{n['name']}"
        if n.get("kind") == "CXXOperatorCallExpr":
            return self.expr(n)
        raise Untranslatable("assignment target " + n.get("kind", "?"))

    def note_global(self, n, ctx):
        if n.get("kind") == "DeclRefExpr":
            nm = self.rename(n["referencedDecl"]["name"], n["referencedDecl"])
            if nm in self.globals:
                ctx["globals_used"].add(nm)

    def expr_stmt(self, n, ind, ctx):
        k = n["kind"]
        if k in ("ExprWithCleanups", "ImplicitCastExpr", "ParenExpr") and n.get("inner"):
            if k != "ImplicitCastExpr" or n.get("castKind") in ("ToVoid", "NoOp", "LValueToRValue"):
                return self.expr_stmt(n["inner"][0], ind, ctx)
        if k == "BinaryOperator" and n["opcode"] == "=":
            lhs, rhs = self.kids(n)
            self.note_global(lhs, ctx)
            l0 = self.strip_casts(lhs)
            if l0.get("kind") == "ArraySubscriptExpr":
                a, i = self.kids(l0)
                if self.is_heap_pointer(a):
                    i0 = self.strip_casts(i)
                    if i0.get("kind") == "UnaryOperator" and i0.get("opcode") == "++" and i0.get("isPostfix"):
                        tgt = self.kids(i0)[0]
                        lv = self.lvalue(tgt)
                        t = type_of(i0)
                        return [f"{ind}{self.prim('c_store')}({self.expr(a)}, {lv}, {self.expr(rhs)})",
                                f"{ind}{lv} = {self.prim(int_wrapper(t))}(({lv}) + 1)"]
                    return [f"{ind}{self.prim('c_store')}({self.expr(a)}, {self.expr(i)}, {self.expr(rhs)})"]
            return [f"{ind}{self.lvalue(lhs)} = {self.expr(rhs)}"]
        if k == "CompoundAssignOperator":
            lhs, rhs = self.kids(n)
            self.note_global(lhs, ctx)
            op = n["opcode"][:-1]
            t = type_of(n)
            ct = canon(n.get("computeResultType", {}).get("qualType", t))
            lv = self.lvalue(lhs)
            le, re_ = lv, self.expr(rhs)
            kk = kind_of_type(t)
            if kk == "str":
                return [f"{ind}{lv} = ({le}) + ({re_})"]
            if kk == "real" or kind_of_type(ct) == "real":
                val = f"(({self.prim('i2f')}({le}) if False else {le}) {op} ({re_}))" if False else f"(({le}) {op} ({re_}))"
                if kk == "int":
                    bits = SIGNED.get(t) or UNSIGNED.get(t)
                    sign = "i" if t in SIGNED else "u"
                    val = f"{self.prim(f'f2i_{sign}{bits}')}({self.prim('i2f')}({le}) {op} ({re_}))"
                return [f"{ind}{lv} = {val}"]
            if op in ("+", "-", "*"):
                return [f"{ind}{lv} = {self.prim(int_wrapper(t))}(({le}) {op} ({re_}))"]
            if op == "/":
                return [f"{ind}{lv} = {self.prim(int_wrapper(t))}({self.prim('c_div')}({le}, {re_}))"]
            if op == "%":
                return [f"{ind}{lv} = {self.prim('c_mod')}({le}, {re_})"]
            raise Untranslatable(f"compound assignment {n['opcode']}")
        if k == "UnaryOperator" and n["opcode"] in ("++", "--"):
            tgt = self.kids(n)[0]
            self.note_global(tgt, ctx)
            t = type_of(n)
            lv = self.lvalue(tgt)
            op = "+" if n["opcode"] == "++" else "-"
            return [f"{ind}{lv} = {self.prim(int_wrapper(t))}(({lv}) {op} 1)"]
        if k == "CXXOperatorCallExpr":
            kids = self.kids(n)
            op = self.callee_name(kids[0])
            if op in ("operator+=", "operator="):
                lhs, rhs = kids[1], kids[2]
                self.note_global(lhs, ctx)
                lv = self.lvalue(lhs)
                r = self.expr(rhs)
                return [f"{ind}{lv} = ({lv}) + ({r})" if op == "operator+=" else f"{ind}{lv} = {r}"]
        if k in ("CallExpr", "CXXMemberCallExpr"):
            return [f"{ind}{self.expr(n)}"]
        if k == "CXXDeleteExpr":
            arg = self.kids(n)[0]
            return [f"{ind}{self.prim('c_delete')}({self.expr(arg)})"]
        raise Untranslatable(f"statement expression {k}")

    def s_IfStmt(self, n, ind, ctx):
        kids = self.kids(n)
        cond, then = kids[0], kids[1]
        els = kids[2] if len(kids) > 2 else None
        out = [f"{ind}if {self.expr(cond)}:"] + self.block(then, ind + "    ", ctx)
        if els is not None:
            out += [f"{ind}else:"] + self.block(els, ind + "    ", ctx)
        return out

    def s_WhileStmt(self, n, ind, ctx):
        cond, body = self.kids(n)
        ctx["loops"] += 1
        return [f"{ind}while {self.expr(cond)}:"] + self.block(body, ind + "    ", ctx)

    def counting_loop(self, init, cond, inc, body):
        """for (T i = a; i < CONST; ++i) with i not written in the body -> (name, lo, hi) else None"""
        try:
            if init.get("kind") != "DeclStmt" or len(init["inner"]) != 1:
                return None
            d = init["inner"][0]
            if d.get("kind") != "VarDecl" or kind_of_type(type_of(d)) != "int":
                return None
            ini = [c for c in d.get("inner", [])]
            if not ini:
                return None
            if cond.get("kind") != "BinaryOperator" or cond["opcode"] not in ("<", "<="):
                return None
            lhs, rhs = cond["inner"]

            def strip(x):
                while x.get("kind") in ("ImplicitCastExpr", "ParenExpr"):
                    x = x["inner"][0]
                return x
            l, r = strip(lhs), strip(rhs)
            if l.get("kind") != "DeclRefExpr" or l["referencedDecl"]["id"] != d["id"]:
                return None
            const_bound = r.get("kind") == "IntegerLiteral" or (
                r.get("kind") == "DeclRefExpr" and "const" in r["referencedDecl"].get("type", {}).get("qualType", ""))
            if not const_bound:
                return None
            i = strip(inc)
            if i.get("kind") != "UnaryOperator" or i["opcode"] != "++" or strip(i["inner"][0])["referencedDecl"]["id"] != d["id"]:
                return None

            def writes(x):
                if x.get("kind") in ("BinaryOperator", "CompoundAssignOperator") and x.get("opcode", "").endswith("=") \
                        and x.get("opcode") not in ("==", "!=", "<=", ">="):
                    t = strip(x["inner"][0])
                    if t.get("kind") == "DeclRefExpr" and t["referencedDecl"]["id"] == d["id"]:
                        return True
                if x.get("kind") == "UnaryOperator" and x.get("opcode") in ("++", "--"):
                    t = strip(x["inner"][0])
                    if t.get("kind") == "DeclRefExpr" and t["referencedDecl"]["id"] == d["id"]:
                        return True
                if x.get("kind") in ("ContinueStmt",):
                    return False
                return any(writes(ch) for ch in x.get("inner", []) if isinstance(ch, dict))
            if writes(body):
                return None
            hi = self.expr(rhs)
            if cond["opcode"] == "<=":
                hi = f"({hi}) + 1"
            return d["name"], self.expr(ini[0]), hi, d
        except (KeyError, IndexError):
            return None

    def s_ForStmt(self, n, ind, ctx):
        kids = n.get("inner", [])
        init, condvar, cond, inc, body = (kids + [None] * 5)[:5]
        cl = self.counting_loop(init, cond, inc, body) if init and cond and inc and body else None
        if cl:
            name, lo, hi, d = cl
            if name in ctx["declared"] and ctx["declared"][name] != d["id"]:
                k = 2
                while f"{name}__{k}" in ctx["declared"]:
                    k += 1
                name = f"{name}__{k}"
            ctx["declared"][name] = d["id"]
            self.local_names[d["id"]] = name
            ctx["loops"] += 1
            ctx["for_inc"].append([])
            body_lines = self.block(body, ind + "    ", ctx)
            ctx["for_inc"].pop()
            return [f"{ind}for {name} in range({lo}, {hi}):"] + body_lines
        out = []
        if init and init.get("kind"):
            out += self.stmt(init, ind, ctx)
        ctx["loops"] += 1
        c = self.expr(cond) if cond and cond.get("kind") else "True"
        inc_lines = self.expr_stmt(inc, ind + "    ", ctx) if inc and inc.get("kind") else []
        ctx["for_inc"].append(inc_lines)
        body_lines = self.block(body, ind + "    ", ctx)
        ctx["for_inc"].pop()
        out += [f"{ind}while {c}:"] + body_lines + inc_lines
        return out

    def s_DoStmt(self, n, ind, ctx):
        body, cond = self.kids(n)
        ctx["loops"] += 1
        return [f"{ind}while True:"] + self.block(body, ind + "    ", ctx) + [f"{ind}    if not ({self.expr(cond)}):", f"{ind}        break"]

    def s_ReturnStmt(self, n, ind, ctx):
        kids = self.kids(n)
        return [f"{ind}return {self.expr(kids[0])}" if kids else f"{ind}return"]

    def s_BreakStmt(self, n, ind, ctx):
        return [ind + "break"]

    def s_ContinueStmt(self, n, ind, ctx):
        inc = ctx["for_inc"][-1] if ctx["for_inc"] else []
        extra = [ind + l.strip() for l in inc]
        return extra + [ind + "continue"]

    # ------------------------------------------------------------------ functions
    def new_ctx(self, fname):
        return {"fn": fname, "declared": {}, "globals_used": set(), "loops": 0, "for_inc": []}

    def function(self, pyname):
        fn = self.functions[pyname]
        params = [c for c in fn.get("inner", []) if c.get("kind") == "ParmVarDecl"]
        body = next(c for c in fn["inner"] if c.get("kind") == "CompoundStmt")
        ctx = self.new_ctx(pyname)
        plist = []
        for p in params:
            raw = p.get("type", {}).get("qualType", "")
            t = type_of(p)
            if raw.rstrip().endswith("&") and "const" in raw and kind_of_type(t) in ("int", "real", "bool"):
                # a reference to a scalar may alias a heap cell: passed as (block, index, value); block 0 = not a heap cell
                self.ref_params[p["id"]] = p["name"]
                plist += [(p["name"] + "__blk", "int"), (p["name"] + "__idx", "int"), (p["name"] + "__val", t)]
            else:
                plist.append((p["name"], t))
        lines = self.block(body, "    ", ctx)
        return self.assemble(pyname, plist, lines, ctx, canon(fn["type"]["qualType"].split("(")[0]))

    def fragment(self, fn_name, begin="__VERIF_BEGIN", end="__VERIF_END", pyname="frag", params=()):
        fn = self.functions[fn_name]
        body = next(c for c in fn["inner"] if c.get("kind") == "CompoundStmt")
        inside, stmts = False, []
        for c in body.get("inner", []):
            nm = None
            if c.get("kind") == "CallExpr":
                nm = self.callee_name(c["inner"][0])
            if nm == begin:
                inside = True
                continue
            if nm == end:
                inside = False
                continue
            if inside:
                stmts.append(c)
        ctx = self.new_ctx(pyname)
        lines = []
        for s in stmts:
            lines += self.stmt(s, "    ", ctx)
        return self.assemble(pyname, list(params), lines or ["    pass"], ctx, "void")

    def assemble(self, pyname, params, lines, ctx, ret_t):
        used = set(ctx["globals_used"])
        # globals that are read are resolved by the verifier as module state; those written need `global`
        import re as _re
        text = "\n".join(lines)
        for g in self.globals:
            if _re.search(r"(?<![\w])" + _re.escape(g) + r"(?![\w])", text):
                used.add(g)
        used -= {p for p, _ in params}
        head = f"def {pyname}({', '.join(p for p, _ in params)}):"
        gl = [f"    global {', '.join(sorted(used))}"] if used else []
        src = "\n".join([head] + gl + lines) + "\n"
        self.out_funcs[pyname] = {"src": src, "params": params, "globals": sorted(used), "ret": ret_t, "loops": ctx["loops"]}
        return src

    def global_kinds(self):
        return {g: kind_of_type(t) for g, (t, _) in self.globals.items()}

    def global_inits(self):
        out = {}
        for g, (t, d) in self.globals.items():
            init = [c for c in d.get("inner", []) if c.get("kind") not in ("TypeLoc",)]
            try:
                out[g] = self.expr(init[0]) if init else self.default_value(t)
            except Untranslatable:
                out[g] = None
        return out
