#!/bin/bash
# usage: tools_try_seed.sh <patch> <PID> [more PIDs]  -- applies a seeded patch to /repo, runs the quick checks, reverts.
patch=$1; shift
git -C /repo apply "$patch" || exit 9
# the checks rewrite evidence/*.json: keep the clean-tree evidence aside while a seeded patch is applied
rm -rf /tmp/evidence.keep && cp -r /verif/evidence /tmp/evidence.keep
for pid in "$@"; do
  cmd=$(python3 -c "import json,sys;m=json.load(open('/verif/MANIFEST.json'));print([c['quick_cmd'] for c in m['checks'] if c['property_id']=='$pid'][0])" 2>/dev/null)
  [ -z "$cmd" ] && cmd="python3-vt -m pyvc.driver $pid"
  (cd /verif && bash -c "$cmd"; echo "exit=$?") 2>&1 | grep -E "VIOLATION|UNDECIDED|CHECKER|KNOWN|OK property|exit=" | cut -c1-400
done
git -C /repo checkout -- .
rm -rf /verif/evidence && mv /tmp/evidence.keep /verif/evidence
