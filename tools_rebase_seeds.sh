#!/bin/bash
# Rebase every seeded patch onto /repo's current HEAD in a scratch worktree (3-way), so that plain `git apply` in /repo lands each
# hunk where it was meant to (after /repo fix commits shift lines).  Never touches /repo's working tree.
WT=/tmp/rebase_wt
git -C /repo worktree remove --force $WT 2>/dev/null
git -C /repo worktree add -q --detach $WT HEAD || exit 1
H=$(git -C /repo rev-parse --short HEAD)
cd $WT
for d in /verif/seeded/C*/; do
  s=$(basename $d)
  git reset -q --hard HEAD
  if git apply --3way $d/patch.diff 2>/tmp/rebase_err.txt; then
    git diff HEAD > /tmp/rebased.diff
    if ! cmp -s <(grep '^[-+]' /tmp/rebased.diff | grep -v '^[-+][-+]') <(grep '^[-+]' $d/patch.diff | grep -v '^[-+][-+]'); then echo "$s: content changed by the rebase - check by hand"; fi
    cp /tmp/rebased.diff $d/patch.diff
    python3 - "$d" "$H" <<'PY'
import json,sys
p=sys.argv[1]+'meta.json'; m=json.load(open(p)); m['rebased_on']=sys.argv[2]; json.dump(m,open(p,'w'),indent=1)
PY
  else
    echo "$s: 3-way apply FAILED: $(head -c 200 /tmp/rebase_err.txt | tr '\n' ' ')"
  fi
done
cd /; git -C /repo worktree remove --force $WT; rm -f /tmp/rebased.diff /tmp/rebase_err.txt
for d in /verif/seeded/C*/; do git -C /repo apply --check $d/patch.diff 2>/dev/null || echo "does not apply: $d"; done
echo "rebased onto $H"
