#!/usr/bin/env python3
"""Confirm incoming seeded mutations in a scratch worktree of /repo (outside /repo and /verif):
patch applies, package imports, full test suite passes, demo fails with the patch and passes without it.
Writes /verif/seeded/<PID>-<k>/{patch.diff,demo.py,meta.json}."""
import json, os, shutil, subprocess, sys, re

INC = "/verif/seeded_incoming"
OUT = "/verif/seeded"
WT = "/tmp/confirm_wt"
PY = "/venv/bin/python"


def sh(cmd, cwd=None, env=None, timeout=900):
    r = subprocess.run(cmd, shell=True, cwd=cwd, env=env, capture_output=True, text=True, timeout=timeout)
    return r.returncode, (r.stdout + r.stderr)


KS = (1, 2, 3, 4)


def main():
    global KS
    only = [a for a in sys.argv[1:] if not a.startswith('-k')]
    for a in sys.argv[1:]:
        if a.startswith('-k'):
            KS = tuple(int(x) for x in a[2:].split(','))
    subprocess.run(f"git -C /repo worktree remove --force {WT}", shell=True, capture_output=True)
    sh(f"git -C /repo worktree add --detach {WT} HEAD")
    env = dict(os.environ, PYTHONPATH=f"{WT}/src", PYTHONHASHSEED="0")
    props = {json.loads(l)["id"]: json.loads(l) for l in open("/verif/properties.jsonl")}
    try:
        for pid in sorted(os.listdir(INC)):
            if only and pid not in only:
                continue
            for k in KS:
                d = f"{INC}/{pid}"
                patch, demo, note = f"{d}/patch{k}.diff", f"{d}/demo{k}.py", f"{d}/note{k}.txt"
                if not os.path.exists(patch):
                    continue
                sh("git checkout -- . && git clean -fdq", cwd=WT)
                rc0, out0 = sh(f"{PY} {demo}", cwd=WT, env=env)
                rc, out = sh(f"git apply {patch}", cwd=WT)
                meta = {"property": pid, "k": k, "applies": rc == 0}
                if rc == 0:
                    rct, outt = sh(f"{PY} -m pytest -q -p no:cacheprovider -o addopts='' 2>&1 | tail -3", cwd=WT, env=env)
                    m = re.search(r"(\d+) passed", outt)
                    meta["tests"] = outt.strip().splitlines()[-1] if outt.strip() else ""
                    meta["tests_pass"] = bool(m and int(m.group(1)) == 123 and "failed" not in outt)
                    rc1, out1 = sh(f"{PY} {demo}", cwd=WT, env=env)
                    meta["demo_exit_with_patch"] = rc1
                    meta["demo_output_with_patch"] = out1[-800:]
                meta["demo_exit_clean"] = rc0
                meta["confirmed"] = bool(meta.get("applies") and meta.get("tests_pass") and meta.get("demo_exit_with_patch") and rc0 == 0)
                meta["needs"] = open(note).read().strip() if os.path.exists(note) else ""
                meta["ran"] = [f"git apply patch.diff (scratch worktree of /repo HEAD at {WT})",
                               "PYTHONPATH=<wt>/src /venv/bin/python -m pytest -q -p no:cacheprovider",
                               "PYTHONPATH=<wt>/src /venv/bin/python demo.py (with and without the patch)"]
                print(pid, k, {x: meta.get(x) for x in ("applies", "tests_pass", "demo_exit_with_patch", "demo_exit_clean", "confirmed")}, flush=True)
                if meta["confirmed"]:
                    o = f"{OUT}/{pid}-{k}"
                    os.makedirs(o, exist_ok=True)
                    shutil.copy(patch, f"{o}/patch.diff")
                    shutil.copy(demo, f"{o}/demo.py")
                    old = {}
                    if os.path.exists(f"{o}/meta.json"):
                        old = json.load(open(f"{o}/meta.json"))
                    old.update(meta)
                    json.dump(old, open(f"{o}/meta.json", "w"), indent=1)
    finally:
        sh("git checkout -- . ; git clean -fdq", cwd=WT)
        os.chdir("/")
        sh(f"git -C /repo worktree remove --force {WT}")
        sh("rm -rf /tmp/reduino-pio-*")


main()
