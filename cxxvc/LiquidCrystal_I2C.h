#pragma once
#include <Arduino.h>
class LiquidCrystal_I2C : public Print {
 public:
  LiquidCrystal_I2C(uint8_t lcd_Addr, uint8_t lcd_cols, uint8_t lcd_rows);
  void init();
  void begin(uint8_t cols, uint8_t rows);
  void clear();
  void home();
  void noDisplay();
  void display();
  void noBacklight();
  void backlight();
  void setCursor(uint8_t col, uint8_t row);
  void createChar(uint8_t location, uint8_t charmap[]);
};
