"""Run a Reduino script under CPython against the real host modules and print its observable events.

stdin: JSON {"src": ..., "passes": N, "analog": [...], "digital": [...]}; stdout: event lines in the fwsim format
(== setup / == loop k / S:<serial line> / D:<ms>).  The top-level `while True:` is cut after N passes by a marker call
inserted mechanically as the first statement of its body (the script text is otherwise executed as written)."""
import ast
import json
import os
import sys


class _Stop(BaseException):
    pass


def main():
    job = json.load(sys.stdin)
    repo = os.environ.get("REDUINO_REPO", "/repo")
    sys.path.insert(0, os.path.join(repo, "src"))
    import time
    out = []

    def fake_sleep(seconds):
        ms = seconds * 1000.0
        # the exact host delay (the device rounds to whole milliseconds; the comparison allows < 1 ms per delay, as the property does)
        out.append("D:%d" % int(ms) if float(ms) == int(ms) else "D:%s" % repr(round(ms, 4)))
    time.sleep = fake_sleep
    import Reduino.Communication  # noqa: F401
    SM = sys.modules["Reduino.Communication.SerialMonitor"]

    def write(self, value):
        text = f"{value}"
        out.append("S:" + text)
        return text
    SM.SerialMonitor.write = write
    # LCD: after every public method call the host buffer is reported like the firmware mock reports its cells
    try:
        import Reduino.Displays  # noqa: F401
        LCDM = sys.modules["Reduino.Displays.LCD"]
        LCD = LCDM.LCD

        def wrap(name):
            orig = getattr(LCD, name)

            def inner(self, *a, **k):
                r = orig(self, *a, **k)
                for i, row in enumerate(self.buffer):
                    out.append("L:%d:%s" % (i, row))
                return r
            inner.__name__ = name
            setattr(LCD, name, inner)
        for name in ("clear", "line", "write", "message", "progress", "animate", "tick"):
            if hasattr(LCD, name):
                wrap(name)
    except Exception:
        pass
    # PWM / digital levels the host classes command, per pin (P:<pin>:<level>): every Led change goes through set_brightness, every RGBLed
    # change through set_color
    try:
        import Reduino.Actuators  # noqa: F401
        LedC = sys.modules["Reduino.Actuators.Led"].Led
        RgbC = sys.modules["Reduino.Actuators.RGBLed"].RGBLed
        _sb, _sc = LedC.set_brightness, RgbC.set_color

        def set_brightness(self, value):
            r = _sb(self, value)
            out.append("P:%s:%d" % (self.pin, self.brightness))
            return r

        def set_color(self, red, green, blue):
            r = _sc(self, red, green, blue)
            for pin, level in zip(self.pins, self.get_color()):
                out.append("P:%s:%d" % (pin, level))
            return r
        LedC.set_brightness = set_brightness
        RgbC.set_color = set_color
    except Exception:
        pass
    state = {"k": 0}
    passes = job["passes"]

    def marker():
        if state["k"] >= passes:
            raise _Stop()
        out.append("== loop %d" % state["k"])
        state["k"] += 1
    tree = ast.parse(job["src"])
    for node in tree.body:
        if isinstance(node, ast.While) and isinstance(node.test, ast.Constant) and node.test.value is True:
            call = ast.Expr(ast.Call(ast.Name("__pass__", ast.Load()), [], []))
            node.body.insert(0, call)
    ast.fix_missing_locations(tree)
    out.append("== setup")
    status = "ok"
    try:
        exec(compile(tree, "<script>", "exec"), {"__name__": "__main__", "__pass__": marker})
    except _Stop:
        pass
    except Exception as ex:          # the script is not well defined under CPython
        status = "raises:%s: %s" % (type(ex).__name__, ex)
    json.dump({"status": status, "events": out}, sys.stdout)


main()
