"""Reads the real source text of /repo on every run and indexes the units in it."""
from __future__ import annotations

import ast
import hashlib
import os

REPO = os.environ.get("REDUINO_REPO", "/repo")
SRC = os.path.join(REPO, "src")
VERIF = os.path.dirname(os.path.dirname(os.path.abspath(__file__)))


class ClassInfo:
    def __init__(self, node):
        self.node = node
        self.methods = {}
        self.static = set()
        self.properties = set()
        self.consts = {}
        self.bases = [ast.unparse(b) for b in node.bases]
        for n in node.body:
            if isinstance(n, ast.FunctionDef):
                decos = [ast.unparse(d) for d in n.decorator_list]
                if "property" in decos:
                    self.properties.add(n.name)
                    continue
                if "staticmethod" in decos:
                    self.static.add(n.name)
                elif decos:
                    continue
                self.methods[n.name] = n
            elif isinstance(n, (ast.Assign, ast.AnnAssign)):
                tgt = n.targets[0] if isinstance(n, ast.Assign) else n.target
                if isinstance(tgt, ast.Name) and n.value is not None:
                    try:
                        self.consts[tgt.id] = ast.literal_eval(n.value)
                    except Exception:
                        pass


GENERATED = {}      # "@gen/<name>" -> python text produced mechanically on this run (e.g. by cxx2py)


class ModuleInfo:
    def __init__(self, relpath):
        self.relpath = relpath
        if relpath.startswith("@gen/"):
            self.path = relpath
            self.text = GENERATED[relpath]
        else:
            self.path = os.path.join(VERIF, relpath[7:]) if relpath.startswith("@verif/") else os.path.join(SRC, relpath)
            self.text = open(self.path, encoding="utf-8").read()
        self.sha256 = hashlib.sha256(self.text.encode()).hexdigest()
        self.tree = ast.parse(self.text)
        self.functions = {}
        self.classes = {}
        self.consts = {}
        self.externs = {}
        self.module_assigns = {}
        self.imports = {}
        for n in self.tree.body:
            if isinstance(n, ast.ImportFrom) and n.module and n.level == 0:
                base = n.module.replace(".", "/")
                for cand in (base + "/__init__.py", base + ".py"):
                    if os.path.exists(os.path.join(SRC, cand)):
                        for al in n.names:
                            self.imports[al.asname or al.name] = ("from", cand, al.name)
                        break
            if isinstance(n, ast.FunctionDef):
                self.functions[n.name] = n
            elif isinstance(n, ast.ClassDef):
                self.classes[n.name] = ClassInfo(n)
            elif isinstance(n, (ast.Assign, ast.AnnAssign)):
                tgt = n.targets[0] if isinstance(n, ast.Assign) else n.target
                if isinstance(tgt, ast.Name) and n.value is not None:
                    self.module_assigns[tgt.id] = n.value
                    try:
                        self.consts[tgt.id] = ast.literal_eval(n.value)
                    except Exception:
                        pass

        # a module-level name that some function re-binds through `global` is state, not a constant
        self.mutated_globals = set()
        for n in ast.walk(self.tree):
            if isinstance(n, ast.Global):
                self.mutated_globals.update(n.names)
        # a module-level container that some function mutates in place (item store, augmented assignment, a mutating method) is state
        MUT = {"append", "extend", "insert", "remove", "pop", "clear", "sort", "reverse", "add", "discard", "update", "setdefault", "popitem",
               "__setitem__", "__delitem__", "intersection_update", "difference_update", "symmetric_difference_update"}
        module_names = set(self.module_assigns)
        for fn in [n for n in ast.walk(self.tree) if isinstance(n, (ast.FunctionDef, ast.AsyncFunctionDef))]:
            local = {a.arg for a in fn.args.args + fn.args.kwonlyargs}
            for n in ast.walk(fn):
                tgt = None
                if isinstance(n, (ast.Assign, ast.AugAssign, ast.Delete)):
                    tgts = n.targets if isinstance(n, (ast.Assign, ast.Delete)) else [n.target]
                    for t in tgts:
                        if isinstance(t, ast.Subscript) and isinstance(t.value, ast.Name):
                            tgt = t.value.id
                        if tgt and tgt in module_names and tgt not in local:
                            self.mutated_globals.add(tgt)
                elif isinstance(n, ast.Call) and isinstance(n.func, ast.Attribute) and n.func.attr in MUT and isinstance(n.func.value, ast.Name):
                    if n.func.value.id in module_names and n.func.value.id not in local:
                        self.mutated_globals.add(n.func.value.id)
        for name in self.mutated_globals:
            self.consts.pop(name, None)

    def unit_text(self, qual):
        node = self.find(qual)
        return ast.get_source_segment(self.text, node)

    def find(self, qual):
        if "." in qual:
            c, m = qual.split(".", 1)
            ci = self.classes[c]
            if m in ci.methods:
                return ci.methods[m]
            raise KeyError(qual)
        return self.functions[qual]


def load(relpaths):
    return {p: ModuleInfo(p) for p in relpaths}
