"""C02 - type inference is sound: no value is narrowed or re-typed on the device (necessary lemmas).

  I1  per arm of _infer_expr_type: with the children typed by the induction hypothesis (names of each type label in the
      environment), the label inferred for an expression covers the type CPython's value has (bool <= int <= float; String;
      list[..]) - enumerated over expression forms x operand labels on the real function;
  I2  _merge_return_types is the least upper bound of its argument labels or a ValueError (all subsets of labels);
  I3  declarations are stable: a name declared with C type T that later receives a value whose inferred label is not
      covered by T is rejected or re-declared wide enough; a name first assigned inside a branch/loop/try keeps its type
      when hoisted; functions return the join of their return expressions (probe scripts, IR-level);
  I4  _cpp_type / _default_value_for_type are total and consistent on every label."""
import ast
import itertools
import re
import time

from pyvc.contracts import Registry

PROPERTY = {
    "level": "other",
    "expect_min_obligations": 20,
    "explanation": "Necessary per-arm lemmas decided by the finite back end on the real functions (inference arms x operand labels against "
                   "CPython's own result types; return-type merging over all label subsets; totality of the C type mapping) and IR-level "
                   "probes for declaration stability and hoisting. That a declared type covers every value later flowing into the name "
                   "through all scopes and call sites is a whole-program flow property: not decided, only probed.",
    "trusted_base": ["CPython's type() of evaluated sample expressions as the definition of Python's result type"],
    "assumptions": ["operand samples: int 3/-2, float 2.5, bool True, str 'ab', list[int] [1,2]; result types do not depend on the particular value "
                    "except where the sample set exercises it (division, power with negative exponent, and/or returning an operand)"],
}

ORDER = {"bool": 0, "int": 1, "float": 2}
SAMPLES = {"int": ["3", "-2"], "float": ["2.5"], "bool": ["True"], "String": ["'ab'"], "list[int]": ["[1, 2]"]}
NAMES = {"int": "vi", "float": "vf", "bool": "vb", "String": "vs", "list[int]": "vl"}
ENVV = {"vi": 3, "vf": 2.5, "vb": True, "vs": "ab", "vl": [1, 2]}
ENVF = {"vi": 0, "vf": 0.0, "vb": False, "vs": "", "vl": []}          # the falsy representative of each label


def label_of(value):
    if isinstance(value, bool):
        return "bool"
    if isinstance(value, int):
        return "int"
    if isinstance(value, float):
        return "float"
    if isinstance(value, str):
        return "String"
    if isinstance(value, list):
        inner = {label_of(x) for x in value} or {"int"}
        return "list[" + (sorted(inner, key=lambda t: ORDER.get(t, 9))[-1]) + "]"
    return "?"


def covers(inferred, actual):
    if inferred == actual:
        return True
    if inferred in ORDER and actual in ORDER:
        return ORDER[inferred] >= ORDER[actual]
    if inferred.startswith("list[") and actual.startswith("list["):
        return covers(inferred[5:-1], actual[5:-1])
    return False


def build():
    return Registry()


def forms():
    ops = ["+", "-", "*", "/", "//", "%", "**"]
    out = []
    labs = list(NAMES)
    for a in labs:
        na = NAMES[a]
        out += [f"-{na}", f"+{na}", f"not {na}", f"abs({na})", f"int({na})", f"float({na})", f"str({na})", f"bool({na})", f"len({na})",
                f"{na} if vb else {na}", f"[{na}, {na}]", f"f'{{{na}}}'"]
        for b in labs:
            nb = NAMES[b]
            out += [f"{na} {o} {nb}" for o in ops]
            out += [f"{na} < {nb}", f"{na} == {nb}", f"{na} and {nb}", f"{na} or {nb}", f"max({na}, {nb})", f"min({na}, {nb})",
                    f"{na} if vb else {nb}", f"{na} + {nb} * 2", f"({na} + {nb}) / 2"]
    out += ["max(vi, vi, vf)", "min(vi, vi, vf)", "max(vi, vb, vi, vf)", "max(vf, vi, vi)", "min(vi, vf, vi)", "abs(vi - vf)", "max(vi, vi, vi)",
            "vl[0]", "vl[0] + vf", "vi / 2", "vi // 2", "7 / 2", "2 ** -1", "vi ** vi", "round(vf)", "vi + True"]
    return out


def i1(P, out):
    t0 = time.time()
    vt = {v: k for k, v in NAMES.items()}
    bad, n, skipped = [], 0, 0
    for src in forms():
        actuals = []
        for envv in (ENVV, ENVF):
            try:
                val = eval(src, {"__builtins__": {"abs": abs, "int": int, "float": float, "str": str, "bool": bool, "len": len, "max": max,
                                                  "min": min, "round": round}}, dict(envv))
                actuals.append((label_of(val), val))
            except Exception:
                pass                  # Python itself raises: not a well-defined expression on these values
        if not actuals:
            skipped += 1
            continue
        node = ast.parse(src, mode="eval").body
        try:
            inferred = P._infer_expr_type(node, dict(vt))
        except Exception as ex:
            continue                  # refusing is sound
        n += 1
        for actual, val in actuals:
            if not covers(inferred, actual):
                bad.append({"expr": src, "inferred": inferred, "python_type": actual, "python_value": repr(val)})
                break
    inv = {v: k for k, v in NAMES.items()}

    def arm_of(src):
        node = ast.parse(src, mode="eval").body
        key = type(node).__name__
        if hasattr(node, "op"):
            key += ":" + type(node.op).__name__
        elif isinstance(node, ast.Call):
            key += ":" + getattr(node.func, "id", "")
        ops = [inv[n.id] for n in ast.walk(node) if isinstance(n, ast.Name) and n.id in inv]
        # operand labels in source order (ast.walk is breadth-first: re-sort by position)
        ops = [inv[n.id] for n in sorted((n for n in ast.walk(node) if isinstance(n, ast.Name) and n.id in inv),
                                         key=lambda n: (n.lineno, n.col_offset))]
        return key, ",".join(ops).replace("[", "-").replace("]", "")
    # one obligation per inference arm x operand labels, so a new unsound combination is reported apart from the known ones
    cells = {}
    for src in forms():
        key, ops = arm_of(src)
        cells.setdefault((key, ops), {"n": 0, "bad": []})
        cells[(key, ops)]["n"] += 1
    for b in bad:
        cells[arm_of(b["expr"])]["bad"].append(b)
    for (key, ops), c in sorted(cells.items()):
        g = c["bad"]
        out.append({"name": f"C02/I1/{key}({ops})", "status": "discharged" if not g else "sat", "backend": "enum",
                    "where": f"inference arm {key} on operand labels ({ops}): inferred label covers CPython's result type ({c['n']} forms)",
                    "time": round((time.time() - t0) / max(1, len(cells)), 5), "replay": {"unsound": g[:5]}, "replay_confirmed": bool(g)})
    _S["i1"] = {"forms": n, "python_raises": skipped}


def i2(P, out):
    t0 = time.time()
    labels = ["bool", "int", "float", "String", "void"]
    bad, n = [], 0
    for r in range(1, 4):
        for combo in itertools.product(labels, repeat=r):
            has_void = "void" in combo
            types = [c for c in combo if c != "void"]
            n += 1
            try:
                got = P._merge_return_types(list(types), has_void)
            except ValueError:
                got = "ValueError"
            nums = [t for t in types if t in ORDER]
            if not types:
                want = {"void"}
            elif has_void:
                want = {"ValueError", "void"} if not types else {"ValueError"}
            elif "String" in types and nums:
                want = {"ValueError"}
            elif "String" in types:
                want = {"String"}
            else:
                want = {max(nums, key=lambda t: ORDER[t])}
            if got not in want:
                bad.append({"returns": list(combo), "merged": got, "expected": sorted(want)})
    out.append({"name": "C02/I2/merge-return-types-is-join-or-error", "status": "discharged" if not bad else "sat", "backend": "enum",
                "where": f"_merge_return_types over all {n} label tuples up to length 3 is the join (bool<=int<=float), String only with String, else ValueError",
                "time": round(time.time() - t0, 3), "replay": {"bad": bad[:6]}, "replay_confirmed": bool(bad)})


def i4(P, out):
    labels = ["bool", "int", "float", "String", "void", "list[int]", "list[float]", "list[String]", "list[bool]", "list[list[int]]"]
    bad = []
    for lab in labels:
        try:
            ct = P._cpp_type(lab)
            dv = P._default_value_for_type(ct)
            if lab != "void" and not (isinstance(ct, str) and ct and isinstance(dv, str) and dv != ""):
                bad.append({"label": lab, "c_type": ct, "default": dv})
        except Exception as ex:
            bad.append({"label": lab, "error": str(ex)})
    expect = {"bool": "bool", "int": "int", "float": "float", "String": "String", "list[float]": "__redu_list<float>"}
    for lab, ct in expect.items():
        if P._cpp_type(lab) != ct:
            bad.append({"label": lab, "c_type": P._cpp_type(lab), "expected": ct})
    out.append({"name": "C02/I4/cpp-type-and-default-total", "status": "discharged" if not bad else "sat", "backend": "enum",
                "where": "every type label maps to its C++ type and has a default initialiser", "time": 0.0, "replay": {"bad": bad},
                "replay_confirmed": bool(bad)})


# I3: declaration stability / hoisting / function results - IR-level probes
HEAD = "from Reduino.Communication import SerialMonitor\nmon = SerialMonitor(9600)\n"
I3_PROBES = {
    # name -> (script, {name: set of acceptable C types}) ; a ValueError is also acceptable (rejected)
    "int-then-float-top-level": (HEAD + "x = 1\nx = 2.5\nmon.write(x)\n", {"x": {"float"}}),
    "float-then-int": (HEAD + "x = 2.5\nx = 1\nmon.write(x)\n", {"x": {"float"}}),
    "int-then-str": (HEAD + "x = 1\nx = 'a'\nmon.write(x)\n", {"x": {"String"}}),
    "hoisted-float-from-branch": (HEAD + "c = 1\nif c > 0:\n    g = 2.5\nelse:\n    g = 1.5\nmon.write(g)\n", {"g": {"float"}}),
    "hoisted-str-from-branch": (HEAD + "c = 1\nif c > 0:\n    s = 'on'\nelse:\n    s = 'off'\nmon.write(s)\n", {"s": {"String"}}),
    "hoisted-float-from-loop": (HEAD + "for i in range(2):\n    acc = 0.5\nmon.write(1)\n", {"acc": {"float"}}),
    "hoisted-in-function-a": (HEAD + "c = 1\nif c > 0:\n    warm = 1\ndef steps(k):\n    if k > 0:\n        amount = 2\n    else:\n        amount = 3\n    return amount\n"
                                     "def gain(k):\n    if k > 0:\n        amount = 2.5\n    else:\n        amount = 0.5\n    return amount\nmon.write(steps(1))\nmon.write(gain(1))\n",
                              {"gain.amount": {"float"}, "steps.amount": {"int"}}),
    "function-returns-join": (HEAD + "def pick(k):\n    if k > 0:\n        return 1\n    return 2.5\nmon.write(pick(1))\n", {"pick()": {"float"}}),
    "param-rebound-to-float": (HEAD + "def ease(level):\n    level = level * 0.5\n    return level\nmon.write(ease(3))\n", {"ease.level": {"float"}, "ease()": {"float"}}),
    "param-rebound-call-on-assignment-rhs": (HEAD + "def ease(level):\n    level = level * 0.5\n    return level\nhalf = ease(3)\nn = 4\nother = ease(n)\nmon.write(half)\nmon.write(other)\n",
                                             {"ease.level": {"float"}, "ease()": {"float"}, "half": {"float"}, "other": {"float"}}),
    "two-call-signatures": (HEAD + "def scale(value):\n    return value * 2\na = scale(3)\nb = scale(1.5)\nmon.write(a)\nmon.write(b)\n",
                            {"a": {"int"}, "b": {"float"}}),
    "str-param": (HEAD + "def shout(msg):\n    return msg + '!'\nt = shout('hi')\nmon.write(t)\n", {"shout.msg": {"String"}, "shout()": {"String"}, "t": {"String"}}),
    "return-join-across-branches-assigned": (HEAD + "def pick(k):\n    if k > 0:\n        return 1\n    return 2.5\nr = pick(1)\nmon.write(r)\n",
                                             {"pick()": {"float"}, "r": {"float"}}),
    "hoisted-from-while": (HEAD + "k = 0\nwhile k < 2:\n    level = 0.25\n    k = k + 1\nmon.write(k)\n", {"level": {"float"}}),
    "hoisted-from-try": (HEAD + "try:\n    ratio = 0.5\nexcept Exception:\n    ratio = 1.5\nmon.write(ratio)\n", {"ratio": {"float"}}),
    "swap-keeps-types": (HEAD + "a = 1\nb = 2.5\nc = 3\nd = 4.5\nc, d = d, c\nmon.write(c)\n", {"a": {"int"}, "b": {"float"}}),
    "augmented-widening": (HEAD + "total = 0\ntotal += 0.5\nmon.write(total)\n", {"total": {"float"}}),
    "division-result": (HEAD + "a = 7\nb = 2\nq = a / b\nmon.write(q)\n", {"q": {"float"}}),
    "int-after-float-in-branch": (HEAD + "x = 1\nc = 1\nif c > 0:\n    x = 0.5\nmon.write(x)\n", {"x": {"float"}}),
}


def declared_types(prog):
    """name -> C type as declared in the IR (globals, setup/loop bodies, functions: params, locals, return type)"""
    out = {}

    def walk(nodes, prefix=""):
        for n in nodes or []:
            tn = type(n).__name__
            if tn == "VarDecl":
                out.setdefault(prefix + n.name, set()).add(n.c_type)
            for attr in ("body", "else_body", "try_body"):
                if hasattr(n, attr) and isinstance(getattr(n, attr), list):
                    walk(getattr(n, attr), prefix)
            for br in getattr(n, "branches", []) or []:
                walk(br.body, prefix)
            for h in getattr(n, "handlers", []) or []:
                walk(getattr(h, "body", []), prefix)
    walk(getattr(prog, "global_decls", []))
    walk(prog.setup_body)
    walk(prog.loop_body)
    for fn in getattr(prog, "functions", []) or []:
        out.setdefault(fn.name + "()", set()).add(fn.return_type)
        for pname, ptype in getattr(fn, "params", []) or []:
            out.setdefault(f"{fn.name}.{pname}", set()).add(ptype)
        walk(fn.body, fn.name + ".")
    return out


def i3(P, E, out):
    for name, (src, want) in I3_PROBES.items():
        t0 = time.time()
        problems = []
        try:
            prog = P.parse(src)
            E.emit(prog)
            got = declared_types(prog)
            for var, okset in want.items():
                have = got.get(var)
                if have is None:
                    problems.append(f"{var}: no declaration found in the IR ({sorted(got)})")
                elif not have <= okset:
                    problems.append(f"{var} declared as {sorted(have)}, the values it receives need {sorted(okset)}")
        except ValueError as ex:
            pass                         # rejected with an error: allowed
        except Exception as ex:
            problems.append(f"{type(ex).__name__}: {ex}")
        out.append({"name": f"C02/I3/{name}", "status": "discharged" if not problems else "sat", "backend": "enum",
                    "where": f"probe '{name}': declared C types cover the values assigned (or the script is rejected)",
                    "time": round(time.time() - t0, 3), "replay": {"script": src, "problems": problems}, "replay_confirmed": bool(problems)})


def extra_obligations(mods, tier, seed):
    from contracts.c08 import real
    P, E = real("Reduino.transpile.parser"), real("Reduino.transpile.emitter")
    out = []
    i1(P, out)
    i2(P, out)
    i4(P, out)
    i3(P, E, out)
    i5(out, tier)
    return out


_S = {}


def extra_evidence():
    return {"inference_grid": _S.get("i1"), "i3_probes": sorted(I3_PROBES), "bounded": PROPERTY.get("bounded", [])}


# ------------------------------------------------------------------------------------------------ I5: no implicit narrowing in the emitted C++
I5_SCRIPTS = {
    "tuple-retype-then-read": "level = 7.25\nlevel, previous = 0, level\nmon.write(previous)\nmon.write(level)\n",
    "tuple-mixed-new-names": "a, b = 1, 2.5\nc, d = b, a\nmon.write(c)\nmon.write(d)\n",
    "swap-float-float": "a = 1.5\nb = 2.5\na, b = b, a\nmon.write(a)\nmon.write(b)\n",
    "tuple-in-loop": "x = 0.5\ny = 2\nwhile True:\n    p, q = x * 2, y + 1\n    mon.write(p)\n    mon.write(q)\n    x = x + 0.25\n    sleep(1)\n",
    "clamp-helper-mixed-returns": "def clamp(v, hi):\n    if v > hi:\n        return hi\n    return v\nr = clamp(3.75, 10)\nmon.write(r)\ns = clamp(12.5, 10)\nmon.write(s)\n",
    "guard-helper-int-then-float": "def part(n):\n    if n == 0:\n        return 0\n    return n / 4\nr = part(3)\nmon.write(r)\nz = part(0)\nmon.write(z)\n",
    "helper-bool-and-float-returns": "def pick(k):\n    if k > 2:\n        return True\n    return 0.75\nr = pick(1)\nmon.write(r)\n",
    "float-from-branch-join": "c = 1\nif c > 0:\n    g = 1.5\nelse:\n    g = 2\nmon.write(g)\n",
    "float-accumulator-in-for": "acc = 0.0\nfor i in range(4):\n    acc = acc + i * 0.5\nmon.write(acc)\n",
    "float-first-assigned-in-for": "for i in range(3):\n    half = i * 0.5\nmon.write(half)\n",
    "string-first-assigned-in-for": "for i in range(2):\n    tag = 'n' + str(i)\nmon.write(tag)\n",
    "float-first-assigned-in-for-in-function": "def last_half(n):\n    for i in range(n):\n        h = i * 0.5\n    return h\nr = last_half(3)\nmon.write(r)\n",
    "float-first-assigned-in-for-in-main-loop": "while True:\n    for i in range(3):\n        part = i * 0.25\n    mon.write(part)\n    sleep(1)\n",
    "param-float-division-result": "def ratio(a, b):\n    return a / b\nr = ratio(7, 2)\nmon.write(r)\n",
    "list-of-floats-element": "ws = [0.5, 1.5]\nk = 1\nv = ws[k]\nmon.write(v)\n",
    "abs-min-max-float": "x = -2.5\na = abs(x)\nb = max(x, 1)\nc = min(x, 0.5)\nmon.write(a)\nmon.write(b)\nmon.write(c)\n",
    "conditional-float-int": "c = 1\nv = 2.5 if c > 0 else 1\nmon.write(v)\n",
    "augmented-division-on-parameter": "def halve(v):\n    v /= 2\n    return v\nr = halve(3)\nmon.write(r)\n",
    "augmented-float-on-parameter": "def grow(v):\n    v += 0.5\n    v *= 1.5\n    return v\nr = grow(2)\nmon.write(r)\n",
    "augmented-float-on-loop-hoisted": "for i in range(3):\n    acc = i\n    acc += 0.25\n    mon.write(acc)\n",
    "for-hoisted-int-then-float-same-body": "for i in range(4):\n    ratio = i\n    ratio = ratio / 4\n    mon.write(ratio)\n",
    "for-hoisted-int-then-float-in-function": "def ramp(n):\n    for i in range(n):\n        level = i\n        level = level * 0.375\n    return level\nr = ramp(6)\nmon.write(r)\n",
    "while-hoisted-int-then-float": "k = 0\nwhile k < 3:\n    part = k\n    part = part / 2\n    mon.write(part)\n    k = k + 1\n",
    "float-assigned-int-in-while-that-does-not-run": "level = 2.5\nk = 5\nwhile k < 3:\n    level = 1\n    k = k + 1\nreading = level\nmon.write(reading)\ndef twice(v):\n    return v * 2\nd = twice(level)\nmon.write(d)\n",
    "float-assigned-int-in-for-that-does-not-run": "duty = 1.5\nfor i in range(0):\n    duty = 3\nout = duty\nmon.write(out)\n",
    "max-min-three-operands-float-last": "a = 1\nb = 2\nx = 2.45\nm = max(a, b, x)\nn = min(a + 3, b + 4, x)\nmon.write(m)\nmon.write(n)\ndef top(p, q, r):\n    return max(p, q, r)\nt = top(1, 2, 12.5)\nmon.write(t)\n",
    "int-then-float-reassign": "x = 1\nx = 2.5\nmon.write(x)\n",
    "integer-literal-numerator-division": "n = 4\ncount = 8\ninv = 1 / n\npct = 100 / count\nq = 1 / 4\nmon.write(inv)\nmon.write(pct)\nmon.write(q)\ndef frac(k):\n    return 1 / k\nmon.write(frac(8))\nmon.write(3 / n + 1)\nmon.write(7 / (n + 1))\n",
    "division-in-arguments-and-conditions": "n = 8\ndef show(v):\n    mon.write(v)\nshow(1 / n)\nshow(n / 16)\nif 1 / n > 0.1:\n    mon.write(1)\nsleep(25 / n)\n",
    "parameter-named-like-an-int-global": "gain = 3\ndef amplify(gain):\n    return gain * 2\nmon.write(amplify(1.5))\nmon.write(gain)\n",
    "parameter-named-like-the-callers-parameter": "def area(n):\n    return n * n\ndef ring(n):\n    return area(n / 2)\nmon.write(ring(3))\n",
    "recursive-call-with-a-retyped-argument": "def halve(x):\n    if x < 1:\n        return x\n    return halve(x / 2)\nmon.write(halve(5))\n",
    "parameter-named-like-a-string-global": "label = 'abc'\ndef twice(label):\n    return label * 2\nmon.write(twice(2.5))\nmon.write(label)\n",
    "recursive-helper-with-a-mixed-signature": "def grow(n, r):\n    if n < 1:\n        return r\n    return grow(n - 1, r * 1.5)\nr0 = 1.5\nmon.write(grow(3, r0))\ndef acc(n, t, s):\n    if n < 1:\n        return t\n    return acc(n - 1, t + s, s)\ns0 = 0.5\nmon.write(acc(3, 0, s0))\n",
    "annotated-parameter-called-with-a-float": "def scale(v: int, n: int):\n    return v * n\ng = 2.5\nmon.write(scale(g, 2))\nmon.write(scale(3, 2))\ndef mean(a: int, b: int):\n    return (a + b) / 2\nmon.write(mean(g, 1))\n",
    "subscript-of-a-nested-list-or-call-result": "grid = [[0.5, 1.25], [2.5, 4.25]]\nv = grid[1][1]\nmon.write(v)\ndef pair(x):\n    return [x, x * 2.5]\nw = pair(1.5)[1]\nmon.write(w)\ndef corner(g):\n    return g[1][0]\nmon.write(corner(grid))\nrow = grid[0]\nmon.write(row[1])\n",
    "float-of-a-string-keeps-its-fraction": "raw = '2.75'\nv = float(raw)\nmon.write(v)\nn = int('42')\nmon.write(n)\ndef conv(s):\n    return float(s) * 2\nmon.write(conv('1.25'))\nw = float('3')\nmon.write(w)\nparts = ['0.5', '7']\nmon.write(float(parts[0]) + int(parts[1]))\n",
    "helper-unpacks-floats-into-names-that-are-module-ints": "lo = 7\nhi = 9\ndef span(v):\n    lo, hi = v / 2, v * 1.5\n    return hi - lo\nmon.write(span(3))\nmon.write(lo)\nmon.write(hi)\ndef pair(v):\n    [lo, hi] = [v + 0.25, v + 0.75]\n    return lo + hi\nmon.write(pair(1))\nmon.write(lo + hi)\n",
    "helper-binds-a-module-name-only-in-nested-blocks": "level = 3\ndef pick(v):\n    if v > 1:\n        level = v / 4\n    else:\n        level = 0.5\n    return level * 2\nmon.write(pick(3))\nmon.write(level)\ndef acc(n):\n    for i in range(n):\n        level = i + 0.5\n    return level\nmon.write(acc(2))\nmon.write(level)\n",
    "helper-local-hoisted-with-the-type-of-a-module-name": "c = 1\nif c > 0:\n    y = 1\nmon.write(y)\ndef h(n):\n    k = 0\n    while k < n:\n        y = 0.5\n        k = k + 1\n    return y\nmon.write(h(2))\n",
    "helper-calls-a-helper-defined-later": "def outer(v):\n    return inner(v) + 1\ndef inner(v):\n    return v * 0.5\nmon.write(outer(3))\n",
    "list-literal-with-an-int-before-the-first-float": "xs = [1, 2.5, 3]\nmon.write(xs[1])\nmon.write(xs[2] + 0.5)\ndef mid(v):\n    ys = [0, v, 0.25]\n    return ys[1] + ys[2]\nmon.write(mid(1.5))\nzs = [2, 4, 0.5, 8]\nmon.write(zs[2] * 3)\n",
    "numeric-list-rebound-to-another-element-type": "xs = [1, 2]\nxs = [1.5, 2.5]\nmon.write(xs[0])\nmon.write(xs[1])\n",
    "dc-motor-queries-stored-in-variables": "from Reduino.Actuators import DCMotor\nm = DCMotor(2, 3, 5)\nm.set_speed(0.5)\nv = m.get_speed()\nw = m.get_applied_speed()\nhalf = v / 2\nmon.write(v)\nmon.write(w)\nmon.write(half)\n",
    "servo-queries-stored-in-variables": "from Reduino.Actuators import Servo\ns = Servo(9)\ns.write(45.5)\na = s.read()\nu = s.read_us()\nd = a + 0.25\nmon.write(a)\nmon.write(u)\nmon.write(d)\n",
    "queries-returned-from-helpers": "from Reduino.Actuators import DCMotor\nm = DCMotor(2, 3, 5)\ndef speed():\n    return m.get_speed()\ndef twice():\n    s = m.get_applied_speed()\n    return s * 2\nm.set_speed(0.25)\nmon.write(speed())\nmon.write(twice())\n",
    "comprehension-target-reuses-a-float-name": "k = 0.5\nxs = [k * 2 for k in range(4)]\ny = k + 1\nz = y * 3\nmon.write(xs[3])\nmon.write(k)\nmon.write(y)\nmon.write(z)\n",
    "comprehension-target-reuses-a-float-parameter": "def spread(k):\n    steps = [k * 10 for k in range(3)]\n    return k + steps[2]\nw = spread(0.25)\nmon.write(w)\n",
    "comprehension-target-reuses-a-string-name": "k = 'ab'\nxs = [k + 1 for k in range(3)]\nt = k + 'c'\nmon.write(xs[2])\nmon.write(t)\n",
    "helper-called-with-int-and-float-signatures": "def scale(v, k):\n    r = v * k\n    return r\ndef boost(x):\n    return scale(x, 3) + 1\ngain = 1.5\na = scale(3, 2)\nb = scale(gain, 2)\nc = scale(gain, gain)\n"
                                                   "d = boost(4)\ne = boost(gain)\nmon.write(a)\nmon.write(b)\nmon.write(c)\nmon.write(d)\nmon.write(e)\n",
    "helper-float-signature-first-then-int": "def twice(v):\n    return v * 2\ng = 0.75\nf = twice(g)\ni = twice(4)\nmon.write(f)\nmon.write(i)\n",
    "helper-signatures-differ-in-second-parameter-only": "def mix(a, b):\n    return a + b\nh = 0.5\np = mix(1, 2)\nq = mix(1, h)\nmon.write(p)\nmon.write(q)\n",
}


def narrowing_sites(cpp):
    """implicit float->integer conversions at initialisations, assignments and returns of the emitted sketch (clang's AVR AST)"""
    from cxxvc import cxx2py
    tu, _ = cxx2py.run_clang(cpp)
    sites = []

    def in_main(n, st):
        loc = n.get("loc", {})
        f = loc.get("file") or loc.get("spellingLoc", {}).get("file") or loc.get("expansionLoc", {}).get("file")
        if f is not None:
            st["file"] = f
        return st.get("file", "").endswith("unit.cpp")

    def strip(e):
        while e and e.get("kind") in ("ParenExpr", "ExprWithCleanups", "MaterializeTemporaryExpr", "CXXBindTemporaryExpr"):
            e = (e.get("inner") or [None])[0]
        return e

    def narrowing(e):
        e = strip(e)
        return bool(e) and e.get("kind") == "ImplicitCastExpr" and e.get("castKind") == "FloatingToIntegral"

    def walk(n, fn):
        k = n.get("kind")
        line = (n.get("loc") or {}).get("line") or (n.get("range", {}).get("begin") or {}).get("line")
        if k == "VarDecl" and n.get("inner") and not n.get("name", "").startswith("__redu") and narrowing(n["inner"][-1]):
            sites.append(f"{fn}: initialisation of `{n.get('type', {}).get('qualType')} {n.get('name')}` from a float expression")
        if k in ("BinaryOperator", "CompoundAssignOperator") and n.get("opcode") in ("=", "+=", "-=", "*=", "/=") and len(n.get("inner", [])) == 2:
            lhs = strip(n["inner"][0])
            name = (lhs.get("referencedDecl") or {}).get("name", "?") if lhs else "?"
            if not name.startswith("__") and (narrowing(n["inner"][1]) or (k == "CompoundAssignOperator" and "float" in str(n.get("computeResultType", {}).get("qualType", ""))
                                                                          and "int" in str(n.get("type", {}).get("qualType", "")))):
                sites.append(f"{fn}: assignment `{name} {n.get('opcode')} <float expression>` into a {n.get('type', {}).get('qualType')}")
        if k == "CallExpr" and n.get("inner"):
            callee = strip(n["inner"][0])
            while callee and callee.get("kind") == "ImplicitCastExpr":
                callee = strip((callee.get("inner") or [None])[0])
            cname = ((callee or {}).get("referencedDecl") or {}).get("name", "")
            if cname in user_functions:
                for i, a in enumerate(n["inner"][1:]):
                    if narrowing(a):
                        sites.append(f"{fn}: call `{cname}(...)`: a float expression is passed for integer parameter #{i + 1}")
        if k == "ReturnStmt" and n.get("inner") and narrowing(n["inner"][0]):
            sites.append(f"{fn}: return of a float expression from a function returning an integer type")
        for ch in n.get("inner", []) or []:
            walk(ch, fn)
    st = {}
    user_functions = set()
    for n in tu.get("inner", []):
        if in_main(n, st) and n.get("kind") == "FunctionDecl" and not n.get("name", "").startswith("__redu") and n.get("name") not in ("setup", "loop"):
            user_functions.add(n.get("name"))
    st = {}
    for n in tu.get("inner", []):
        if not in_main(n, st):
            continue
        if n.get("kind") == "FunctionDecl" and not n.get("name", "").startswith("__redu"):
            walk(n, n.get("name"))
        elif n.get("kind") == "VarDecl":
            walk(n, "<global>")
    return sorted(set(sites))


def _i5_one(args):
    name, src = args
    from progs.diff import transpile, differential
    cpp, err = transpile(src)
    if cpp is None:
        return name, "rejected", err, src
    try:
        sites = narrowing_sites(cpp)
    except Exception as ex:
        return name, "does-not-compile", str(ex)[-300:], src
    if sites:
        return name, "narrows", sites, src
    # values are compared numerically: a joined (float) type prints 10 as 10.00, which is what the property asks for
    r = differential(src, 2, strict_kinds=False)
    if r["verdict"] not in ("same", "python-undefined"):
        return name, r["verdict"], r.get("first_difference") or r.get("detail"), src
    return name, "ok", None, src


def i5(out, tier="quick"):
    import multiprocessing as mp
    from progs.corpus import CORPUS, HEAD as CH
    scripts = {f"typed/{k}": CH + v for k, v in I5_SCRIPTS.items()}
    scripts.update({f"core/{k}": v for k, v in CORPUS.items()})
    if tier == "thorough":
        from progs.gen import programs
        for gs in (0, 1, 2):
            scripts.update({f"core/{k}": v for k, v in programs(150, seed=gs).items()})
    t0 = time.time()
    with mp.Pool(16) as pool:
        res = pool.map(_i5_one, sorted(scripts.items()), chunksize=1)
    per = round((time.time() - t0) / max(1, len(res)), 3)
    for name, verdict, detail, src in res:
        if name.startswith("core/") and verdict not in ("narrows",):
            verdict_ok = True         # behaviour of the core corpus is C01's obligation; here only narrowing is judged
        else:
            verdict_ok = verdict in ("ok", "rejected")
        out.append({"name": f"C02/I5/{name}", "status": "discharged" if verdict_ok else "sat", "backend": "clang-avr+fwsim", "bounded": True,
                    "where": f"script '{name}': no float expression is stored into / returned as an integer in the emitted C++ (clang AST); typed scripts also print CPython's values [{verdict}]",
                    "time": per, "replay": {"script": src, "verdict": verdict, "detail": detail}, "replay_confirmed": not verdict_ok})
    PROPERTY["bounded"] = [{"check": "I5 narrowing scan + differential", "bound": f"{len(scripts)} scripts"}]
