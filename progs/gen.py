"""Seeded generator of well-defined scripts of the documented core subset (for the bounded differentials of C01/C02/C05).

The grammar deliberately stays inside the region where the pinned tree is believed correct: it never produces the forms
recorded as known findings (// and % , and/or as values, len() of a value that is re-bound or appended to, subscript
assignment, min/max/abs of calls, names first assigned inside the main loop body and read in a later pass, re-typing of a
declared name, range() with more than one argument, try/except).  Everything else of the subset is mixed freely: typed
variables (int, float, str), arithmetic, comparisons, conditional expressions, if/elif/else, counted while loops with
break/continue, for-range loops, helper functions, tuple assignments, augmented assignments, f-strings, fixed lists."""
import random

HEAD = ("from Reduino.Communication import SerialMonitor\n"
        "from Reduino.Utils import sleep\n"
        "mon = SerialMonitor(9600)\n")


class Gen:
    def __init__(self, seed):
        self.r = random.Random(seed)
        self.ints = ["a", "b", "c"]
        self.floats = ["x", "y"]
        self.strs = ["s", "t"]
        self.funcs = []          # (name, nparams, kind)
        self.tmp = 0

    # ---------------------------------------------------------------- expressions
    def int_atom(self, depth, extra=()):
        r = self.r
        pool = self.ints + list(extra)
        c = r.random()
        if c < 0.45 or depth <= 0:
            return r.choice(pool) if r.random() < 0.7 else str(r.randint(0, 9))
        if c < 0.55 and self.funcs:
            f = r.choice([f for f in self.funcs if f[2] == "int"] or [None])
            if f:
                return f"{f[0]}(" + ", ".join(self.int_expr(depth - 1, extra) for _ in range(f[1])) + ")"
        if c < 0.62:
            return f"xs[{r.randint(0, 2)}]"
        if c < 0.70:
            return f"abs({self.int_expr(depth - 1, extra)})"
        if c < 0.78:
            return f"max({self.int_expr(depth - 1, extra)}, {self.int_expr(depth - 1, extra)})" if r.random() < 0.5 else \
                   f"min({self.int_expr(depth - 1, extra)}, {self.int_expr(depth - 1, extra)})"
        if c < 0.84:
            return f"int({self.float_expr(depth - 1)})" if r.random() < 0.5 else f"len({r.choice(['s0', 'xs'])})"
        if c < 0.90:
            return f"({self.int_expr(depth - 1, extra)} if {self.cond(depth - 1, extra)} else {self.int_expr(depth - 1, extra)})"
        if c < 0.94:
            # arithmetic on comparison results (bool operands, int result)
            return f"(({self.int_atom(0, extra)} > {self.int_atom(0, extra)}) + ({self.int_atom(0, extra)} <= {r.randint(0, 9)}))"
        if c < 0.97:
            return f"ys[{r.randint(0, 1)}]"
        return f"(-{r.choice(pool)})"

    def int_expr(self, depth=2, extra=()):
        r = self.r
        if depth <= 0 or r.random() < 0.35:
            return self.int_atom(depth, extra)
        op = r.choice(["+", "-", "*", "+", "-"])
        l, rr = self.int_atom(depth - 1, extra), self.int_atom(depth - 1, extra)
        if op == "*":
            rr = str(r.randint(0, 4)) if r.random() < 0.7 else rr
        e = f"{l} {op} {rr}"
        return f"({e})" if r.random() < 0.5 else e

    def float_atom(self, depth):
        r = self.r
        c = r.random()
        if c < 0.5 or depth <= 0:
            return r.choice(self.floats) if r.random() < 0.7 else r.choice(["0.5", "1.25", "2.0", "0.75", "3.5"])
        if c < 0.65:
            return f"float({self.int_atom(depth - 1)})"
        if c < 0.8:
            return f"({self.int_atom(depth - 1)} / {r.choice(['2', '4', '8'])})"
        if c < 0.9 and [f for f in self.funcs if f[2] == "float"]:
            f = r.choice([f for f in self.funcs if f[2] == "float"])
            return f"{f[0]}({self.float_expr(depth - 1)})"
        return f"abs({self.float_expr(depth - 1)})"

    def float_expr(self, depth=2):
        r = self.r
        if depth <= 0 or r.random() < 0.4:
            return self.float_atom(depth)
        op = r.choice(["+", "-", "*"])
        l, rr = self.float_atom(depth - 1), self.float_atom(depth - 1)
        if op == "*":
            rr = r.choice(["0.5", "2.0", "1.5"])
        return f"({l} {op} {rr})"

    def str_expr(self, depth=1, extra=()):
        r = self.r
        c = r.random()
        if c < 0.3:
            return r.choice(self.strs)
        if c < 0.5:
            return repr(r.choice(["k", "v=", "on", "off", "-", "n "]))
        if c < 0.7:
            return f"{r.choice(self.strs)} + str({self.int_atom(depth, extra)})"
        if c < 0.85:
            return "f'" + r.choice(["a", "n", "v"]) + "={" + self.int_atom(0, extra) + "} " + r.choice(["x", "f"]) + "={" + r.choice(self.floats) + "};'"
        return f"{repr(r.choice(['<', '[']))} + {r.choice(self.strs)} + {repr(r.choice(['>', ']']))}"

    def cond(self, depth=1, extra=()):
        r = self.r
        c = r.random()
        cmpop = r.choice(["<", "<=", ">", ">=", "==", "!="])
        if c < 0.5:
            base = f"{self.int_atom(depth, extra)} {cmpop} {self.int_atom(depth, extra)}"
        elif c < 0.65:
            base = f"{r.choice(self.floats)} {r.choice(['<', '>', '<=', '>='])} {self.float_atom(0)}"
        elif c < 0.72:
            base = f"{r.randint(0, 3)} <= {self.int_atom(0, extra)} < {r.randint(4, 12)}"
        elif c < 0.75:
            mid = self.int_atom(1, extra)
            base = f"{r.randint(-2, 3)} < {mid} <= {r.randint(4, 30)}" if r.random() < 0.6 else f"0 <= {mid} + 1 < {r.randint(5, 20)} <= 40"
        elif c < 0.85:
            base = f"{r.choice(self.strs)} == {repr(r.choice(['k', 'on']))}"
        else:
            base = f"not {self.int_atom(0, extra)} {cmpop} {self.int_atom(0, extra)}"
        if depth > 0 and r.random() < 0.3:
            return f"{base} {r.choice(['and', 'or'])} {self.cond(depth - 1, extra)}"
        return base

    # ---------------------------------------------------------------- statements
    def stmt(self, depth, in_loop, extra=(), in_func=False):
        r = self.r
        c = r.random()
        ind = "    "
        if c < 0.18:
            v = r.choice(self.ints)
            return [f"{v} = {self.int_expr(2, extra)}"]
        if c < 0.26:
            v = r.choice(self.floats)
            return [f"{v} = {self.float_expr(2)}"]
        if c < 0.32:
            v = r.choice(self.strs)
            return [f"{v} = {self.str_expr(1, extra)}"]
        if c < 0.40:
            v = r.choice(self.ints)
            return [f"{v} {r.choice(['+=', '-=', '*='])} {r.randint(1, 3)}"]
        if c < 0.42:
            v = r.choice(self.ints)
            rhs = r.choice([f"{self.int_atom(0, extra)} if {self.cond(0, extra)} else {r.randint(0, 3)}", f"{self.int_atom(0, extra)} > {self.int_atom(0, extra)}",
                            f"({self.int_atom(0, extra)} if {self.cond(0, extra)} else 1)"])
            return [f"{v} {r.choice(['+=', '-='])} {rhs}"]
        if c < 0.44 and not in_func:
            return r.choice([["zs.append(7)", "zs.remove(7)"], ["names.append('k')", "names.remove('k')"], ["ws.append(2.5)", "ws.remove(2.5)"], ["zs.append(a)", "zs.remove(a)"]])
        if c < 0.46:
            a, b = r.sample(self.ints, 2)
            return [f"{a}, {b} = {b}, {a}"] if r.random() < 0.5 else [f"{a}, {b} = {b}, {a} + {b}"]
        if c < 0.60:
            what = r.random()
            if what < 0.5:
                return [f"mon.write({self.int_expr(2, extra)})"]
            if what < 0.7:
                return [f"mon.write({self.float_expr(1)})"]
            if what < 0.85:
                return [f"mon.write({self.str_expr(1, extra)})"]
            return [f"mon.write({self.cond(1, extra)})"]
        if c < 0.64 and not in_func:
            return [f"sleep({r.choice([1, 5, 10, 25])})"]
        if depth <= 0:
            return [f"mon.write({r.choice(self.ints + list(extra))})"]
        if c < 0.78:
            out = [f"if {self.cond(1, extra)}:"] + [ind + l for l in self.block(depth - 1, in_loop, extra, in_func)]
            if r.random() < 0.4:
                out += [f"elif {self.cond(1, extra)}:"] + [ind + l for l in self.block(depth - 1, in_loop, extra, in_func)]
            if r.random() < 0.6:
                out += ["else:"] + [ind + l for l in self.block(depth - 1, in_loop, extra, in_func)]
            return out
        if c < 0.90:
            self.tmp += 1
            iv = f"i{self.tmp}"
            body = self.block(depth - 1, True, tuple(extra) + (iv,), in_func)
            if r.random() < 0.3:
                body = [f"if {iv} == {r.randint(0, 3)}:", ind + r.choice(["break", "continue"])] + body
            return [f"for {iv} in range({r.randint(1, 4)}):"] + [ind + l for l in body]
        self.tmp += 1
        kv = f"k{self.tmp}"
        body = self.block(depth - 1, True, tuple(extra) + (kv,), in_func)
        pre = [f"{kv} = {kv} + 1"]
        if r.random() < 0.3:
            pre += [f"if {kv} == {r.randint(1, 3)}:", ind + r.choice(["break", "continue"])]
        return [f"{kv} = 0", f"while {kv} < {r.randint(1, 4)}:"] + [ind + l for l in pre + body]

    def block(self, depth, in_loop, extra=(), in_func=False):
        out = []
        for _ in range(self.r.randint(1, 3)):
            out += self.stmt(depth, in_loop, extra, in_func)
        return out

    def func(self, k):
        r = self.r
        kind = r.choice(["int", "int", "float"])
        name = f"f{k}"
        if kind == "int":
            n = r.randint(1, 2)
            params = ["p", "q"][:n]
            saved, self.ints = self.ints, params
            body = []
            if r.random() < 0.5:
                if r.random() < 0.3:
                    body += [f"if({params[0]} > {r.randint(0, 5)}):", f"    return({self.int_expr(1)})"]
                else:
                    body += [f"if {params[0]} > {r.randint(0, 5)}:", f"    return {self.int_expr(1)}"]
            if r.random() < 0.4:
                body += [f"w = {self.int_expr(1)}", "for j in range(2):", f"    w = w + {params[0]}", f"return w + {self.int_expr(1)}"]
            else:
                body += [f"return {self.int_expr(2)}"]
            self.ints = saved
        else:
            n, params = 1, ["u"]
            saved, self.floats = self.floats, params
            saved_i, self.ints = self.ints, ["3", "2"]
            body = [f"return {self.float_expr(2)}"]
            self.floats, self.ints = saved, saved_i
        self.funcs.append((name, n, kind))
        return [f"def {name}({', '.join(params)}):"] + ["    " + l for l in body]

    def program(self):
        r = self.r
        lines = []
        saved_funcs = []
        nf = r.randint(0, 2)
        # the fixed list and string are bound before the helpers (a helper reading a global list that is bound later is a recorded finding)
        lines += ["xs = [%d, %d, %d]" % (r.randint(0, 9), r.randint(0, 9), r.randint(0, 9)), "s0 = " + repr(r.choice(["ab", "hello", "q"]))]
        lo, hi, st = r.choice([(0, 4, 1), (1, 8, 3), (9, 0, -2), (10, 0, -3), (7, 1, -4), (2, 13, 5)])
        lines += [f"ys = [i * {r.randint(1, 3)} + {r.randint(0, 2)} for i in range({lo}, {hi}, {st})]" if r.random() < 0.7 else f"ys = [i + 1 for i in range({r.randint(2, 5)})]",
                  "zs = [4, 5, 6]", "ws = [0.5, 1.5]", "names = ['a', 'b']"]
        two_sig = r.random() < 0.5
        if two_sig:
            lines += ["def scale2(v, k):", "    w = v * k", f"    if w > {r.randint(2, 9)}:  # clamp", f"        w = w - {r.randint(1, 2)}", "    return w"]
        # helper functions do not call helpers defined later: generate each with an empty helper table
        for k in range(nf):
            fs, self.funcs = self.funcs, []
            lines += self.func(k)
            saved_funcs += self.funcs
            self.funcs = fs
        lines += [f"a = {r.randint(0, 9)}", f"b = {r.randint(1, 9)}", f"c = {r.randint(0, 5)}", f"x = {r.choice(['0.5', '1.5', '2.25'])}", f"y = {r.choice(['0.25', '3.0'])}",
                  f"s = {repr(r.choice(['k', 'on']))}", f"t = {repr(r.choice(['v', 'zz']))}"]
        self.funcs = saved_funcs
        for _ in range(r.randint(0, 3)):
            lines += self.stmt(2, False)
        if two_sig:
            lines += ["g0 = 1.5", f"mon.write(scale2({r.randint(1, 4)}, {r.randint(1, 3)}))", "mon.write(scale2(g0, 2))", "mon.write(scale2(g0, g0))"]
        lines.append(r.choice(["while True:", "while True:", "while True:  # main loop", "while True :", "while(True):"]))
        body = []
        for _ in range(r.randint(2, 5)):
            body += self.stmt(2, True)
        body += ["mon.write(a)", "mon.write(x)", "mon.write(len(zs) + len(names))", "mon.write(ws[0] + zs[0])", f"sleep({r.choice([1, 10])})"]
        # trailing comments on a few lines (never inside a string)
        body = [l + "  # note" if (r.random() < 0.15 and "'" not in l and '"' not in l) else l for l in body]
        lines += ["    " + l for l in body]
        return HEAD + "\n".join(lines) + "\n"


def programs(n, seed=0):
    return {f"gen-{seed}-{k}": Gen(seed * 100003 + k).program() for k in range(n)}


if __name__ == "__main__":
    import sys
    print(Gen(int(sys.argv[1]) if len(sys.argv) > 1 else 1).program())
