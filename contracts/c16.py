"""C16 - buzzer protocol (firmware only: the host Buzzer is a placeholder, so the specification is the abstract event
program written from the property text).  Fragments come from the real emitter and are translated by cxx2py."""
import json
import os
import re
import time

from pyvc.contracts import Registry
from cxxvc import harvest as H

FW = "@gen/c16_fw.py"
N = H.node

PROPERTY = {
    "level": "proof",
    "expect_min_obligations": 300,
    "explanation": "Every buzzer fragment of the real emitter (play_tone with/without duration, stop, beep, sweep, and the melody "
                   "fragment for each of the seven tunes) is proved, via cxx2py, against a ghost tone protocol (trace of tone/noTone/"
                   "delay events, `sounding` flag, tone counter, total delay): a requested frequency <= 0 never starts a tone; every "
                   "call with a duration ends silent with state false and current frequency 0; beep(times=n, f>0) starts exactly n "
                   "tones with the on/off gaps and no trailing gap; sweep starts `steps` tones (all frequencies positive), its "
                   "frequency is affine in the step index (hence monotone), starts on start_hz when steps>1 and ends on end_hz, and "
                   "its total delay does not exceed the duration; each melody's trace equals the list computed from the emitter's "
                   "own score table with durations beats*60000/tempo; current/last frequency shadow variables are what the getters "
                   "read. All arguments symbolic (incl. zero and negative), run-time-error obligations included.",
    "trusted_base": ["pyvc", "cxx2py translation of clang's AVR AST", "mock Arduino.h", "z3"],
    "assumptions": [
        "A-ARDUINO: tone(pin, f) starts a tone, noTone(pin) stops it, delay(ms) waits ms (untimed tone() calls)",
        "A-REAL: float arithmetic as reals; score-table frequencies compared after the device's own rounding to whole Hz",
        "arguments within the range of their C types (durations below 2^32 ms, frequencies below 65535 Hz) - the emitted "
        "float-to-integer conversions are undefined behaviour outside (reported as rte obligations under these preconditions)",
        "which IR node and argument values a script line produces is C08's obligation; the melody name is validated by the parser "
        "(finite back end below)",
    ],
}

S, CUR, LAST = "__buzzer_state_bz", "__buzzer_current_bz", "__buzzer_last_bz"
MELODIES = ["success", "error", "startup", "notify", "alarm", "scale_c", "siren"]


def engine_setup(eng):
    import z3
    from pyvc import events
    from pyvc.sym import V, as_int_term, as_real_term
    events.install(eng)
    Ev = events.Event
    ES = z3.SeqSort(Ev)

    def u(kind, a, b):
        return z3.Unit(Ev.Ev(z3.IntVal(kind), a, b))

    if "beep" not in _REC:
        f = z3.RecFunction("beep_trace", ES, z3.RealSort(), z3.RealSort(), z3.IntSort(), z3.IntSort(), z3.IntSort(), z3.IntSort(), ES)
        e0, p, hz, on, off, n, k = z3.Const("e0", ES), z3.Real("p"), z3.Real("hz"), z3.Int("on"), z3.Int("off"), z3.Int("n"), z3.Int("k")
        # k completed iterations of: tone hz; [delay on]; noTone; [delay off unless this was the last of n]
        body = z3.Concat(f(e0, p, hz, on, off, n, k - 1), u(3, p, hz))
        body = z3.If(on > 0, z3.Concat(body, u(2, z3.ToReal(on), z3.RealVal(0))), body)
        body = z3.Concat(body, u(4, p, z3.RealVal(0)))
        body = z3.If(z3.And(k < n, off > 0), z3.Concat(body, u(2, z3.ToReal(off), z3.RealVal(0))), body)
        z3.RecAddDefinition(f, [e0, p, hz, on, off, n, k], z3.If(k <= 0, e0, body))
        _REC["beep"] = f

    def beep_trace(e, st, e0, p, hz, on, off, n, k):
        return V("seq", _REC["beep"](e0.t, as_real_term(p), as_real_term(hz), as_int_term(on), as_int_term(off), as_int_term(n),
                                     as_int_term(k)), "event")
    eng.spec_funcs.update(beep_trace=beep_trace)


_REC = {}
_B = {}


def melody_events(table, beat="(60000.0 / ite(tempo > 0, tempo, DEFAULT))", default=240.0):
    """expected trace of a melody, from the emitter's own score table (a python list of spec strings)"""
    out = []
    for f, b in table:
        d = f"trunc({b} * {beat})"
        if f <= 0:
            out.append("ev(4, __pin, 0)")
            out.append(("delay", d))
        else:
            out.append(f"ev(3, __pin, {int(float(f) + 0.5)})")
            out.append(("delay", d))
            out.append("ev(4, __pin, 0)")
    return out


def build():
    from contracts.c08 import real
    reg = Registry()
    for g, k in (("E", "seq:event"), ("sounding", "bool"), ("tones", "int"), ("delayed", "int")):
        reg.ghost(g, k)
    bz = [N("BuzzerDecl", name="bz", pin="__pin", default_frequency="__deff")]
    o = {"__pin": "int", "__deff": "float"}
    specs = {
        "tone": dict(decls=bz, nodes=[N("BuzzerPlayTone", name="bz", frequency="frequency", duration_ms="duration_ms")],
                     opaque=dict(o, frequency="float", duration_ms="float")),
        "tone_nodur": dict(decls=bz, nodes=[N("BuzzerPlayTone", name="bz", frequency="frequency")], opaque=dict(o, frequency="float")),
        "stop": dict(decls=bz, nodes=[N("BuzzerStop", name="bz")], opaque=dict(o)),
        "beep": dict(decls=bz, nodes=[N("BuzzerBeep", name="bz", frequency="frequency", on_ms="on_ms", off_ms="off_ms", times="times")],
                     opaque=dict(o, frequency="float", on_ms="float", off_ms="float", times="int")),
        "beep_default": dict(decls=bz, nodes=[N("BuzzerBeep", name="bz", on_ms="on_ms", off_ms="off_ms", times="times")],
                             opaque=dict(o, on_ms="float", off_ms="float", times="int")),
        "sweep": dict(decls=bz, nodes=[N("BuzzerSweep", name="bz", start_hz="start_hz", end_hz="end_hz", duration_ms="duration_ms", steps="steps")],
                      opaque=dict(o, start_hz="float", end_hz="float", duration_ms="float", steps="int")),
    }
    # literal (constant-folded) frequencies: the emitter decides on the Python value at emit time, so the value classes None / 0 / 0.0 /
    # negative / positive are separate fragments (a frequency <= 0 must never start a tone)
    for lname, lit in (("zero_f", 0.0), ("zero_i", 0), ("neg", -5.0)):
        specs["beep_lit_" + lname] = dict(decls=bz, nodes=[N("BuzzerBeep", name="bz", frequency=lit, on_ms="on_ms", off_ms="off_ms", times="times")],
                                          opaque=dict(o, on_ms="float", off_ms="float", times="int"))
        specs["tone_lit_" + lname] = dict(decls=bz, nodes=[N("BuzzerPlayTone", name="bz", frequency=lit, duration_ms="duration_ms")],
                                          opaque=dict(o, duration_ms="float"))
    for m in MELODIES:
        specs["melody_" + m] = dict(decls=bz, nodes=[N("BuzzerMelody", name="bz", melody=m, tempo="tempo")], opaque=dict(o, tempo="float"))
    em = H.emit_all(specs)
    texts, info = [], {}
    for name, sp in specs.items():
        if "error" in em[name]:
            raise RuntimeError(f"emitter failed on {name}: {em[name]['error']}")
        tr = H.translate_fragment(name, em[name]["cpp"], sp["opaque"])
        info[name] = tr
        texts.append(tr["py"])
    assert H.register_module("c16_fw.py", texts) == FW
    for g, k in {S: "bool", CUR: "real", LAST: "real"}.items():
        reg.globs[(FW, g)] = k
    # ---- assumed Arduino contracts
    reg.unit("tone", FW, extern=True, public=False, params={"pin": "int", "frequency": "int"},
             modifies=["ghost.E", "ghost.sounding", "ghost.tones"],
             ensures=["E == old(E) + [ev(3, pin, frequency)]", "sounding == True", "tones == old(tones) + 1"])
    reg.unit("noTone", FW, extern=True, public=False, params={"pin": "int"}, modifies=["ghost.E", "ghost.sounding"],
             ensures=["E == old(E) + [ev(4, pin, 0)]", "sounding == False"])
    reg.unit("delay", FW, extern=True, public=False, params={"ms": "int"}, modifies=["ghost.E", "ghost.delayed"],
             ensures=["E == old(E) + [ev(2, ms, 0)]", "delayed == old(delayed) + ms"])
    MOD = [f"glob.{S}", f"glob.{CUR}", f"glob.{LAST}", "ghost.E", "ghost.sounding", "ghost.tones", "ghost.delayed"]
    PIN = ["0 <= __pin <= 255"]
    FR = lambda f: [f"{f} < 65000"]           # float -> unsigned int conversion in range (UB otherwise)
    DUR = lambda d: [f"0 <= {d} < 4000000000"]
    silent = ["sounding == False", f"{S} == False", f"{CUR} == 0"]
    HZ = lambda f: f"trunc({f} + 0.5)"
    # play_tone(frequency, duration)
    reg.unit(info["tone"]["pyname"], FW, params=dict(info["tone"]["params"]), public=False,
             requires=PIN + FR("frequency") + DUR("duration_ms"), modifies=MOD,
             ensures=silent + ["implies(frequency <= 0, tones == old(tones))", "implies(frequency > 0, tones == old(tones) + 1)",
                               f"implies(frequency > 0, {LAST} == frequency)", f"implies(frequency <= 0, {LAST} == old({LAST}))",
                               "delayed == old(delayed) + trunc(duration_ms)",
                               f"implies(frequency > 0 and trunc(duration_ms) > 0, E == old(E) + [ev(3, __pin, {HZ('frequency')}), "
                               "ev(2, trunc(duration_ms), 0), ev(4, __pin, 0)])"])
    # play_tone(frequency)  - no duration: keeps sounding
    reg.unit(info["tone_nodur"]["pyname"], FW, params=dict(info["tone_nodur"]["params"]), public=False,
             requires=PIN + FR("frequency"), modifies=MOD,
             ensures=["implies(frequency <= 0, tones == old(tones) and sounding == False and " + f"{S} == False and {CUR} == 0 and {LAST} == old({LAST}))",
                      f"implies(frequency > 0, tones == old(tones) + 1 and sounding and {S} and {CUR} == frequency and {LAST} == frequency "
                      f"and E == old(E) + [ev(3, __pin, {HZ('frequency')})])", "delayed == old(delayed)"])
    reg.unit(info["stop"]["pyname"], FW, params=dict(info["stop"]["params"]), public=False, requires=PIN, modifies=MOD,
             ensures=silent + ["tones == old(tones)", f"{LAST} == old({LAST})", "E == old(E) + [ev(4, __pin, 0)]"])
    # beep
    for name, freq in (("beep", "frequency"), ("beep_default", None)):
        tr = info[name]
        py = tr["py"]
        m = re.search(r"__redu_freq_target = (.+)", py)
        f_expr = freq or "FREQ_SRC"
        src_expr = m.group(1).strip() if m else "?"
        fexp = freq if freq else f"old({LAST})"     # beep() without a frequency repeats the last frequency (initially the default)
        reg.unit(tr["pyname"], FW, params=dict(tr["params"]), public=False,
                 requires=PIN + FR(fexp.replace("old(", "(")) + DUR("on_ms") + DUR("off_ms") + ["0 <= times <= 32000"] + ([] if freq else ["__deff < 65000"]),
                 modifies=MOD,
                 loops={0: {"inv": ["0 <= __redu_i <= __redu_times", "k == __redu_i", "__redu_times == times",
                                    f"__redu_freq_target == max(0, {fexp})", "__redu_on_ms == trunc(on_ms)", "__redu_off_ms == trunc(off_ms)",
                                    f"tones == old(tones) + ite({fexp} > 0, k, 0)",
                                    f"implies({fexp} > 0, E == beep_trace(old(E), __pin, {HZ(fexp)}, trunc(on_ms), trunc(off_ms), times, k))",
                                    "implies(k > 0, sounding == False and " + f"{S} == False and {CUR} == 0)",
                                    f"implies(k == 0, sounding == old(sounding) and {S} == old({S}) and {CUR} == old({CUR}))",
                                    f"implies(k == 0 or not ({fexp} > 0), {LAST} == old({LAST}))"]}},
                 ensures=[f"tones == old(tones) + ite({fexp} > 0, times, 0)",
                          "implies(times > 0, sounding == False and " + f"{S} == False and {CUR} == 0)",
                          f"implies({fexp} > 0, E == beep_trace(old(E), __pin, {HZ(fexp)}, trunc(on_ms), trunc(off_ms), times, times))",
                          f"implies({fexp} > 0 and times > 0, {LAST} == {fexp})",
                          # "get_last_frequency reports the tone last sounded": a call that sounds nothing leaves it alone
                          f"implies(not ({fexp} > 0 and times > 0), {LAST} == old({LAST}))"],
                 note=f"frequency source in the emitted text: {src_expr}")
    for lname in ("zero_f", "zero_i", "neg"):
        tr = info["beep_lit_" + lname]
        reg.unit(tr["pyname"], FW, params=dict(tr["params"]), public=False,
                 requires=PIN + DUR("on_ms") + DUR("off_ms") + ["0 <= times <= 32000", f"{LAST} < 65000", "__deff < 65000"], modifies=MOD,
                 loops={0: {"inv": ["0 <= __redu_i <= __redu_times", "k == __redu_i", "__redu_times == times", "tones == old(tones)", "__redu_freq_target <= 0", f"{LAST} == old({LAST})"]}},
                 ensures=["tones == old(tones)", f"{LAST} == old({LAST})"], note=f"beep with the literal frequency class '{lname}' (<= 0): no tone is started")
        tr = info["tone_lit_" + lname]
        reg.unit(tr["pyname"], FW, params=dict(tr["params"]), public=False, requires=PIN + DUR("duration_ms") + [f"{LAST} < 65000"], modifies=MOD,
                 ensures=["tones == old(tones)", f"{LAST} == old({LAST})"], note=f"play_tone with the literal frequency class '{lname}' (<= 0): no tone is started")
    # sweep
    F = lambda i: "(max(0, start_hz) + (max(0, end_hz) - max(0, start_hz)) * ite(local_steps == 1, 1.0, real(" + i + ") / (local_steps - 1)))"
    reg.unit(info["sweep"]["pyname"], FW, params=dict(info["sweep"]["params"]), public=False,
             requires=PIN + FR("start_hz") + FR("end_hz") + DUR("duration_ms") + ["-32000 <= steps <= 32000"], modifies=MOD,
             loops={0: {"inv": ["0 <= __redu_i <= __redu_steps", "k == __redu_i", "__redu_steps == max(1, steps)",
                                "__redu_start == max(0, start_hz)", "__redu_end == max(0, end_hz)", "__redu_total == trunc(duration_ms)",
                                "__redu_step_delay == real(__redu_total) / __redu_steps",
                                "delayed == old(delayed) + k * trunc(__redu_step_delay)",
                                "implies(start_hz > 0 and end_hz > 0, tones == old(tones) + k)",
                                f"implies(k > 0 and start_hz > 0 and end_hz > 0, {LAST} == __redu_start + (__redu_end - __redu_start) * "
                                "ite(__redu_steps == 1, 1.0, real(k - 1) / (__redu_steps - 1)))"]}},
             ensures=silent + ["delayed - old(delayed) <= trunc(duration_ms)", "delayed >= old(delayed)",
                               "implies(start_hz > 0 and end_hz > 0, tones == old(tones) + max(1, steps))",
                               f"implies(start_hz > 0 and end_hz > 0, {LAST} == end_hz)"],
             lemmas=[("sweep-frequency-is-affine-hence-monotone", {"a": "real", "b": "real", "n": "int", "i": "int"},
                      "implies(n >= 2 and 0 <= i and i + 1 <= n - 1, "
                      "ite(b >= a, a + (b - a) * (real(i) / (n - 1)) <= a + (b - a) * (real(i + 1) / (n - 1)), "
                      "a + (b - a) * (real(i) / (n - 1)) >= a + (b - a) * (real(i + 1) / (n - 1))))"),
                     ("sweep-starts-on-start", {"a": "real", "b": "real", "n": "int"}, "implies(n >= 2, a + (b - a) * (real(0) / (n - 1)) == a)")])
    # melodies: expected trace from the emitter's own score table
    Em = real("Reduino.transpile.emitter")
    for mname in MELODIES:
        tr = info["melody_" + mname]
        tab = Em._BUZZER_MELODIES[mname]
        default = float(tab["tempo"])
        beat = f"(60000.0 / ite(tempo > 0, tempo, {default}))"
        evs = []
        for f, b in tab["sequence"]:
            d = f"trunc({float(b)} * {beat})"
            if f <= 0:
                evs += ["ev(4, __pin, 0)", f"ev(2, {d}, 0)"]
            else:
                evs += [f"ev(3, __pin, {int(float(f) + 0.5)})", f"ev(2, {d}, 0)", "ev(4, __pin, 0)"]
        n_tones = sum(1 for f, _ in tab["sequence"] if f > 0)
        last_f = [f for f, _ in tab["sequence"] if f > 0][-1]
        reg.unit(tr["pyname"], FW, params=dict(tr["params"]), public=False,
                 requires=PIN + ["tempo < 1000000", "tempo > 0.001 or tempo <= 0"], modifies=MOD,
                 ensures=silent + [f"tones == old(tones) + {n_tones}", "E == old(E) + [" + ", ".join(evs) + "]",
                                   f"abs({LAST} - {float(last_f)}) < 0.001"],
                 note=f"score table of '{mname}' read from the emitter: {len(tab['sequence'])} notes, default tempo {default}")
    _B["info"] = {k: {"sha": v["sha"], "prims": v["prims"]} for k, v in info.items()}
    _B["replay"] = {v["pyname"]: (v, specs[k]["opaque"], specs[k].get("where", "setup")) for k, v in info.items()}
    return reg


def replay_model(o):
    """replay a counterexample of a fragment contract on the really emitted C++ (cxxvc/fwreplay.py)"""
    from cxxvc import fwreplay
    from pyvc import loader
    unit = o["name"].split("/")[1].split("[")[0]
    if unit not in _B.get("replay", {}):
        return None
    tr, opaque, where = _B["replay"][unit]
    reg = build()
    mods = loader.load(sorted({f for (f, _) in reg.contracts if f != "<extern>"}))
    return fwreplay.replay(reg, mods, FW, unit, tr, opaque, where, o.get("model") or {}, o["name"], engine_setup=engine_setup)


def extra_obligations(mods, tier, seed):
    from contracts.c08 import real
    P, Em = real("Reduino.transpile.parser"), real("Reduino.transpile.emitter")
    out = []
    t0 = time.time()
    table = set(Em._BUZZER_MELODIES)
    ok_names, bad = [], []
    for nm in sorted(table | {"nope", "SUCCESS", "Siren", ""}):
        src = f"from Reduino.Actuators import Buzzer\nb = Buzzer(8)\nb.melody(\"{nm}\")\n"
        try:
            prog = P.parse(src)
            node = [n for n in prog.setup_body if type(n).__name__ == "BuzzerMelody"]
            accepted = bool(node)
            canon = node[0].melody if node else None
        except ValueError:
            accepted, canon = False, None
        expect = nm.lower() in table
        if accepted != expect or (accepted and canon not in table):
            bad.append({"name": nm, "accepted": accepted, "canonical": canon})
    out.append({"name": "C16/arms/melody-name-validated-against-score-table", "status": "discharged" if not bad else "sat",
                "backend": "enum", "where": "parser accepts exactly the names of the emitter's score table (case-insensitively) and passes the table key on",
                "time": round(time.time() - t0, 3), "replay": {"bad": bad}, "replay_confirmed": bool(bad)})
    src = ("from Reduino.Actuators import Buzzer\nfrom Reduino.Communication import SerialMonitor\nm = SerialMonitor(9600)\nb = Buzzer(8)\n"
           "m.write(b.get_frequency())\nm.write(b.get_last_frequency())\nm.write(b.get_state())\n")
    cpp = Em.emit(P.parse(src))
    ok = all(x in cpp for x in ("__buzzer_current_b", "__buzzer_last_b", "__buzzer_state_b"))
    out.append({"name": "C16/arms/getters-read-shadow-variables", "status": "discharged" if ok else "sat", "backend": "enum", "bounded": True,
                "where": "get_frequency/get_last_frequency/get_state are the shadow variables the fragments maintain", "time": 0.0,
                "replay": {"cpp": cpp[-400:]}, "replay_confirmed": not ok})
    # the named tunes are data: the reference for "exactly the named tune's notes" and the default tempi is the score table of the pinned
    # tree (contracts/c16_scores.json); the melody fragment contracts above are stated against the emitter's live table
    golden = json.load(open(os.path.join(os.path.dirname(os.path.abspath(__file__)), "c16_scores.json")))
    live = {k: {"tempo": float(v["tempo"]), "sequence": [[float(f), float(b)] for f, b in v["sequence"]]} for k, v in Em._BUZZER_MELODIES.items()}
    diffs = [k for k in sorted(set(golden) | set(live)) if golden.get(k) != live.get(k)]
    out.append({"name": "C16/arms/score-table-is-the-pinned-one", "status": "discharged" if not diffs else "sat", "backend": "enum",
                "where": "the emitter's melody table (notes, beats, default tempo of all tunes) equals the pinned reference", "time": 0.0,
                "replay": {"tunes_that_differ": diffs, "live": {k: live.get(k) for k in diffs[:2]}, "pinned": {k: golden.get(k) for k in diffs[:2]}},
                "replay_confirmed": bool(diffs)})
    from progs.concat import concat_obligations
    out += concat_obligations("C16", {"Buzzer": ("bz = Buzzer(8)", ["bz.play_tone(440)", "bz.play_tone(330, 100)", "bz.stop()", "bz.beep(500, on_ms=20, off_ms=10, times=2)",
                                                                      "bz.sweep(200, 400, duration_ms=100, steps=4)", "bz.melody('success')", "bz.beep(times=0)"])})
    from progs.concat import scope_obligations
    out += scope_obligations("C16", {"Buzzer": ("bz = Buzzer(8)", ["bz.play_tone(440)", "bz.play_tone(330, 100)", "bz.stop()", "bz.beep(500, on_ms=20, off_ms=10, times=2)",
                                                                      "bz.sweep(200, 400, duration_ms=100, steps=4)", "bz.melody('success')", "bz.beep(times=0)"])})
    # parser arms: a non-integer literal argument behaves like the same value in a variable (tone/delay trace on the firmware mock);
    # the fragment contracts above take the IR node as given, this ties the node to the source text
    import multiprocessing as mp
    import contracts.c08 as c8
    del c8.LITVAR_JOBS[:]
    c8.spacing_and_literal_obligations(P)
    jobs = [j for j in c8.LITVAR_JOBS if j[0].startswith("Buzzer.")]
    with mp.Pool(8) as pool:
        res = pool.map(c8._litvar_one, jobs, chunksize=1)
    for name, verdict, detail, a, b in res:
        okv = verdict in ("same", "rejected")
        out.append({"name": f"C16/arms/{name}/literal-behaves-like-variable", "status": "discharged" if okv else "sat", "backend": "enum+fwsim", "bounded": True,
                    "where": f"{name}: literal and variable argument give the same tone/delay trace [{verdict}]", "time": 0.2,
                    "replay": {"literal_script": a[-160:], "detail": detail}, "replay_confirmed": not okv})
    # a buzzer call sounds on the pin its object was declared with at that point of the program (a name re-bound to another pin)
    PINS = {"redeclared-on-another-pin": "bz = Buzzer(8)\nbz.play_tone(440, 10)\nbz = Buzzer(9)\nbz.play_tone(330, 10)\nbz.beep(500, on_ms=5, off_ms=5, times=1)\n",
            "redeclared-in-main-loop": "bz = Buzzer(8)\nwhile True:\n    bz.play_tone(440, 10)\n    bz = Buzzer(9)\n    bz.play_tone(330, 10)\n    bz = Buzzer(8)\n    sleep(5)\n",
            "two-buzzers-swapping-names": "a = Buzzer(4)\nb = Buzzer(5)\na.play_tone(100, 5)\nb.play_tone(200, 5)\na = Buzzer(5)\nb = Buzzer(4)\na.play_tone(300, 5)\nb.play_tone(400, 5)\n"}
    for pname, body in PINS.items():
        from progs.diff import transpile as _tr
        from fwsim.run import run_sketch as _run
        want = []

        class _Bz:
            def __init__(self, pin=8, *a, **k):
                self.pin = pin

            def play_tone(self, f, d=None):
                want.append(f"T:{self.pin}:{int(f)}")

            def beep(self, f=None, **k):
                want.extend([f"T:{self.pin}:{int(f)}"] * int(k.get("times", 1)))

        class _Stop(Exception):
            pass
        cnt = {"k": 0}

        def _sleep(ms):
            cnt["k"] += 1
            if cnt["k"] >= 2:
                raise _Stop()
        try:
            exec(compile(body, "<pins>", "exec"), {"Buzzer": _Bz, "sleep": _sleep})
        except _Stop:
            pass
        cpp, err = _tr("from Reduino.Actuators import Buzzer\nfrom Reduino.Utils import sleep\n" + body)
        prob = None
        if cpp is not None:
            r = _run(cpp, passes=2)
            if not r.get("compiled"):
                prob = "does not compile: " + r.get("errors", "")[-200:]
            else:
                got = [e for e in r["events"] if e.startswith("T:")]
                if got != want:
                    k = next((i for i, (x, y) in enumerate(zip(got, want)) if x != y), min(len(got), len(want)))
                    prob = f"tone #{k}: firmware {got[k:k + 3]}, the program says {want[k:k + 3]} (pin:frequency)"
        out.append({"name": f"C16/exec/declared-pin/{pname}", "status": "discharged" if not prob else "sat", "backend": "enum+fwsim", "bounded": True,
                    "where": f"script '{pname}': every tone sounds on the pin its buzzer was declared with at that point of the program", "time": 0.3,
                    "replay": {"script": body, "problem": prob}, "replay_confirmed": bool(prob)})
    # every constructor spelling declares a buzzer that stop() silences: open-ended tone, stop, state query (tone/noTone events and the
    # printed state; the default pin is 8)
    for cname, ctor, pin in (("no-arguments", "Buzzer()", 8), ("positional-pin", "Buzzer(7)", 7), ("keyword-pin", "Buzzer(pin=6)", 6),
                             ("default-frequency-only", "Buzzer(default_frequency=500)", 8), ("pin-and-frequency", "Buzzer(5, 600)", 5), ("blank-in-parentheses", "Buzzer( )", 8)):
        from progs.diff import transpile as _tr2
        from fwsim.run import run_sketch as _run2
        body = (f"from Reduino.Actuators import Buzzer\nfrom Reduino.Communication import SerialMonitor\nmon = SerialMonitor(9600)\nb = {ctor}\nb.play_tone(440)\nmon.write(b.get_state())\n"
                "b.stop()\nmon.write(b.get_state())\nb.play_tone(330)\nb.stop()\n")
        want = [f"T:{pin}:440", "S:1", f"N:{pin}", "S:0", f"T:{pin}:330", f"N:{pin}"]
        cpp, err = _tr2(body)
        prob = None
        if cpp is None:
            prob = None if "default_frequency" in ctor or " " in ctor else f"rejected: {err}"     # (a spelling the parser refuses is not a silent drop)
        else:
            r = _run2(cpp, passes=0)
            if not r.get("compiled"):
                prob = "does not compile: " + r.get("errors", "")[-200:]
            else:
                got = [("S:1" if e in ("S:true", "S:True") else "S:0" if e in ("S:false", "S:False") else e) for e in r["events"] if e[:2] in ("T:", "N:", "S:")]
                if got != want:
                    prob = f"events {got}, the program says {want}"
        out.append({"name": f"C16/exec/constructor-spelling/{cname}", "status": "discharged" if not prob else "sat", "backend": "enum+fwsim", "bounded": True,
                    "where": f"`b = {ctor}`: an open-ended tone sounds on pin {pin}, stop() silences it and get_state() follows", "time": 0.3,
                    "replay": {"script": body, "problem": prob}, "replay_confirmed": bool(prob)})
    # the way an argument is WRITTEN does not matter: the same value written as a name, in parentheses, through abs()/int()/max() or as
    # arithmetic gives the same tone / delay trace (a call the statement recogniser does not match must not vanish)
    jobs = []
    CALLS = {"play_tone(f)": "bz.play_tone({f})", "play_tone(f,n)": "bz.play_tone({f}, {n})", "beep": "bz.beep(frequency={f}, on_ms={n}, off_ms={n}, times={k})",
             "sweep": "bz.sweep({f}, {g}, duration_ms={n}, steps={k})", "melody": "bz.melody('success', tempo={t})"}
    WRAP = {"parenthesised": "({})", "abs": "abs({})", "int": "int({})", "max": "max({}, 1)", "arithmetic": "({} + 1) - 1", "getter": None}
    HEADS = "from Reduino.Actuators import Buzzer\nfrom Reduino.Utils import sleep\nbz = Buzzer(8)\nf = 440\ng = 880\nn = 30\nk = 2\nt = 200\n"
    for cname, tmpl in CALLS.items():
        for wname, w in WRAP.items():
            for place in ("setup", "main-loop", "helper"):
                def script(wrapf):
                    call = tmpl.format(f=wrapf("f"), g=wrapf("g"), n=wrapf("n"), k=wrapf("k"), t=wrapf("t"))
                    if place == "setup":
                        return HEADS + call + "\n"
                    if place == "main-loop":
                        return HEADS + "while True:\n    " + call + "\n    sleep(5)\n"
                    return HEADS.replace("bz = Buzzer(8)\n", "bz = Buzzer(8)\ndef go():\n    " + call + "\n") + "go()\n"
                if w is None:
                    if cname != "play_tone(f)":
                        continue
                    plain = HEADS + "bz.play_tone(f)\nbz.stop()\nbz.play_tone(f)\n"
                    shaped = HEADS + "bz.play_tone(f)\nbz.stop()\nbz.play_tone(bz.get_last_frequency())\n"
                    if place != "setup":
                        continue
                else:
                    plain, shaped = script(lambda v: v), script(lambda v, w=w: w.format(v))
                jobs.append((f"{cname}/{wname}/{place}", plain, shaped))
    # a query stored in a variable is the query: printed and compared with the value printed directly (fractional frequency, so that a
    # variable of a narrower type shows), in setup, in the main loop and in a helper
    MON = "from Reduino.Communication import SerialMonitor\nmon = SerialMonitor(9600)\n"
    for q in ("get_last_frequency", "get_frequency", "get_state"):
        pre = HEADS + MON + "bz.play_tone(440.5)\n" + ("" if q != "get_last_frequency" else "bz.stop()\n")
        jobs.append((f"query-in-variable/{q}/setup", pre + f"mon.write(bz.{q}())\n", pre + f"kept = bz.{q}()\nmon.write(kept)\n"))
        jobs.append((f"query-in-variable/{q}/main-loop", pre + f"while True:\n    mon.write(bz.{q}())\n    sleep(5)\n", pre + f"while True:\n    kept = bz.{q}()\n    mon.write(kept)\n    sleep(5)\n"))
        jobs.append((f"query-in-variable/{q}/helper-return", pre + f"mon.write(bz.{q}())\n", pre + f"def ask():\n    return bz.{q}()\nmon.write(ask())\n"))
    with mp.Pool(8) as pool:
        res = pool.map(_shape_one, jobs, chunksize=1)
    bad = [r for r in res if r[1] not in ("same", "rejected")]
    out.append({"name": "C16/arms/argument-written-differently-same-trace", "status": "discharged" if not bad else "sat", "backend": "enum+fwsim", "bounded": True,
                "where": f"{len(jobs)} buzzer calls (5 call shapes x parenthesised / abs / int / max / arithmetic / getter arguments x setup, main loop, helper): the tone/delay trace equals that of the plainly written call",
                "time": 0.3, "replay": {"failing": [{"case": r[0], "verdict": r[1], "detail": r[2], "script": r[3][-200:]} for r in bad[:4]]}, "replay_confirmed": bool(bad)})
    return out


def _shape_one(job):
    name, plain, shaped = job
    from progs.diff import transpile
    from fwsim.run import run_sketch
    ev = []
    for src in (plain, shaped):
        cpp, err = transpile(src)
        if cpp is None:
            if src is shaped:
                return name, "rejected", err, shaped
            return name, "plain-rejected", err, plain
        r = run_sketch(cpp, passes=2)
        if not r.get("compiled"):
            return name, "does-not-compile", r.get("errors", "")[-300:], src
        ev.append([e for e in r["events"] if e[:2] in ("T:", "N:", "D:", "S:")])
    if ev[0] != ev[1]:
        k = next((i for i, (a, b) in enumerate(zip(ev[0], ev[1])) if a != b), min(len(ev[0]), len(ev[1])))
        return name, "differs", {"at": k, "plain": ev[0][k:k + 4], "shaped": ev[1][k:k + 4], "lengths": [len(ev[0]), len(ev[1])]}, shaped
    if not ev[0]:
        return name, "no-events", "the plainly written call produced no tone/delay event", plain
    return name, "same", None, shaped


def extra_evidence():
    return {"firmware_units": _B.get("info")}
