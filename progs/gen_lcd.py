"""Seeded generator of LCD text scripts for the device differential (bounded back end of C17): one display (parallel, i2c or 20x4),
a random sequence of write / line / message / clear / progress commands whose arguments are literals or variables (positional or
keyword, alignments in mixed case), at top level, in branches, loops and the main loop, with a serial marker after every command.
Observed: the cells of the display at every marker, host LCD under CPython vs firmware mock.  progress() is generated only where
value * width is a multiple of max_value (the property allows one cell of rounding elsewhere)."""
import random

from progs.devdiff import IMPORTS, LCD_DECLS

GEOMETRY = {"parallel": (16, 2), "i2c": (16, 2), "20x4": (20, 4), "8x2": (8, 2), "40x2": (40, 2), "24x2": (24, 2)}
WORDS = ["", "a", "Hi", "temp", "Level:", "0123456789", "hello world", "a much longer text than one row holds", "x y z", "OK!", "  padded  ",
         'Say "hi" to everyone', "it's 5 o'clock somewhere", "a\\b\\c\\d\\e\\f\\g\\h", '""""""""""', "100% #1 {x}"]
ALIGNS = ["left", "right", "center", "Left", "RIGHT", "Center"]


class LcdGen:
    def __init__(self, seed):
        self.r = random.Random(seed)

    def text(self):
        r = self.r
        if r.random() < 0.3:
            return r.choice(["t1", "t2"])
        return repr(r.choice(WORDS))

    def intarg(self, v):
        """a literal, or the same value through a variable expression"""
        r = self.r
        c = r.random()
        if c < 0.6:
            return str(v)
        name, cur = r.choice([("n1", self.n1), ("n2", self.n2)])
        d = v - cur
        return name if d == 0 else (f"{name} + {d}" if d > 0 else f"{name} - {-d}")

    def command(self, cols, rows):
        r = self.r
        c = r.random()
        if c < 0.30:
            col, row = r.randint(0, cols - 1), r.randint(0, rows - 1)
            args = [self.intarg(col), self.intarg(row), self.text()]
            if r.random() < 0.4:
                args.append(f"align={r.choice(ALIGNS)!r}")
            if r.random() < 0.4:
                args.append(f"clear_row={r.choice([True, False])}")
            if len(args) == 5 and r.random() < 0.5:
                args[3], args[4] = args[4], args[3]
            return "d.write(" + ", ".join(args) + ")"
        if c < 0.55:
            args = [self.intarg(r.randint(0, rows - 1)), self.text()]
            if r.random() < 0.5:
                args.append(f"align={r.choice(ALIGNS)!r}")
            if r.random() < 0.3:
                args.append(f"clear_row={r.choice([True, False])}")
            return "d.line(" + ", ".join(args) + ")"
        if c < 0.75:
            form = r.random()
            top, bottom = self.text(), self.text()
            if form < 0.25:
                args = [top, bottom]
            elif form < 0.45:
                args = [top]
            elif form < 0.6:
                args = ["None", bottom]
            elif form < 0.8:
                args = [f"top={top}", f"bottom={bottom}"]
            else:
                args = [f"bottom={bottom}"]
            if r.random() < 0.4:
                args.append(f"top_align={r.choice(ALIGNS)!r}")
            if r.random() < 0.4:
                args.append(f"bottom_align={r.choice(ALIGNS)!r}")
            if r.random() < 0.3:
                args.append(f"clear_rows={r.choice([True, False])}")
            return "d.message(" + ", ".join(args) + ")"
        if c < 0.85:
            return "d.clear()"
        # progress with an exact fill: value * width == filled * max_value
        width = r.choice([cols, r.randint(2, cols)])
        q = r.randint(1, 6)
        filled = r.randint(0, width)
        max_value, value = width * q, filled * q
        args = [self.intarg(r.randint(0, rows - 1)), self.intarg(value)]
        if r.random() < 0.5:
            args.append(self.intarg(max_value))
        else:
            args.append(f"max_value={self.intarg(max_value)}")
        if width != cols or r.random() < 0.3:
            args.append(f"width={width}")
        if r.random() < 0.4:
            args.append(f"style={r.choice(['block', 'hash', 'pipe', 'dot', 'Hash'])!r}")
        return "d.progress(" + ", ".join(args) + ")"

    def program(self):
        r = self.r
        kind = r.choice(sorted(LCD_DECLS))
        cols, rows = GEOMETRY[kind]
        self.n1, self.n2 = r.randint(0, 3), r.randint(4, 40)
        L = [LCD_DECLS[kind], f"n1 = {self.n1}", f"n2 = {self.n2}", f"t1 = {r.choice(WORDS)!r}", f"t2 = {r.choice(['var text', 'Z', 'row two is here'])!r}", "c = 1"]
        k = 0

        def marked(cmd, ind=""):
            nonlocal k
            k += 1
            return [ind + cmd, ind + f"mon.write('-- {k}')"]
        for _ in range(r.randint(4, 9)):
            shape = r.random()
            if shape < 0.6:
                L += marked(self.command(cols, rows))
            elif shape < 0.75:
                L += ["if c > 0:"] + marked(self.command(cols, rows), "    ")
            elif shape < 0.85:
                L += ["if c > 5:", "    " + self.command(cols, rows)] + marked(self.command(cols, rows))
            else:
                L += [f"for i in range({r.randint(1, 2)}):"] + marked(self.command(cols, rows), "    ")
        if r.random() < 0.5:
            body = []
            for _ in range(r.randint(1, 3)):
                body += marked(self.command(cols, rows))
            L += ["while True:"] + ["    " + l for l in body] + ["    sleep(5)"]
        return IMPORTS + "\n".join(L) + "\n"


def programs(n, seed=0):
    return {f"lcd-{seed}-{k}": LcdGen(seed * 104729 + k).program() for k in range(n)}


if __name__ == "__main__":
    import sys
    print(LcdGen(int(sys.argv[1]) if len(sys.argv) > 1 else 1).program())
