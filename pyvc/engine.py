"""pyvc: forward symbolic execution of real Python function text against sidecar contracts.

One solver query per (path, obligation).  Callers are checked against callee
*contracts*; loops are cut by invariants; anything not modelled raises ToolLimit
(the unit is then undecided, never green).
"""
from __future__ import annotations

import ast
import builtins
import itertools
import time

import z3

from .sym import *  # noqa
from .state import *  # noqa
from .contracts import Contract, ClassDecl, Registry
from . import typespec


class Obligation:
    __slots__ = ("name", "pc", "goal", "status", "model", "time", "backend", "where", "info")

    def __init__(self, name, pc, goal, where=""):
        self.name = name
        self.pc = list(pc)
        self.goal = goal
        self.status = None
        self.model = None
        self.time = 0.0
        self.backend = None
        self.where = where
        self.info = {}


class Frame:
    """Static info about the function being executed."""

    def __init__(self, fn, file, qual, cls, contract, depth=0):
        self.fn = fn
        self.file = file
        self.qual = qual
        self.cls = cls
        self.contract = contract
        self.depth = depth
        self.loop_ordinals = {}
        self.globals_declared = set()
        for node in ast.walk(fn):
            if isinstance(node, ast.Global):
                self.globals_declared.update(node.names)
        # ordinals in source order
        loops = [nd for nd in ast.walk(fn) if isinstance(nd, (ast.While, ast.For))]
        loops.sort(key=lambda nd: (nd.lineno, nd.col_offset))
        for i, nd in enumerate(loops):
            self.loop_ordinals[id(nd)] = i


def lift_const(py):
    """Module-level constant data: dict -> cmap, (frozen)set -> cset, otherwise sym.const."""
    if isinstance(py, dict):
        return V("cmap", tuple((lift_const(k), lift_const(v)) for k, v in py.items()))
    if isinstance(py, (set, frozenset)):
        return V("cset", tuple(lift_const(x) for x in sorted(py)))
    if isinstance(py, list):
        return V("clistc", tuple(lift_const(x) for x in py))
    return const(py)


_JOIN = []


def py_join():
    """str.join over a list of strings of symbolic length, as a recursive spec function."""
    if not _JOIN:
        S = z3.StringSort()
        SS = z3.SeqSort(S)
        j = z3.RecFunction("py_join", S, SS, z3.IntSort(), S)
        sep, s, n = z3.Const("sep", S), z3.Const("s", SS), z3.Int("n")
        z3.RecAddDefinition(j, [sep, s, n], z3.If(n <= 0, z3.StringVal(""), z3.If(
            n == 1, s[0], z3.Concat(j(sep, s, n - 1), sep, s[n - 1]))))
        _JOIN.append(j)
    return _JOIN[0]


_MAPS = {}


def py_map(body, var, seq, out_sort):
    """[f(x) for x in seq] over a list of symbolic length: an uninterpreted function symbol keyed by the
    (alpha-normalised) z3 term of f, so that code and contract denote the same function iff f is the same
    term.  Axioms instantiated nowhere: only equal-by-construction reasoning is available (trusted meaning:
    elementwise map, length preserved)."""
    import hashlib
    norm = z3.substitute(body, (var, z3.Const("map_arg", var.sort())))
    key = hashlib.sha1((norm.sexpr() + str(seq.sort()) + str(out_sort)).encode()).hexdigest()[:10]
    if key not in _MAPS:
        _MAPS[key] = z3.Function(f"py_map_{key}", seq.sort(), z3.SeqSort(out_sort))
    return _MAPS[key](seq)


_REPEAT = []


def py_repeat(st, s, n):
    """s * n as a recursive function; its length lemma (valid by induction) is stated for the solver"""
    if not _REPEAT:
        S = z3.StringSort()
        f = z3.RecFunction("py_repeat", S, z3.IntSort(), S)
        x, k = z3.Const("x", S), z3.Int("k")
        z3.RecAddDefinition(f, [x, k], z3.If(k <= 0, z3.StringVal(""), z3.Concat(f(x, k - 1), x)))
        _REPEAT.append(f)
    t = _REPEAT[0](s, n)
    if st is not None:
        st.assume(z3.Length(t) == z3.If(n > 0, n, 0) * z3.Length(s))
    return t


_STRIP = {}


def py_strip(st, s, which="strip"):
    """str.strip()/lstrip() as function symbols (whitespace trimming); only equal-by-construction reasoning plus
    idempotence and 'result is not longer' are available"""
    if which not in _STRIP:
        _STRIP[which] = z3.Function("py_" + which, z3.StringSort(), z3.StringSort())
    t = _STRIP[which](s)
    if st is not None:
        st.assume(z3.Length(t) <= z3.Length(s))
        st.assume(_STRIP[which](t) == t)
    return t


_LOWER = []


def py_lower(st, s):
    """str.lower() as a function symbol; fixed points for the literals the code compares against"""
    if not _LOWER:
        _LOWER.append(z3.Function("py_lower", z3.StringSort(), z3.StringSort()))
    t = _LOWER[0](s)
    if st is not None:
        for lit in ("left", "center", "right", "block", "hash", "pipe", "dot", "scroll", "blink", "typewriter", "bounce"):
            st.assume(z3.Implies(s == z3.StringVal(lit), t == z3.StringVal(lit)))
        st.assume(_LOWER[0](t) == t)
    return t


_RSTRIP = []


def py_rstrip(st, s):
    """str.rstrip() as a function symbol with its defining axioms instantiated at s:
    s == r ++ w, w is all whitespace, r does not end in whitespace (these determine r uniquely)."""
    if not _RSTRIP:
        S = z3.StringSort()
        _RSTRIP.append((z3.Function("py_rstrip", S, S), z3.Function("py_rstrip_ws", S, S)))
    F, W = _RSTRIP[0]
    r, w = F(s), W(s)
    ws = z3.Union(*[z3.Re(c) for c in (" ", "\t", "\n", "\r", "\x0b", "\x0c")])
    if st is not None:
        st.assume(s == z3.Concat(r, w))
        st.assume(z3.InRe(w, z3.Star(ws)))
        st.assume(z3.Or(r == z3.StringVal(""), z3.Not(z3.InRe(z3.SubString(r, z3.Length(r) - 1, 1), ws))))
    return r


def exc_class(name):
    c = getattr(builtins, name, None)
    if isinstance(c, type) and issubclass(c, BaseException):
        return c
    return None


def exc_matches(raised, handler_names):
    rc = exc_class(raised)
    for h in handler_names:
        hc = exc_class(h)
        if hc is None or rc is None:
            if h == raised:
                return True
            continue
        if issubclass(rc, hc):
            return True
    return False


class Engine:
    def __init__(self, registry: Registry, modules, timeout_ms=10000, prefix=""):
        self.reg = registry
        self.modules = modules          # file -> ModuleInfo
        self.obligations = []
        self.timeout_ms = timeout_ms
        self.prefix = prefix
        self.spec_mode = 0
        self.spec_old = None
        self.unit_name = ""
        self.inlined = set()
        self.paths = 0
        self.path_budget = 4000
        self.feas_calls = 0
        self.feas_timeout_ms = 3000
        self.spec_funcs = {}
        self.hooks = {}
        self.events = []

    # ------------------------------------------------------------------ solver helpers
    def feasible(self, pc, extra=None):
        lits = list(pc) + ([extra] if extra is not None else [])
        s = z3.Solver()
        s.set("timeout", self.feas_timeout_ms)
        for l in lits:
            s.add(l)
        self.feas_calls += 1
        r = s.check()
        return r != z3.unsat

    def fork(self, st, cond):
        """yield (state, bool) for feasible branches of a z3 Bool."""
        c = simp(cond)
        if z3.is_true(c):
            yield st, True
            return
        if z3.is_false(c):
            yield st, False
            return
        if self.spec_mode:
            raise SpecError("contract expression forks on a non-constant condition")
        t_ok = self.feasible(st.pc, c)
        f_ok = self.feasible(st.pc, z3.Not(c))
        if t_ok and f_ok:
            s2 = st.copy()
            st.assume(c)
            s2.assume(z3.Not(c))
            yield st, True
            yield s2, False
        elif t_ok:
            st.assume(c)
            yield st, True
        elif f_ok:
            st.assume(z3.Not(c))
            yield st, False

    def oblige(self, st, name, goal, where=""):
        g = simp(goal)
        ob = Obligation(f"{self.prefix}{self.unit_name}/{name}", st.pc, g, where)
        self.obligations.append(ob)
        return ob

    # ------------------------------------------------------------------ names
    def lookup_name(self, name, st):
        for fr in (st.frames[-1],):
            if name in fr:
                return fr[name]
        fr = st.sframes[-1] if st.sframes else None
        if fr is not None:
            mod = self.modules[fr.file]
            if name in st.glob:
                return st.glob[name]
            if name in mod.consts:
                return lift_const(mod.consts[name])
            if name in mod.functions:
                return V(FN, ("func", fr.file, name))
            if name in mod.classes:
                return V(CLS, ("class", fr.file, name))
            if name in mod.externs:
                return mod.externs[name]
            if self.reg.lookup(fr.file, name) is not None and self.reg.lookup(fr.file, name).extern:
                return V(FN, ("func", fr.file, name))
            if name in mod.imports:
                kind, file2, nm = mod.imports[name]
                if file2 in self.modules:
                    m2 = self.modules[file2]
                    if nm in m2.functions:
                        return V(FN, ("func", file2, nm))
                    if nm in m2.classes:
                        return V(CLS, ("class", file2, nm))
                    if nm in m2.consts:
                        return const(m2.consts[nm])
            if name in self.extern_names:
                return self.extern_names[name]
        if name in ("int", "float", "bool", "str", "list", "tuple", "dict", "set", "bytes", "bytearray", "object"):
            return V(CLS, ("builtin", name))
        if exc_class(name):
            return V(CLS, ("exc", name))
        if name in self.C_PRIMS:
            return V(FN, ("cprim", name))
        if hasattr(builtins, name):
            return V(FN, ("builtin", name))
        raise ToolLimit(f"unresolved name {name!r}")

    # ------------------------------------------------------------------ expressions
    def eval(self, e, st):
        """Generator of (state, value|Raised)."""
        m = getattr(self, "e_" + type(e).__name__, None)
        if m is None:
            raise ToolLimit(f"expression {type(e).__name__} at line {getattr(e, 'lineno', '?')}")
        return m(e, st)

    def eval_list(self, es, st, acc=()):
        if not es:
            yield st, list(acc)
            return
        for s1, v in self.eval(es[0], st):
            if isinstance(v, Raised):
                yield s1, v
                continue
            yield from self.eval_list(es[1:], s1, acc + (v,))

    def e_Constant(self, e, st):
        if e.value is Ellipsis:
            raise ToolLimit("Ellipsis")
        if isinstance(e.value, bytes):
            raise ToolLimit("bytes constant")
        yield st, const(e.value)

    def e_Name(self, e, st):
        if self.spec_mode and e.id in self.spec_names:
            yield st, self.spec_names[e.id]
            return
        if self.spec_mode and e.id in st.ghost:
            yield st, st.ghost[e.id]
            return
        yield st, self.lookup_name(e.id, st)

    def e_Tuple(self, e, st):
        for s1, vs in self.eval_list(e.elts, st):
            if isinstance(vs, Raised):
                yield s1, vs
            else:
                yield s1, vtuple(vs)

    def e_List(self, e, st):
        for s1, vs in self.eval_list(e.elts, st):
            if isinstance(vs, Raised):
                yield s1, vs
            else:
                yield s1, s1.alloc(CList(vs))

    def e_Set(self, e, st):
        for s1, vs in self.eval_list(e.elts, st):
            if isinstance(vs, Raised):
                yield s1, vs
            else:
                yield s1, V("setdisp", tuple(vs))

    def e_Attribute(self, e, st):
        for s1, base in self.eval(e.value, st):
            if isinstance(base, Raised):
                yield s1, base
                continue
            yield s1, self.get_attr(base, e.attr, s1, e)

    def get_attr(self, base, attr, st, node=None):
        if base.k == "cell" and isinstance(base.t, Obj):
            v = base.t.fields[attr]
            return V("cell", self.spec_old.heap[v.t]) if v.k == REF and self.spec_old is not None else v
        if base.k == REF:
            cell = st.heap[base.t]
            if isinstance(cell, Obj):
                if attr in cell.fields:
                    return cell.fields[attr]
                cd = self.reg.classes.get(cell.cls)
                # class-level constants and methods
                mi = self.modules.get(cd.file) if cd else None
                if mi and cell.cls in mi.classes:
                    ci = mi.classes[cell.cls]
                    if attr in ci.consts:
                        return lift_const(ci.consts[attr])
                    if attr in ci.methods:
                        return V(FN, ("method", cd.file, cell.cls, attr, base))
                    if attr in ci.properties:
                        raise ToolLimit(f"property {attr}")
                raise ToolLimit(f"attribute {attr!r} of {cell.cls} object not declared in the class contract")
            if isinstance(cell, (CList, SList, AList)):
                return V(FN, ("listmethod", attr, base))
            if isinstance(cell, Map):
                return V(FN, ("mapmethod", attr, base))
            if isinstance(cell, Ext):
                key = f"{cell.name}.{attr}"
                if key in self.ext_attrs:
                    return self.ext_attrs[key](st, base)
                return V(FN, ("extmethod", cell.name, attr, base))
        if base.k == STR:
            return V(FN, ("strmethod", attr, base))
        if base.k == CLS and base.t[0] == "class":
            _, file, cname = base.t
            ci = self.modules[file].classes[cname]
            if attr in ci.consts:
                return lift_const(ci.consts[attr])
            if attr in ci.methods:
                return V(FN, ("method", file, cname, attr, None))
        if base.k in self.kind_attr:
            return self.kind_attr[base.k](self, base, attr, st)
        if base.k == "module":
            key = f"{base.t}.{attr}"
            if key in self.module_attrs:
                return self.module_attrs[key]
            raise ToolLimit(f"module attribute {key}")
        raise ToolLimit(f"attribute {attr!r} on {base.k}")

    ext_attrs = {}
    module_attrs = {}
    extern_names = {}
    kind_attr = {}
    kind_index = {}

    # ---- operators
    def e_UnaryOp(self, e, st):
        for s1, v in self.eval(e.operand, st):
            if isinstance(v, Raised):
                yield s1, v
                continue
            if isinstance(e.op, ast.Not):
                for s2, b in self.truth(v, s1):
                    yield s2, vbool(z3.Not(b))
            elif isinstance(e.op, ast.USub):
                if v.k == REAL:
                    yield s1, vreal(-v.t)
                elif v.k in (INT, BOOL):
                    yield s1, vint(-as_int_term(v))
                else:
                    yield s1, Raised("TypeError")
            elif isinstance(e.op, ast.UAdd):
                if v.k == REAL:
                    yield s1, v
                elif v.k in (INT, BOOL):
                    yield s1, vint(as_int_term(v))
                else:
                    yield s1, Raised("TypeError")
            else:
                raise ToolLimit("unary ~")

    def truth(self, v, st):
        """generator of (state, z3 Bool) - truthiness; heap objects need the state."""
        if v.k == REF:
            cell = st.heap[v.t]
            if isinstance(cell, CList):
                yield st, z3.BoolVal(len(cell.items) > 0)
            elif isinstance(cell, SList):
                yield st, z3.Length(cell.seq) > 0
            elif isinstance(cell, (Obj, Ext)):
                yield st, z3.BoolVal(True)
            else:
                raise ToolLimit("truthiness of map")
            return
        if v.k == "opt":
            raise ToolLimit("opt")
        yield st, py_truth(v)

    def e_BoolOp(self, e, st):
        # value-returning and/or; pure bool operands are merged into one term (no fork)
        is_and = isinstance(e.op, ast.And)

        def go(i, st, acc_bool):
            if i == len(e.values):
                return
            for s1, v in self.eval(e.values[i], st):
                if isinstance(v, Raised):
                    yield s1, v
                    continue
                last = i == len(e.values) - 1
                if last:
                    yield s1, v
                    continue
                for s2, b in self.truth(v, s1):
                    # Python: and -> if falsy return v else continue; or -> if truthy return v
                    stop_cond = z3.Not(b) if is_and else b
                    for s3, stop in self.fork_or_merge(s2, stop_cond, v, e, i):
                        if stop is True:
                            yield s3, v
                        elif stop is False:
                            yield from go(i + 1, s3, None)
                        else:
                            yield s3, stop  # merged value
        yield from go(0, st, None)

    def fork_or_merge(self, st, stop_cond, v, e, i):
        """For bool-valued pure remainder build an ite instead of forking."""
        c = simp(stop_cond)
        if z3.is_true(c):
            yield st, True
            return
        if z3.is_false(c):
            yield st, False
            return
        if v.k == BOOL and self.is_pure(e.values[i + 1:]):
            # evaluate the rest without forking on this condition
            rest = ast.BoolOp(op=e.op, values=e.values[i + 1:]) if len(e.values) - i - 1 > 1 else e.values[i + 1]
            outs = list(self.eval(rest, st))
            if len(outs) == 1 and not isinstance(outs[0][1], Raised) and outs[0][1].k == BOOL and outs[0][0] is st:
                r = outs[0][1]
                if isinstance(e.op, ast.And):
                    yield st, vbool(z3.And(v.t, r.t))
                else:
                    yield st, vbool(z3.Or(v.t, r.t))
                return
        if self.spec_mode and is_num(v):
            # in a contract `a and b` / `a or b` on numbers is compared by value only: build the ite
            rest = ast.BoolOp(op=e.op, values=e.values[i + 1:]) if len(e.values) - i - 1 > 1 else e.values[i + 1]
            outs = list(self.eval(rest, st))
            if len(outs) == 1 and not isinstance(outs[0][1], Raised) and is_num(outs[0][1]) and outs[0][0] is st:
                r = outs[0][1]
                if REAL in (v.k, r.k):
                    yield st, V(REAL, z3.If(c, as_real_term(v), as_real_term(r)))
                else:
                    yield st, V(INT, z3.If(c, as_int_term(v), as_int_term(r)))
                return
        for s1, b in self.fork(st, c):
            yield s1, b

    def is_pure(self, nodes):
        for n in nodes:
            for sub in ast.walk(n):
                if isinstance(sub, (ast.Call, ast.Subscript, ast.BinOp, ast.Await, ast.Yield, ast.NamedExpr)):
                    if isinstance(sub, ast.Call) and isinstance(sub.func, ast.Name) and sub.func.id in (
                            "isinstance", "callable", "old", "is_int", "is_float", "is_bool", "is_num"):
                        continue
                    if self.spec_mode:
                        continue
                    return False
        return True

    def e_Compare(self, e, st):
        operands = [e.left] + list(e.comparators)
        # evaluate left-to-right; Python short-circuits, but operand evaluation here is
        # restricted to what cannot be observed (pure) unless single comparison.
        if len(e.ops) > 1 and not self.is_pure(operands[2:]):
            raise ToolLimit("chained comparison with impure tail")
        for s1, vs in self.eval_list(operands, st):
            if isinstance(vs, Raised):
                yield s1, vs
                continue
            terms = []
            bad = None
            for op, a, b in zip(e.ops, vs, vs[1:]):
                r = self.compare(op, a, b, s1)
                if isinstance(r, Raised):
                    bad = r
                    break
                terms.append(r)
            if bad is not None:
                if terms:
                    # an earlier comparison might short-circuit; fork on it
                    prev = z3.And(terms)
                    for s2, ok in self.fork(s1, prev):
                        if ok:
                            yield s2, bad
                        else:
                            yield s2, FALSE
                else:
                    yield s1, bad
                continue
            yield s1, vbool(terms[0] if len(terms) == 1 else z3.And(terms))

    def compare(self, op, a, b, st):
        n = type(op).__name__
        if n in ("Eq", "NotEq"):
            r = self.equal(a, b, st)
            return r if n == "Eq" else z3.Not(r)
        if n in CMP:
            if is_num(a) and is_num(b):
                x, y, _ = coerce_pair(a, b)
                return CMP[n](x, y)
            if a.k == STR and b.k == STR:
                raise ToolLimit("string ordering")
            if a.k == ANY or b.k == ANY:
                raise ToolLimit("ordering on opaque value")
            return Raised("TypeError")
        if n in ("Is", "IsNot"):
            if a.k == NONE or b.k == NONE:
                if ANY in (a.k, b.k):
                    raise ToolLimit("is None on opaque value")
                r = z3.BoolVal(a.k == b.k)
            elif a.k == BOOL and b.k == BOOL:
                r = a.t == b.t
            elif a.k == REF and b.k == REF:
                r = z3.BoolVal(a.t == b.t)
            else:
                raise ToolLimit(f"is on {a.k},{b.k}")
            return r if n == "Is" else z3.Not(r)
        if n in ("In", "NotIn"):
            r = self.contains(b, a, st)
            if isinstance(r, Raised):
                return r
            return r if n == "In" else z3.Not(r)
        raise ToolLimit(f"comparison {n}")

    def equal(self, a, b, st):
        if a.k == REF and b.k == REF:
            ca, cb = st.heap[a.t], st.heap[b.t]
            if isinstance(ca, CList) and isinstance(cb, CList):
                if len(ca.items) != len(cb.items):
                    return z3.BoolVal(False)
                return z3.And([self.equal(x, y, st) for x, y in zip(ca.items, cb.items)] or [z3.BoolVal(True)])
            if isinstance(ca, SList) and isinstance(cb, SList) and ca.ek == cb.ek:
                return ca.seq == cb.seq
            if isinstance(ca, (Obj, Ext)) and isinstance(cb, (Obj, Ext)):
                return z3.BoolVal(a.t == b.t)
            raise ToolLimit("== on heap values")
        if a.k == REF or b.k == REF:
            ca = st.heap[(a if a.k == REF else b).t]
            other = b if a.k == REF else a
            if isinstance(ca, CList) and other.k == TUPLE:
                return z3.BoolVal(False)
            if other.k in (NONE, INT, REAL, BOOL, STR):
                return z3.BoolVal(False)
            raise ToolLimit("== between heap value and scalar")
        if a.k == TUPLE and b.k == TUPLE:
            if len(a.t) != len(b.t):
                return z3.BoolVal(False)
            return z3.And([self.equal(x, y, st) for x, y in zip(a.t, b.t)] or [z3.BoolVal(True)])
        if a.k == b.k and a.k in ("path", "pykey"):
            return a.t == b.t
        if a.k == "seq" and b.k == "seq":
            return a.t == b.t
        if a.k == "seq" or b.k == "seq":
            s, o = (a, b) if a.k == "seq" else (b, a)
            items = self.static_items(o, st)
            if items is not None:
                el = (lambda x: as_int_term(x)) if s.a == "int" else (lambda x: as_real_term(x) if s.a == "real" else x.t)
                lit = z3.Concat(*[z3.Unit(el(x)) for x in items]) if len(items) > 1 else (
                    z3.Unit(el(items[0])) if items else z3.Empty(s.t.sort()))
                return s.t == lit
        return py_eq(a, b)

    def contains(self, container, item, st):
        if container.k == TUPLE:
            return z3.Or([self.equal(item, x, st) for x in container.t] or [z3.BoolVal(False)])
        if container.k == "setdisp":
            return z3.Or([self.equal(item, x, st) for x in container.t] or [z3.BoolVal(False)])
        if container.k == "cset":
            return z3.Or([self.equal(item, x, st) for x in container.t] or [z3.BoolVal(False)])
        if container.k == "cmap":
            return z3.Or([self.equal(item, k, st) for k, _ in container.t] or [z3.BoolVal(False)])
        if container.k == REF:
            cell = st.heap[container.t]
            if isinstance(cell, CList):
                return z3.Or([self.equal(item, x, st) for x in cell.items] or [z3.BoolVal(False)])
            if isinstance(cell, SList):
                if item.k != cell.ek:
                    return z3.BoolVal(False)
                return z3.Contains(cell.seq, z3.Unit(item.t))
            if isinstance(cell, Map):
                return z3.Select(cell.dom, self.pykey(item))
        if container.k == STR and item.k == STR:
            return z3.Contains(container.t, item.t)
        if container.k == "cell" and isinstance(container.t, SList):
            return z3.Contains(container.t.seq, z3.Unit(item.t))
        if container.k == "seq":
            return z3.Contains(container.t, z3.Unit(as_int_term(item) if container.a == "int" else item.t))
        raise ToolLimit(f"'in' on {container.k}")

    def e_IfExp(self, e, st):
        for s1, c in self.eval(e.test, st):
            if isinstance(c, Raised):
                yield s1, c
                continue
            for s2, b in self.truth(c, s1):
                bs = simp(b)
                if not (z3.is_true(bs) or z3.is_false(bs)) and self.is_pure([e.body, e.orelse]):
                    o1 = list(self.eval(e.body, s2))
                    o2 = list(self.eval(e.orelse, s2))
                    if (len(o1) == 1 and len(o2) == 1 and o1[0][0] is s2 and o2[0][0] is s2
                            and not isinstance(o1[0][1], Raised) and not isinstance(o2[0][1], Raised)):
                        m = self.merge(bs, o1[0][1], o2[0][1])
                        if m is not None:
                            yield s2, m
                            continue
                for s3, taken in self.fork(s2, bs):
                    yield from self.eval(e.body if taken else e.orelse, s3)

    def merge(self, c, a, b):
        if a.k == b.k and a.k in (INT, REAL, BOOL, STR):
            return V(a.k, z3.If(c, a.t, b.t))
        if is_num(a) and is_num(b) and BOOL not in (a.k, b.k):
            if self.spec_mode:
                return V(REAL, z3.If(c, as_real_term(a), as_real_term(b)))   # in a contract only the numeric value is compared
        if self.spec_mode and is_num(a) and is_num(b):
            if REAL in (a.k, b.k):
                return V(REAL, z3.If(c, as_real_term(a), as_real_term(b)))
            return V(INT, z3.If(c, as_int_term(a), as_int_term(b)))
            return None  # int vs float result: the kind matters, fork instead
        return None

    def e_BinOp(self, e, st):
        for s1, vs in self.eval_list([e.left, e.right], st):
            if isinstance(vs, Raised):
                yield s1, vs
                continue
            yield from self.binop(type(e.op).__name__, vs[0], vs[1], s1)

    def binop(self, op, a, b, st):
        if is_num(a) and is_num(b):
            if op in ("Add", "Sub", "Mult"):
                x, y, k = coerce_pair(a, b)
                r = {"Add": x + y, "Sub": x - y, "Mult": x * y}[op]
                yield st, V(k, r)
                return
            if op == "Div":
                x, y = as_real_term(a), as_real_term(b)
                if self.spec_mode:
                    yield st, vreal(x / y)
                    return
                for s1, z in self.fork(st, y == 0):
                    yield (s1, Raised("ZeroDivisionError")) if z else (s1, vreal(x / y))
                return
            if op in ("FloorDiv", "Mod"):
                x, y, k = coerce_pair(a, b)
                if self.spec_mode and k == INT:
                    yield st, vint(floordiv_int(x, y) if op == "FloorDiv" else mod_int(x, y))
                    return
                if self.spec_mode:
                    q = z3.ToReal(z3.ToInt(x / y))
                    yield st, vreal(q if op == "FloorDiv" else x - y * q)
                    return
                for s1, z in self.fork(st, y == 0):
                    if z:
                        yield s1, Raised("ZeroDivisionError")
                    elif k == INT:
                        yield s1, vint(floordiv_int(x, y) if op == "FloorDiv" else mod_int(x, y))
                    else:
                        q = z3.ToReal(z3.ToInt(x / y))
                        yield s1, vreal(q if op == "FloorDiv" else x - y * q)
                return
            if op in ("LShift", "RShift") and a.k in (INT, BOOL) and b.k == INT and z3.is_int_value(simp(b.t)) and 0 <= simp(b.t).as_long() < 64:
                n = 2 ** simp(b.t).as_long()
                yield st, vint(as_int_term(a) * n if op == "LShift" else floordiv_int(as_int_term(a), z3.IntVal(n)))
                return
            if op == "Pow":
                raise ToolLimit("**")
        if op == "Add" and a.k == "seq":
            items = self.static_items(b, st)
            if items is not None:
                t = a.t
                for x in items:
                    t = z3.Concat(t, z3.Unit(as_int_term(x) if a.a == "int" else as_real_term(x) if a.a == "real" else x.t))
                yield st, V("seq", t, a.a)
                return
            if b.k == "seq":
                yield st, V("seq", z3.Concat(a.t, b.t), a.a)
                return
        if op == "Add" and a.k == STR and b.k == STR:
            yield st, vstr(z3.Concat(a.t, b.t))
            return
        if op == "Add" and a.k == TUPLE and b.k == TUPLE:
            yield st, vtuple(a.t + b.t)
            return
        if op == "Mult" and a.k == REF and isinstance(st.heap[a.t], CList) and b.k in (INT, BOOL):
            items = st.heap[a.t].items
            if len(items) == 1 and items[0].k == STR:
                # [ch] * n : a list of n one-character strings
                t = py_repeat(st, items[0].t, as_int_term(b))
                st.assume(z3.Length(items[0].t) == 1) if False else None
                yield st, st.alloc(CharList(t))
                return
            raise ToolLimit("list * int")
        if op == "Mult" and a.k == STR and b.k in (INT, BOOL):
            yield st, vstr(py_repeat(st, a.t, as_int_term(b)))
            return
        if op == "Mult" and b.k == STR and a.k in (INT, BOOL):
            yield st, vstr(py_repeat(st, b.t, as_int_term(a)))
            return
        if op == "Truediv":
            pass
        if a.k == "path" and op == "Div" and b.k == STR:
            yield st, V("path", z3.Concat(a.t, z3.StringVal("/"), b.t))
            return
        if ANY in (a.k, b.k):
            raise ToolLimit(f"binary {op} on opaque value")
        if a.k == REF or b.k == REF:
            raise ToolLimit(f"binary {op} on heap value")
        yield st, Raised("TypeError")

    def e_JoinedStr(self, e, st):
        parts = []
        for p in e.values:
            if isinstance(p, ast.Constant):
                parts.append(p)
            else:
                if p.format_spec is not None:
                    raise ToolLimit("format spec in f-string")
                parts.append(p.value)
        for s1, vs in self.eval_list(parts, st):
            if isinstance(vs, Raised):
                yield s1, vs
                continue
            terms = [self.to_str_term(v, s1) for v in vs]
            yield s1, vstr(z3.Concat(*terms) if len(terms) > 1 else (terms[0] if terms else z3.StringVal("")))

    STR_OF_REAL = z3.Function("py_str_of_float", z3.RealSort(), z3.StringSort())
    STR_OF_ANY = z3.Function("py_str_of_any", AnySort, z3.StringSort())

    def to_str_term(self, v, st):
        if v.k == STR:
            return v.t
        if v.k == INT:
            return z3.If(v.t >= 0, z3.IntToStr(v.t), z3.Concat(z3.StringVal("-"), z3.IntToStr(-v.t)))
        if v.k == BOOL:
            return z3.If(v.t, z3.StringVal("True"), z3.StringVal("False"))
        if v.k == NONE:
            return z3.StringVal("None")
        if v.k == REAL:
            return self.STR_OF_REAL(v.t)
        if v.k == ANY:
            return self.STR_OF_ANY(v.t)
        if v.k == "path":
            return v.t
        raise ToolLimit(f"str() of {v.k}")

    def e_Subscript(self, e, st):
        for s1, vs in self.eval_list([e.value] + ([] if isinstance(e.slice, ast.Slice) else [e.slice]), st):
            if isinstance(vs, Raised):
                yield s1, vs
                continue
            base = vs[0]
            if isinstance(e.slice, ast.Slice):
                yield from self.slice_of(base, e.slice, s1)
                continue
            yield from self.index(base, vs[1], s1)

    def index(self, base, idx, st):
        if base.k == "cell" and isinstance(base.t, AList):
            yield st, V(base.t.ek, z3.Select(base.t.arr, as_int_term(idx)))
            return
        if base.k == "cell" and isinstance(base.t, SList):
            yield st, V(base.t.ek, base.t.seq[as_int_term(idx)])
            return
        if base.k == "seq":
            yield st, V(base.a, base.t[as_int_term(idx)])
            return
        if base.k == TUPLE or (base.k == REF and isinstance(st.heap[base.t], CList)):
            items = base.t if base.k == TUPLE else st.heap[base.t].items
            if idx.k not in (INT, BOOL):
                yield st, Raised("TypeError")
                return
            it = simp(as_int_term(idx))
            if z3.is_int_value(it):
                i = it.as_long()
                if -len(items) <= i < len(items):
                    yield st, items[i]
                else:
                    yield st, Raised("IndexError")
                return
            raise ToolLimit("symbolic index into static sequence")
        if base.k == REF:
            cell = st.heap[base.t]
            if isinstance(cell, SList):
                i = as_int_term(idx)
                n = z3.Length(cell.seq)
                if self.spec_mode:
                    yield st, V(cell.ek, cell.seq[i])
                    return
                for s1, ok in self.fork(st, z3.And(i >= -n, i < n)):
                    if not ok:
                        yield s1, Raised("IndexError")
                    else:
                        j = z3.If(i < 0, i + n, i)
                        yield s1, V(cell.ek, cell.seq[j])
                return
            if isinstance(cell, AList):
                i = as_int_term(idx)
                if self.spec_mode:
                    yield st, V(cell.ek, z3.Select(cell.arr, i))
                    return
                for s1, ok in self.fork(st, z3.And(i >= -cell.n, i < cell.n)):
                    if not ok:
                        yield s1, Raised("IndexError")
                    else:
                        yield s1, V(cell.ek, z3.Select(cell.arr, z3.If(i < 0, i + cell.n, i)))
                return
            if isinstance(cell, CharList):
                i = as_int_term(idx)
                n = z3.Length(cell.s)
                if self.spec_mode:
                    yield st, vstr(z3.SubString(cell.s, i, 1))
                    return
                for s1, ok in self.fork(st, z3.And(i >= -n, i < n)):
                    if not ok:
                        yield s1, Raised("IndexError")
                    else:
                        yield s1, vstr(z3.SubString(cell.s, z3.If(i < 0, i + n, i), 1))
                return
            if isinstance(cell, Map):
                k = self.pykey(idx)
                for s1, ok in self.fork(st, z3.Select(cell.dom, k)):
                    if ok:
                        yield s1, self.map_value(cell, k)
                    else:
                        yield s1, Raised("KeyError")
                return
        if base.k == STR:
            i = as_int_term(idx)
            n = z3.Length(base.t)
            for s1, ok in self.fork(st, z3.And(i >= -n, i < n)):
                if not ok:
                    yield s1, Raised("IndexError")
                else:
                    j = z3.If(i < 0, i + n, i)
                    yield s1, vstr(z3.SubString(base.t, j, 1))
            return
        if base.k == "cmap":
            present = z3.Or([self.equal(idx, k, st) for k, _ in base.t] or [z3.BoolVal(False)])
            for s1, ok in self.fork(st, present):
                if not ok:
                    yield s1, Raised("KeyError")
                    continue
                vals = [v for _, v in base.t]
                if all(v.k == vals[0].k and v.k in (INT, REAL, BOOL, STR) for v in vals):
                    t = vals[-1].t
                    for k, v in reversed(base.t[:-1]):
                        t = z3.If(self.equal(idx, k, s1), v.t, t)
                    yield s1, V(vals[0].k, t)
                else:
                    for k, v in base.t:
                        for s2, hit in self.fork(s1.copy(), self.equal(idx, k, s1)):
                            if hit:
                                yield s2, v
            return
        if base.k in self.kind_index:
            yield from self.kind_index[base.k](self, base, idx, st)
            return
        raise ToolLimit(f"subscript on {base.k}")

    def slice_of(self, base, sl, st):
        if sl.step is not None:
            raise ToolLimit("slice step")
        parts = [p for p in (sl.lower, sl.upper) if p is not None]
        for s1, vs in self.eval_list(parts, st):
            if isinstance(vs, Raised):
                yield s1, vs
                continue
            vs = list(vs)
            lo = as_int_term(vs.pop(0)) if sl.lower is not None else None
            hi = as_int_term(vs.pop(0)) if sl.upper is not None else None
            if base.k == STR:
                n = z3.Length(base.t)

                def norm(x, default):
                    if x is None:
                        return default
                    x = z3.If(x < 0, x + n, x)
                    return z3.If(x < 0, z3.IntVal(0), z3.If(x > n, n, x))
                a, b = norm(lo, z3.IntVal(0)), norm(hi, n)
                yield s1, vstr(z3.If(b > a, z3.SubString(base.t, a, b - a), z3.StringVal("")))
                continue
            raise ToolLimit(f"slice of {base.k}")

    def map_value(self, cell, k):
        return V(cell.vk, z3.Select(cell.arr, k)) if cell.vk != "pyval" else V("pyval", z3.Select(cell.arr, k))

    def pykey(self, v):
        from .pyval import key_of
        return key_of(v)

    def e_Lambda(self, e, st):
        raise ToolLimit("lambda")

    def e_GeneratorExp(self, e, st):
        raise ToolLimit("bare generator expression")

    def e_ListComp(self, e, st):
        for s1, items in self.comp_items(e, st):
            if isinstance(items, Raised):
                yield s1, items
            elif isinstance(items, V) and items.k == "mapped":
                yield s1, s1.alloc(SList(items.t, items.a))
            else:
                yield s1, s1.alloc(CList(items))

    def comp_items(self, e, st):
        """Comprehension over a statically-sized iterable: unrolled."""
        if len(e.generators) != 1 or e.generators[0].is_async:
            raise ToolLimit("nested comprehension")
        g = e.generators[0]
        for s1, it in self.eval(g.iter, st):
            if isinstance(it, Raised):
                yield s1, it
                continue
            items = self.static_items(it, s1)
            if items is None and it.k == REF and isinstance(s1.heap[it.t], SList) and not g.ifs \
                    and isinstance(g.target, ast.Name) and self.is_pure([e.elt]):
                cell = s1.heap[it.t]
                x = z3.Const(f"elem!{self.fresh_id()}", typespec.SORTS[cell.ek])
                s2 = s1.copy()
                s2.locals[g.target.id] = V(cell.ek, x)
                outs = list(self.eval(e.elt, s2))
                if len(outs) == 1 and not isinstance(outs[0][1], Raised) and outs[0][1].k in (INT, REAL, BOOL, STR):
                    r = outs[0][1]
                    yield s1, V("mapped", py_map(r.t, x, cell.seq, typespec.SORTS[r.k]), r.k)
                    continue
                raise ToolLimit("comprehension body over symbolic list is not a pure scalar expression")
            if items is None:
                raise ToolLimit("comprehension over a sequence of symbolic length")

            def go(i, st, acc):
                if i == len(items):
                    yield st, list(acc)
                    return
                st = st.copy() if False else st
                self.bind_target(g.target, items[i], st)
                conds = list(g.ifs)

                def chk(j, st):
                    if j == len(conds):
                        yield st, True
                        return
                    for s2, c in self.eval(conds[j], st):
                        if isinstance(c, Raised):
                            yield s2, c
                            continue
                        for s3, b in self.truth(c, s2):
                            for s4, t in self.fork(s3, b):
                                if t:
                                    yield from chk(j + 1, s4)
                                else:
                                    yield s4, False
                for s2, keep in chk(0, st):
                    if isinstance(keep, Raised):
                        yield s2, keep
                    elif keep:
                        for s3, v in self.eval(e.elt, s2):
                            if isinstance(v, Raised):
                                yield s3, v
                            else:
                                yield from go(i + 1, s3, acc + (v,))
                    else:
                        yield from go(i + 1, s2, acc)
            yield from go(0, s1, ())

    def static_items(self, v, st):
        if v.k == TUPLE:
            return list(v.t)
        if v.k == "setdisp":
            return None
        if v.k == REF and isinstance(st.heap[v.t], CList):
            return list(st.heap[v.t].items)
        if v.k == "zip":
            return [vtuple(t) for t in zip(*v.t)]
        if v.k == "enum":
            return [vtuple((vint(i + v.a), x)) for i, x in enumerate(v.t)]
        if v.k == "crange":
            return [vint(i) for i in v.t]
        return None

    def bind_target(self, tgt, val, st):
        if isinstance(tgt, ast.Name):
            st.locals[tgt.id] = val
            return
        if isinstance(tgt, (ast.Tuple, ast.List)):
            items = self.static_items(val, st)
            if items is None or len(items) != len(tgt.elts):
                raise ToolLimit("unpacking of non-static value")
            for t, v in zip(tgt.elts, items):
                self.bind_target(t, v, st)
            return
        raise ToolLimit(f"binding target {type(tgt).__name__}")

    def e_Starred(self, e, st):
        raise ToolLimit("starred expression outside a call")


# ====================================================================== calls
class _CallMixin:
    SPEC_FUNCS = ("forall", "exists", "old", "implies", "ite", "trunc", "rhe", "floor", "is_int", "is_float", "is_bool",
                  "is_num", "is_str", "is_none", "inv", "same", "real", "iff", "forall_int", "seq_len",
                  "seq_at", "distinct_prefix", "kind_of")

    def spec_eval(self, src, st, names, old_st=None, node=None):
        node = node or self.parse_spec(src)
        saved = (self.spec_mode, getattr(self, "spec_names", None), self.spec_old)
        self.spec_mode += 1
        self.spec_names = names
        if old_st is not None:
            self.spec_old = old_st
        try:
            outs = list(self.eval(node, st))
        except ToolLimit as ex:
            raise SpecError(f"contract expression {src!r}: {ex}")
        finally:
            self.spec_mode, self.spec_names, self.spec_old = saved
        if len(outs) != 1 or isinstance(outs[0][1], Raised):
            raise SpecError(f"contract expression {src!r} is not a total pure expression here: {outs}")
        return outs[0][1]

    _spec_cache = {}

    def parse_spec(self, src):
        n = self._spec_cache.get(src)
        if n is None:
            n = ast.parse(src.strip(), mode="eval").body
            self._spec_cache[src] = n
        return n

    def spec_bool(self, src, st, names, old_st=None):
        v = self.spec_eval(src, st, names, old_st)
        if v.k != BOOL:
            bs = list(self.truth(v, st))
            return bs[0][1]
        return v.t

    def class_inv(self, objv, st):
        cell = st.heap[objv.t]
        cd = self.reg.classes.get(cell.cls)
        if cd is None:
            return []
        return [(src, self.spec_bool(src, st, {"self": objv})) for src in cd.inv]

    def spec_call(self, e, st):
        name = e.func.id
        if name in ("forall", "exists"):
            lam = e.args[0]
            if not isinstance(lam, ast.Lambda):
                raise SpecError("forall/exists need a lambda")
            bound = []
            saved = self.spec_names
            self.spec_names = dict(saved)
            for a in lam.args.args:
                x = z3.Int(f"q.{a.arg}!{self.fresh_id()}")
                bound.append(x)
                self.spec_names[a.arg] = vint(x)
            try:
                outs = list(self.eval(lam.body, st))
            finally:
                self.spec_names = saved
            body = outs[0][1]
            bt = body.t if body.k == BOOL else list(self.truth(body, st))[0][1]
            return vbool(z3.ForAll(bound, bt) if name == "forall" else z3.Exists(bound, bt))
        if name == "old":
            if self.spec_old is None:
                raise SpecError("old() without a pre-state")
            saved = self.spec_old
            try:
                outs = list(self.eval(e.args[0], saved))
            finally:
                self.spec_old = saved
            r = outs[0][1]
            if r.k == REF:
                return V("cell", saved.heap[r.t])
            return r
        args = []
        for a in e.args:
            outs = list(self.eval(a, st))
            if len(outs) != 1 or isinstance(outs[0][1], Raised):
                raise SpecError(f"spec argument not pure/total: {ast.unparse(a)}")
            args.append(outs[0][1])

        def b(v):
            return v.t if v.k == BOOL else list(self.truth(v, st))[0][1]
        if name == "implies":
            return vbool(z3.Implies(b(args[0]), b(args[1])))
        if name == "iff":
            return vbool(b(args[0]) == b(args[1]))
        if name == "ite" and args[1].k == "seq" and args[2].k == "seq":
            return V("seq", z3.If(b(args[0]), args[1].t, args[2].t), args[1].a)
        if name == "ite":
            m = self.merge(b(args[0]), args[1], args[2])
            if m is None:
                if is_num(args[1]) and is_num(args[2]):
                    x, y, k = coerce_pair(args[1], args[2])
                    return V(k, z3.If(b(args[0]), x, y))
                raise SpecError("ite branches of different kinds")
            return m
        if name == "trunc":
            v = args[0]
            return vint(trunc_real(v.t)) if v.k == REAL else vint(as_int_term(v))
        if name == "floor":
            v = args[0]
            return vint(floor_real(v.t)) if v.k == REAL else vint(as_int_term(v))
        if name == "rhe":
            v = args[0]
            return vint(round_half_even(v.t)) if v.k == REAL else vint(as_int_term(v))
        if name == "real":
            return vreal(as_real_term(args[0]))
        if name == "is_int":
            return vbool(args[0].k in (INT, BOOL))
        if name == "is_float":
            return vbool(args[0].k == REAL)
        if name == "is_bool":
            return vbool(args[0].k == BOOL)
        if name == "is_num":
            return vbool(is_num(args[0]))
        if name == "is_str":
            return vbool(args[0].k == STR)
        if name == "is_none":
            return vbool(args[0].k == NONE)
        if name == "kind_of":
            return vstr(args[0].k)
        if name == "inv":
            cl = [t for _, t in self.class_inv(args[0], st)]
            return vbool(z3.And(cl) if cl else z3.BoolVal(True))
        if name == "same":
            return vbool(self.same(args[0], args[1], st))
        if name in self.spec_funcs:
            return self.spec_funcs[name](self, st, *args)
        raise SpecError(f"spec function {name}")

    def same(self, a, b, st):
        if a.k == REF and b.k == REF:
            if a.t == b.t:
                return z3.BoolVal(True)
            return self.equal(a, b, st)
        return same_value(a, b)

    # ---------------------------------------------------------------- call dispatch
    def e_Call(self, e, st):
        if self.spec_mode and isinstance(e.func, ast.Name) and (
                e.func.id in self.SPEC_FUNCS or e.func.id in self.spec_funcs):
            yield st, self.spec_call(e, st)
            return
        # generator arguments of any()/all()/list()/tuple()/sorted()/join
        for s1, f in self.eval(e.func, st):
            if isinstance(f, Raised):
                yield s1, f
                continue
            yield from self.eval_args_then(e, f, s1)

    def eval_args_then(self, e, f, st):
        # special forms taking a generator expression
        if (len(e.args) == 1 and isinstance(e.args[0], ast.GeneratorExp) and not e.keywords):
            for s1, items in self.comp_items(e.args[0], st):
                if isinstance(items, Raised):
                    yield s1, items
                elif isinstance(items, V) and items.k == "mapped":
                    yield from self.apply(f, [s1.alloc(SList(items.t, items.a))], {}, s1, e, from_gen=True)
                else:
                    yield from self.apply(f, [vtuple(items)], {}, s1, e, from_gen=True)
            return
        pos_nodes, star = [], []
        for a in e.args:
            if isinstance(a, ast.Starred):
                pos_nodes.append(a.value)
                star.append(True)
            else:
                pos_nodes.append(a)
                star.append(False)
        kw_nodes = []
        for k in e.keywords:
            if k.arg is None:
                raise ToolLimit("**kwargs at a call site")
            kw_nodes.append(k)
        for s1, vs in self.eval_list(pos_nodes + [k.value for k in kw_nodes], st):
            if isinstance(vs, Raised):
                yield s1, vs
                continue
            pos = []
            for v, is_star in zip(vs[:len(pos_nodes)], star):
                if is_star:
                    items = self.static_items(v, s1)
                    if items is None:
                        raise ToolLimit("*args of non-static length")
                    pos.extend(items)
                else:
                    pos.append(v)
            kw = {k.arg: v for k, v in zip(kw_nodes, vs[len(pos_nodes):])}
            yield from self.apply(f, pos, kw, s1, e)

    def apply(self, f, pos, kw, st, node, from_gen=False):
        if f.k == CLS:
            tag = f.t[0]
            if tag == "builtin":
                yield from self.call_builtin(f.t[1], pos, kw, st, node, from_gen)
                return
            if tag == "exc":
                yield st, V(EXC, f.t[1], tuple(pos))
                return
            if tag == "class":
                yield from self.instantiate(f.t[1], f.t[2], pos, kw, st, node)
                return
        if f.k == FN:
            tag = f.t[0]
            if tag == "builtin":
                yield from self.call_builtin(f.t[1], pos, kw, st, node, from_gen)
                return
            if tag == "cprim":
                yield from self.call_c_prim(f.t[1], pos, st, node)
                return
            if tag == "func":
                yield from self.call_unit(f.t[1], f.t[2], None, pos, kw, st, node)
                return
            if tag == "method":
                _, file, cname, mname, selfv = f.t
                if selfv is None:
                    # Class.method(...) - staticmethod or explicit self
                    ci = self.modules[file].classes[cname]
                    if mname in ci.static:
                        yield from self.call_unit(file, f"{cname}.{mname}", None, pos, kw, st, node)
                        return
                    raise ToolLimit("unbound method call")
                yield from self.call_unit(file, f"{cname}.{mname}", selfv, pos, kw, st, node)
                return
            if tag == "listmethod":
                yield from self.call_listmethod(f.t[1], f.t[2], pos, kw, st, node)
                return
            if tag == "strmethod":
                yield from self.call_strmethod(f.t[1], f.t[2], pos, kw, st, node)
                return
            if tag == "mapmethod":
                yield from self.call_mapmethod(f.t[1], f.t[2], pos, kw, st, node)
                return
            if tag == "extmethod":
                _, ename, attr, base = f.t
                c = self.reg.lookup("<extern>", f"{ename}.{attr}")
                if c is None:
                    raise ToolLimit(f"no assumed contract for external method {ename}.{attr}")
                yield from self.call_contract(c, None, base, pos, kw, st, node)
                return
            if tag == "extfn":
                c = self.reg.lookup("<extern>", f.t[1])
                if c is None:
                    raise ToolLimit(f"no assumed contract for external callable {f.t[1]}")
                yield from self.call_contract(c, None, None, pos, kw, st, node)
                return
        raise ToolLimit(f"call of {f.k}:{f.t if f.k != REF else ''}")

    # ---------------------------------------------------------------- builtins
    C_PRIMS = ("ck_i8", "ck_i16", "ck_i32", "ck_i64", "wrap_u8", "wrap_u16", "wrap_u32", "wrap_u64", "c_div", "c_mod", "i2f", "f_div",
               "f2i_i8", "f2i_i16", "f2i_i32", "f2i_u8", "f2i_u16", "f2i_u32", "c_bitand", "c_shl", "c_shr", "str_of_int", "str_of_float2",
               "str_substring")

    def call_c_prim(self, name, pos, st, node):
        """C/AVR semantics made explicit by cxx2py.  Signed overflow, division by zero and out-of-range float->int
        conversions are undefined behaviour: each generates a run-time-error obligation (never wrap-around)."""
        site = self.call_ordinal(st, node, name)
        if name.startswith("ck_i"):
            bits = int(name[4:])
            v = as_int_term(pos[0])
            if getattr(self, "assume_in_range", False):
                st.assume(z3.And(v >= -(2 ** (bits - 1)), v <= 2 ** (bits - 1) - 1))
                yield st, vint(v)
                return
            self.oblige(st, f"rte/no-overflow-{name[3:]}#{site}", z3.And(v >= -(2 ** (bits - 1)), v <= 2 ** (bits - 1) - 1),
                        f"signed {bits}-bit result in range")
            yield st, vint(v)
            return
        if name.startswith("wrap_u"):
            bits = int(name[6:])
            v = simp(as_int_term(pos[0]))
            in_range = z3.And(v >= 0, v < 2 ** bits)
            if (z3.is_int_value(v) and 0 <= v.as_long() < 2 ** bits) or not self.feasible(st.pc, z3.Not(in_range)):
                yield st, vint(v)      # value already representable: the conversion is the identity
            else:
                yield st, vint(v % (2 ** bits))
            return
        if name in ("c_div", "c_mod"):
            a, b = as_int_term(pos[0]), as_int_term(pos[1])
            self.oblige(st, f"rte/div-by-zero#{site}", b != 0, "integer division by zero")
            q = z3.If(b > 0, z3.If(a >= 0, a / b, -((-a) / b)), z3.If(a >= 0, -(a / (-b)), (-a) / (-b)))
            yield st, vint(q if name == "c_div" else a - b * q)
            return
        if name == "i2f":
            yield st, vreal(as_real_term(pos[0]))
            return
        if name == "f_div":
            a, b = as_real_term(pos[0]), as_real_term(pos[1])
            self.oblige(st, f"rte/float-div-by-zero#{site}", b != 0, "float division by zero")
            yield st, vreal(a / b)
            return
        if name.startswith("f2i_"):
            signed, bits = name[4] == "i", int(name[5:])
            x = as_real_term(pos[0])
            t = trunc_real(x)
            lo, hi = (-(2 ** (bits - 1)), 2 ** (bits - 1) - 1) if signed else (0, 2 ** bits - 1)
            if getattr(self, "assume_in_range", False):
                st.assume(z3.And(t >= lo, t <= hi))
                yield st, vint(t)
                return
            self.oblige(st, f"rte/float-to-int-{name[4:]}#{site}", z3.And(t >= lo, t <= hi), "float value representable in the integer type")
            yield st, vint(t)
            return
        if name in ("c_shl", "c_shr"):
            a, b = as_int_term(pos[0]), simp(as_int_term(pos[1]))
            if z3.is_int_value(b) and 0 <= b.as_long() < 15:
                # gcc/AVR: >> on a negative int is an arithmetic shift (floor); << is a multiplication (overflow is the caller's ck_)
                yield st, vint(a * (2 ** b.as_long()) if name == "c_shl" else floordiv_int(a, z3.IntVal(2 ** b.as_long())))
                return
            raise ToolLimit("shift by a non-constant amount")
        if name == "c_bitand":
            a, b = as_int_term(pos[0]), simp(as_int_term(pos[1]))
            if z3.is_int_value(b) and (b.as_long() + 1) & b.as_long() == 0:
                self.oblige(st, f"rte/bitand-nonneg#{site}", a >= 0, "masking a non-negative value")
                yield st, vint(a % (b.as_long() + 1))
                return
            raise ToolLimit("bitwise and with a non-mask operand")
        if name == "str_of_int":
            yield st, vstr(self.to_str_term(vint(as_int_term(pos[0])), st))
            return
        if name == "str_of_float2":
            yield st, vstr(self.STR_OF_REAL(as_real_term(pos[0])))
            return
        if name == "str_substring":
            s, a, b = pos[0].t, as_int_term(pos[1]), as_int_term(pos[2])
            n = z3.Length(s)
            # Arduino String::substring: begin > end are swapped; end clamped to length; begin >= length -> ""
            lo = z3.If(a > b, b, a)
            hi = z3.If(a > b, a, b)
            hi = z3.If(hi > n, n, hi)
            yield st, vstr(z3.If(lo >= n, z3.StringVal(""), z3.SubString(s, lo, hi - lo)))
            return
        raise ToolLimit(f"C primitive {name}")

    def call_builtin(self, name, pos, kw, st, node, from_gen=False):
        if kw and name not in ("print", "sorted"):
            raise ToolLimit(f"keyword arguments to builtin {name}")
        n = len(pos)
        if name == "int":
            if n == 0:
                yield st, vint(0)
                return
            v = pos[0]
            if n == 1 and v.k == INT:
                yield st, V(INT, v.t, v.a)
            elif n == 1 and v.k == BOOL:
                yield st, vint(as_int_term(v))
            elif n == 1 and v.k == REAL:
                yield st, V(INT, trunc_real(v.t))
            elif n == 1 and v.k == STR:
                # ASCII decimal digits with optional sign and surrounding blanks are accepted by int();
                # only the plain-digit case is modelled exactly, anything else is a tool limit
                dig = z3.InRe(v.t, z3.Plus(z3.Range("0", "9")))
                for s1, ok in self.fork(st, dig):
                    if ok:
                        yield s1, vint(z3.StrToInt(v.t))
                    else:
                        raise ToolLimit("int(str) on a string not known to be all ASCII digits")
            elif v.k in (NONE, TUPLE):
                yield st, Raised("TypeError")
            else:
                raise ToolLimit(f"int() of {v.k}")
            return
        if name == "float":
            if n == 0:
                yield st, vreal(0)
                return
            v = pos[0]
            if is_num(v):
                yield st, V(REAL, as_real_term(v), v.a if v.k == REAL else None)
            elif v.k in (NONE, TUPLE):
                yield st, Raised("TypeError")
            elif v.k == "pyval":
                raise ToolLimit("float() of dynamic value")
            else:
                raise ToolLimit(f"float() of {v.k}")
            return
        if name == "bool":
            if n == 0:
                yield st, FALSE
                return
            for s1, b in self.truth(pos[0], st):
                yield s1, vbool(b)
            return
        if name == "str":
            if n == 0:
                yield st, vstr("")
                return
            yield st, vstr(self.to_str_term(pos[0], st))
            return
        if name == "round":
            if n == 1 and pos[0].k == REAL:
                yield st, vint(round_half_even(pos[0].t))
            elif n == 1 and pos[0].k in (INT, BOOL):
                yield st, vint(as_int_term(pos[0]))
            else:
                raise ToolLimit("round() form")
            return
        if name == "abs":
            v = pos[0]
            if v.k == REAL:
                yield st, V(REAL, z3.If(v.t >= 0, v.t, -v.t), v.a)
            elif v.k in (INT, BOOL):
                t = as_int_term(v)
                yield st, vint(z3.If(t >= 0, t, -t))
            else:
                yield st, Raised("TypeError")
            return
        if name in ("min", "max"):
            items = pos
            if n == 1:
                items = self.static_items(pos[0], st)
                if items is None:
                    raise ToolLimit("min/max of non-static iterable")
            if not items:
                yield st, Raised("ValueError")
                return
            if not all(is_num(x) for x in items):
                raise ToolLimit("min/max on non-numbers")
            kinds = {INT if x.k == BOOL else x.k for x in items}
            acc = items[0]
            widened = any(x.a == "widened" for x in items)
            if len(kinds) == 1:
                k = kinds.pop()
                t = num_term(acc)
                for x in items[1:]:
                    xt = num_term(x)
                    t = z3.If(xt < t, xt, t) if name == "min" else z3.If(xt > t, xt, t)
                yield st, V(k, t, "widened" if widened else None)
            else:
                # mixed int/float: Python returns one of the operands (its own type).  The numeric
                # value is what is modelled; the result is flagged so that a later type test or
                # str() on it is a tool limit rather than a wrong answer.
                t = as_real_term(acc)
                for x in items[1:]:
                    xt = as_real_term(x)
                    t = z3.If(xt < t, xt, t) if name == "min" else z3.If(xt > t, xt, t)
                yield st, V(REAL, t, "widened")
            return
        if name == "len":
            v = pos[0]
            if v.k == "cell" and isinstance(v.t, SList):
                yield st, vint(z3.Length(v.t.seq))
                return
            if v.k == "cell" and isinstance(v.t, AList):
                yield st, vint(v.t.n)
                return
            if v.k == "seq":
                yield st, vint(z3.Length(v.t))
                return
            if v.k in ("cset", "cmap"):
                yield st, vint(len(v.t))
                return
            if v.k == STR:
                yield st, vint(z3.Length(v.t))
            elif v.k == TUPLE:
                yield st, vint(len(v.t))
            elif v.k == "setdisp":
                items = v.t
                cnt = z3.IntVal(0)
                for i, x in enumerate(items):
                    dup = z3.Or([self.equal(x, y, st) for y in items[:i]] or [z3.BoolVal(False)])
                    cnt = cnt + z3.If(dup, 0, 1)
                yield st, vint(cnt)
            elif v.k == REF:
                cell = st.heap[v.t]
                if isinstance(cell, CList):
                    yield st, vint(len(cell.items))
                elif isinstance(cell, CharList):
                    yield st, vint(z3.Length(cell.s))
                elif isinstance(cell, AList):
                    yield st, vint(cell.n)
                elif isinstance(cell, SList):
                    yield st, vint(z3.Length(cell.seq))
                else:
                    raise ToolLimit("len of heap value")
            else:
                yield st, Raised("TypeError")
            return
        if name == "isinstance":
            v, c = pos
            classes = c.t if c.k == TUPLE else (c,)
            res = False
            for cl in classes:
                if cl.k != CLS:
                    raise ToolLimit("isinstance against non-class")
                if v.a == "widened":
                    raise ToolLimit("type test on a value whose int/float kind was widened")
                if cl.t[0] == "builtin":
                    nm = cl.t[1]
                    if v.k == ANY or v.k == "pyval":
                        raise ToolLimit("isinstance on opaque value")
                    hit = {"int": v.k in (INT, BOOL), "float": v.k == REAL, "bool": v.k == BOOL,
                           "str": v.k == STR, "tuple": v.k == TUPLE,
                           "list": v.k == REF and isinstance(st.heap[v.t], (CList, SList)),
                           "dict": v.k == REF and isinstance(st.heap[v.t], Map),
                           "set": v.k in ("setdisp", "cset"), "bytes": False, "bytearray": False,
                           "object": True}.get(nm)
                    if hit is None:
                        raise ToolLimit(f"isinstance(_, {nm})")
                    res = res or hit
                elif cl.t[0] == "class":
                    if v.k == REF and isinstance(st.heap[v.t], Obj):
                        res = res or self.is_subclass(st.heap[v.t].cls, cl.t[2])
                    elif v.k in (ANY, "pyval"):
                        raise ToolLimit("isinstance on opaque value")
                else:
                    raise ToolLimit("isinstance against exception class")
            yield st, vbool(bool(res))
            return
        if name == "callable":
            v = pos[0]
            if v.k in (FN, CLS):
                yield st, TRUE
            elif v.k in (NONE, INT, REAL, BOOL, STR, TUPLE):
                yield st, FALSE
            else:
                raise ToolLimit(f"callable({v.k})")
            return
        if name in ("any", "all"):
            items = self.static_items(pos[0], st)
            if items is None:
                raise ToolLimit("any/all over non-static iterable")
            bs = []
            for x in items:
                bs.append(list(self.truth(x, st))[0][1])
            if name == "any":
                yield st, vbool(z3.Or(bs) if bs else z3.BoolVal(False))
            else:
                yield st, vbool(z3.And(bs) if bs else z3.BoolVal(True))
            return
        if name in ("list", "tuple"):
            if n == 0:
                yield st, (st.alloc(CList(())) if name == "list" else vtuple(()))
                return
            v = pos[0]
            if v.k == STR and name == "list":
                yield st, st.alloc(CharList(v.t))
                return
            items = self.static_items(v, st)
            if items is not None:
                yield st, (st.alloc(CList(items)) if name == "list" else vtuple(items))
                return
            if v.k == REF and isinstance(st.heap[v.t], SList) and name == "list":
                c = st.heap[v.t]
                yield st, st.alloc(SList(c.seq, c.ek))
                return
            raise ToolLimit(f"{name}() of {v.k}")
        if name == "range":
            if any(x.k not in (INT, BOOL) for x in pos):
                yield st, Raised("TypeError")
                return
            ts = [as_int_term(x) for x in pos]
            if n == 1:
                lo, hi = z3.IntVal(0), ts[0]
            elif n == 2:
                lo, hi = ts
            else:
                raise ToolLimit("range with step")
            if any(x.k not in (INT, BOOL) for x in pos):
                yield st, Raised("TypeError")
                return
            yield st, V("iter", {"kind": "range", "lo": simp(lo), "hi": simp(hi)})
            return
        if name == "enumerate":
            start = 0
            if n == 2:
                s = simp(as_int_term(pos[1]))
                if not z3.is_int_value(s):
                    raise ToolLimit("enumerate with symbolic start")
                start = s.as_long()
            items = self.static_items(pos[0], st)
            if items is not None:
                yield st, V("enum", tuple(items), start)
            else:
                yield st, V("iter", {"kind": "enum", "inner": pos[0], "start": start})
            return
        if name == "zip":
            lists = [self.static_items(x, st) for x in pos]
            if any(l is None for l in lists):
                raise ToolLimit("zip over non-static iterables")
            m = min(len(l) for l in lists) if lists else 0
            yield st, V("zip", tuple(tuple(l[:m]) for l in lists))
            return
        if name == "print":
            hook = self.hooks.get("print")
            if hook:
                yield from hook(self, pos, kw, st)
            else:
                yield st, VNONE
            return
        if name == "sorted":
            v = pos[0]
            if v.k in ("cmap", "cset"):
                keys = [k for k, _ in v.t] if v.k == "cmap" else list(v.t)
                ks = [simp(k.t) for k in keys]
                if all(z3.is_string_value(k) for k in ks):
                    yield st, st.alloc(CList([vstr(s) for s in sorted(k.as_string() for k in ks)]))
                    return
            raise ToolLimit("sorted()")
        if name in ("getattr", "setattr", "hasattr", "eval", "exec", "open", "compile", "__import__"):
            raise ToolLimit(f"builtin {name}")
        raise ToolLimit(f"builtin {name}")

    def is_subclass(self, cname, base):
        if cname == base:
            return True
        cd = self.reg.classes.get(cname)
        return bool(cd and any(self.is_subclass(b, base) for b in cd.bases))

    # ---------------------------------------------------------------- list / str / map methods
    def call_listmethod(self, attr, base, pos, kw, st, node):
        cell = st.heap[base.t]
        if attr == "append" and len(pos) == 1 and isinstance(cell, AList):
            if pos[0].k != cell.ek:
                raise ToolLimit("append of a different kind to a typed list")
            st.heap[base.t] = AList(z3.Store(cell.arr, cell.n, pos[0].t), cell.n + 1, cell.ek)
            yield st, VNONE
            return
        if attr == "append" and len(pos) == 1:
            if isinstance(cell, CList):
                st.heap[base.t] = CList(cell.items + (pos[0],))
            else:
                if pos[0].k != cell.ek:
                    raise ToolLimit("append of a different kind to a typed list")
                st.heap[base.t] = SList(z3.Concat(cell.seq, z3.Unit(pos[0].t)), cell.ek)
            yield st, VNONE
            return
        if attr == "extend" and len(pos) == 1 and pos[0].k == REF and isinstance(st.heap[pos[0].t], SList):
            other = st.heap[pos[0].t]
            if isinstance(cell, CList):
                if not all(x.k == other.ek for x in cell.items):
                    raise ToolLimit("extend: element kinds differ")
                units = [z3.Unit(x.t) for x in cell.items]
                base_seq = z3.Concat(*units) if len(units) > 1 else (units[0] if units else z3.Empty(other.seq.sort()))
                st.heap[base.t] = SList(z3.Concat(base_seq, other.seq), other.ek)
            else:
                st.heap[base.t] = SList(z3.Concat(cell.seq, other.seq), cell.ek)
            yield st, VNONE
            return
        if attr == "extend" and len(pos) == 1:
            items = self.static_items(pos[0], st)
            if items is not None and isinstance(cell, CList):
                st.heap[base.t] = CList(cell.items + tuple(items))
                yield st, VNONE
                return
            hook = self.hooks.get("list.extend")
            if hook:
                yield from hook(self, base, pos, st, node)
                return
        raise ToolLimit(f"list.{attr}")

    ISDIGIT = None

    def call_strmethod(self, attr, base, pos, kw, st, node):
        s = base.t
        if kw and attr != "format":
            raise ToolLimit(f"keyword arguments to str.{attr}")
        if attr == "isdigit" and not pos:
            # ASCII model of str.isdigit (assumption A-ASCII)
            yield st, vbool(z3.InRe(s, z3.Plus(z3.Range("0", "9"))))
            return
        if attr in ("startswith", "endswith") and len(pos) == 1 and pos[0].k == STR:
            yield st, vbool(z3.PrefixOf(pos[0].t, s) if attr == "startswith" else z3.SuffixOf(pos[0].t, s))
            return
        if attr == "join" and len(pos) == 1:
            items = self.static_items(pos[0], st)
            if items is not None:
                if not all(x.k == STR for x in items):
                    yield st, Raised("TypeError")
                    return
                parts = []
                for i, x in enumerate(items):
                    if i:
                        parts.append(s)
                    parts.append(x.t)
                yield st, vstr(z3.Concat(*parts) if len(parts) > 1 else (parts[0] if parts else z3.StringVal("")))
                return
            if pos[0].k == REF and isinstance(st.heap[pos[0].t], CharList):
                if z3.is_string_value(simp(s)) and simp(s).as_string() == "":
                    yield st, vstr(st.heap[pos[0].t].s)
                    return
                raise ToolLimit("join of a character list with a non-empty separator")
            if pos[0].k == REF and isinstance(st.heap[pos[0].t], SList) and st.heap[pos[0].t].ek == STR:
                seq = st.heap[pos[0].t].seq
                yield st, vstr(py_join()(s, seq, z3.Length(seq)))
                return
        if attr == "encode":
            yield st, V(STR, s, "bytes")
            return
        if attr == "format" and not pos:
            tpl = simp(s)
            if not z3.is_string_value(tpl):
                raise ToolLimit("str.format on a non-constant template")
            import string
            parts = []
            for lit, field, spec, conv in string.Formatter().parse(tpl.as_string()):
                if lit:
                    parts.append(z3.StringVal(lit))
                if field is not None:
                    if spec or conv or field not in kw:
                        raise ToolLimit("str.format field form")
                    parts.append(self.to_str_term(kw[field], st))
            yield st, vstr(z3.Concat(*parts) if len(parts) > 1 else (parts[0] if parts else z3.StringVal("")))
            return
        if attr == "rstrip" and not pos:
            yield st, vstr(py_rstrip(st, s))
            return
        if attr in ("strip", "lstrip") and not pos:
            yield st, vstr(py_strip(st, s, attr))
            return
        if attr == "lower" and not pos:
            yield st, vstr(py_lower(st, s))
            return
        if attr == "ljust" and len(pos) == 1:
            n = as_int_term(pos[0])
            yield st, vstr(z3.Concat(s, py_repeat(st, z3.StringVal(" "), n - z3.Length(s))))
            return
        hook = self.hooks.get("str." + attr)
        if hook:
            yield from hook(self, base, pos, kw, st, node)
            return
        raise ToolLimit(f"str.{attr}")

    def call_mapmethod(self, attr, base, pos, kw, st, node):
        cell = st.heap[base.t]
        if attr == "get" and 1 <= len(pos) <= 2:
            k = self.pykey(pos[0])
            default = pos[1] if len(pos) == 2 else VNONE
            for s1, ok in self.fork(st, z3.Select(cell.dom, k)):
                yield s1, (self.map_value(cell, k) if ok else default)
            return
        raise ToolLimit(f"dict.{attr}")

    # ---------------------------------------------------------------- user functions
    def find_def(self, file, qual):
        mi = self.modules[file]
        if "." in qual:
            cname, m = qual.split(".", 1)
            return mi.classes[cname].methods[m]
        return mi.functions[qual]

    def bind_args(self, fn, pos, kw, st, has_self, file):
        """Python's binder for plain (no *args/**kwargs) signatures. Returns dict or Raised."""
        a = fn.args
        if a.vararg or a.kwarg:
            raise ToolLimit("*args/**kwargs signature")
        params = [p.arg for p in a.posonlyargs + a.args]
        if has_self:
            params = params[1:]
        defaults = dict(zip(params[len(params) - len(a.defaults):], a.defaults)) if a.defaults else {}
        kwonly = [p.arg for p in a.kwonlyargs]
        kwdefaults = {p.arg: d for p, d in zip(a.kwonlyargs, a.kw_defaults) if d is not None}
        if len(pos) > len(params):
            return Raised("TypeError")
        bound = dict(zip(params, pos))
        for k, v in kw.items():
            if k in bound or (k not in params and k not in kwonly):
                return Raised("TypeError")
            bound[k] = v
        for p in params + kwonly:
            if p not in bound:
                d = defaults.get(p) if p in params else kwdefaults.get(p)
                if d is None:
                    return Raised("TypeError")
                outs = list(self.eval(d, st))
                if len(outs) != 1 or isinstance(outs[0][1], Raised):
                    raise ToolLimit("non-constant default argument")
                bound[p] = outs[0][1]
        return bound

    def call_unit(self, file, qual, selfv, pos, kw, st, node):
        c = self.reg.lookup(file, qual)
        if c is None:
            # a helper (of a generated cxx2py module or of a host module) that has no contract of its own is verified as part
            # of its callers: inlining its real body is sound (recursion is cut by the inline depth limit)
            if True:
                try:
                    fn0 = self.find_def(file, qual)
                except (KeyError, AttributeError):
                    fn0 = None
                if fn0 is not None:
                    from pyvc.contracts import Contract
                    yield from self.call_inline(Contract(qual, file, inline=True), fn0, file, qual, selfv, pos, kw, st, node)
                    return
            raise ToolLimit(f"call to {qual} which has no contract")
        fn = None if c.extern else self.find_def(file, qual)
        if c.extern:
            # an assumed / elsewhere-proved contract: the real signature (if the function exists and is plain) still binds the arguments
            try:
                real = self.find_def(file, qual)
                if real.args.vararg or real.args.kwarg:
                    real = None
            except (KeyError, AttributeError):
                real = None
            yield from self.call_contract(c, real, selfv, pos, kw, st, node, file)
        elif c.inline:
            yield from self.call_inline(c, fn, file, qual, selfv, pos, kw, st, node)
        else:
            yield from self.call_contract(c, fn, selfv, pos, kw, st, node, file)

    def call_inline(self, c, fn, file, qual, selfv, pos, kw, st, node):
        if len(st.sframes) > 12:
            raise ToolLimit("inline depth")
        is_static = "." in qual and qual.split(".")[1] in self.modules[file].classes[qual.split(".")[0]].static
        has_self = selfv is not None and not is_static
        bound = self.bind_args(fn, pos, kw, st, has_self, file)
        if isinstance(bound, Raised):
            yield st, bound
            return
        self.inlined.add(f"{file}:{qual}")
        cls = qual.split(".")[0] if "." in qual else None
        newlocals = dict(bound)
        if has_self:
            newlocals[fn.args.args[0].arg] = selfv
        st.frames.append(newlocals)
        st.sframes.append(Frame(fn, file, qual, cls, c))
        for out, s1 in self.exec_block(fn.body, st):
            s1.frames.pop()
            s1.sframes.pop()
            if out[0] in ("return", "raise"):
                yield s1, out[1]
            elif out[0] == "next":
                yield s1, VNONE
            else:
                raise ToolLimit("break/continue escaping a function")

    def arg_names(self, c, fn, pos, kw, st, has_self, file):
        if fn is not None:
            return self.bind_args(fn, pos, kw, st, has_self, file)
        params = list(c.params)
        if len(pos) > len(params):
            return Raised("TypeError")
        bound = dict(zip(params, pos))
        for k, v in kw.items():
            if k in bound or k not in params:
                return Raised("TypeError")
            bound[k] = v
        for p in params:
            if p not in bound:
                d = getattr(c, "defaults", {}).get(p, "__missing__")
                if d == "__missing__":
                    return Raised("TypeError")
                bound[p] = const(d)
        return bound

    def call_contract(self, c, fn, selfv, pos, kw, st, node, file=None):
        """Modular call: assert pre, fork exceptional posts, havoc frame, assume post."""
        is_static = False
        if fn is not None and "." in c.name:
            is_static = c.name.split(".")[1] in self.modules[c.file].classes[c.name.split(".")[0]].static
        has_self = selfv is not None and fn is not None and not is_static
        bound = self.arg_names(c, fn, pos, kw, st, has_self, file)
        if isinstance(bound, Raised):
            yield st, bound
            return
        for p, v in bound.items():
            spec = c.params.get(p)
            if spec is not None and not typespec.kind_matches(v, spec, st):
                raise ToolLimit(f"call to {c.name}: argument {p} has kind {typespec.spec_of(v, st)}, "
                                f"contract admits {spec}")
        names = dict(bound)
        if selfv is not None:
            names["self"] = selfv
        tag = f"{c.name}#{self.call_ordinal(st, node, c.name)}"
        pre = st.copy()
        # preconditions
        for i, src in enumerate(c.requires):
            self.oblige(st, f"pre@{tag}/{i + 1}", self.spec_bool(src, st, names, pre), src)
        if selfv is not None and c.public and not c.is_init and st.heap[selfv.t].__class__ is Obj:
            for i, (src, t) in enumerate(self.class_inv(selfv, st)):
                self.oblige(st, f"pre-inv@{tag}/{i + 1}", t, src)
        # exceptional exits (iff-conditions over the pre-state)
        conds = []
        for exc, src in c.raises.items():
            conds.append((exc, self.spec_bool(src, st, names, pre)))
        none_raised = z3.Not(z3.Or([t for _, t in conds])) if conds else z3.BoolVal(True)
        outs = []
        for exc, t in conds:
            ts = simp(t)
            if z3.is_false(ts) or not self.feasible(st.pc, ts):
                continue
            s2 = st.copy()
            s2.assume(ts)
            if not c.atomic:
                for s3 in self.havoc(c, selfv, s2):
                    nr = dict(names)
                    nr["raised"] = vstr(exc)
                    for src in c.on_raise:
                        s3.assume(self.spec_bool(src, s3, nr, pre))
                    outs.append((s3, Raised(exc)))
            else:
                outs.append((s2, Raised(exc)))
        for exc in c.may_raise_other:
            s2 = st.copy()
            for s3 in self.havoc(c, selfv, s2) if not c.atomic else [s2]:
                nr = dict(names)
                nr["raised"] = vstr(exc)
                for src in c.on_raise:
                    s3.assume(self.spec_bool(src, s3, nr, pre))
                outs.append((s3, Raised(exc)))
        ns = simp(none_raised)
        if not z3.is_false(ns) and self.feasible(st.pc, ns):
            s2 = st
            s2.assume(ns)
            for s3 in self.havoc(c, selfv, s2):
                rspec = c.returns(bound, s3) if callable(c.returns) else c.returns
                for alt in typespec.alternatives(rspec):
                    s4 = s3.copy() if len(typespec.alternatives(rspec)) > 1 else s3
                    res = typespec.make(alt, f"ret_{c.name}!{self.fresh_id()}", s4, self)
                    n2 = dict(names)
                    n2["result"] = res
                    for g, src in c.ghost_update.items():
                        self.set_path(g, self.spec_eval(src, s4, n2, pre), selfv, s4)
                    for src in c.ensures:
                        s4.assume(self.spec_bool(src, s4, n2, pre))
                    if selfv is not None and c.public and isinstance(s4.heap[selfv.t], Obj):
                        for src, t in self.class_inv(selfv, s4):
                            s4.assume(t)
                    outs.append((s4, res))
        for o in outs:
            yield o

    def call_ordinal(self, st, node, cname):
        """Stable site name: n-th call (source order) in the enclosing function, not a line number."""
        fr = st.sframes[-1] if st.sframes else None
        if fr is None or node is None:
            return 0
        calls = [n for n in ast.walk(fr.fn) if isinstance(n, ast.Call)]
        calls.sort(key=lambda n: (n.lineno, n.col_offset))
        short = cname.split(".")[-1]
        k = 0
        for n in calls:
            f = n.func
            nm = f.attr if isinstance(f, ast.Attribute) else getattr(f, "id", None)
            if nm == short:
                k += 1
                if n is node:
                    break
        prefix = "" if len(st.sframes) == 1 else fr.qual + ":"
        return f"{prefix}{k}"

    _fid = [0]

    def fresh_id(self):
        self._fid[0] += 1
        return self._fid[0]

    def set_path(self, path, val, selfv, st):
        if path.startswith("self."):
            cell = st.heap[selfv.t]
            f = dict(cell.fields)
            f[path[5:]] = val
            st.heap[selfv.t] = Obj(cell.cls, f)
        elif path.startswith("ghost."):
            if val.k == "cell":
                val = st.alloc(val.t)
            st.ghost[path[6:]] = val
        elif path.startswith("glob."):
            st.glob[path[5:]] = val
        else:
            raise SpecError(f"ghost update path {path}")

    def havoc(self, c, selfv, st):
        """yield states with every location in c.modifies replaced by a fresh value."""
        states = [st]
        for m in c.modifies:
            new_states = []
            for s in states:
                if m.startswith("self."):
                    fld = m[5:]
                    cell = s.heap[selfv.t]
                    cd = self.reg.classes[cell.cls]
                    spec = cd.fields.get(fld) or cd.ghost_fields.get(fld)
                    alts = typespec.alternatives(spec)
                    for alt in alts:
                        s2 = s.copy() if len(alts) > 1 else s
                        f = dict(s2.heap[selfv.t].fields)
                        f[fld] = typespec.make(alt, f"{fld}!{self.fresh_id()}", s2, self)
                        s2.heap[selfv.t] = Obj(cell.cls, f)
                        new_states.append(s2)
                elif m.startswith("ghost."):
                    g = m[6:]
                    s.ghost[g] = self.fresh_like(s.ghost[g], g, s)
                    new_states.append(s)
                elif m.startswith("glob."):
                    g = m[5:]
                    s.glob[g] = self.fresh_like(s.glob[g], g, s)
                    new_states.append(s)
                else:
                    raise SpecError(f"modifies entry {m}")
            states = new_states
        return states

    def fresh_like(self, v, name, st):
        n = f"{name}!{self.fresh_id()}"
        if v.k in (INT, REAL, BOOL, STR, ANY):
            return named(v.k, n)
        if v.k == "seq":
            return V("seq", z3.Const(n, v.t.sort()), v.a)
        if v.k == TUPLE:
            return vtuple([self.fresh_like(x, f"{name}.{i}", st) for i, x in enumerate(v.t)])
        if v.k == REF:
            cell = st.heap[v.t]
            if isinstance(cell, Map):
                st.heap[v.t] = Map(z3.Const(n + ".arr", cell.arr.sort()), z3.Const(n + ".dom", cell.dom.sort()), cell.vk)
                return v
            if isinstance(cell, SList):
                st.heap[v.t] = SList(z3.Const(n, cell.seq.sort()), cell.ek)
                return v
            if isinstance(cell, AList):
                st.heap[v.t] = AList(z3.Const(n + ".arr", cell.arr.sort()), z3.Int(n + ".len"), cell.ek)
                return v
        raise ToolLimit(f"havoc of {v.k}")

    def instantiate(self, file, cname, pos, kw, st, node):
        c = self.reg.lookup(file, f"{cname}.__init__")
        if c is None:
            raise ToolLimit(f"instantiation of {cname} without an __init__ contract")
        cd = self.reg.classes[cname]
        fields = {}
        obj = st.alloc(Obj(cname, fields))
        fn = self.find_def(file, f"{cname}.__init__")
        for s1, r in self.call_contract(c, fn, obj, pos, kw, st, node, file):
            if isinstance(r, Raised):
                yield s1, r
            else:
                yield s1, obj


for _n, _f in list(_CallMixin.__dict__.items()):
    if not _n.startswith("__"):
        setattr(Engine, _n, _f)


# ====================================================================== statements
POISON = V("poison")


class _StmtMixin:
    def exec_block(self, stmts, st):
        if not stmts:
            yield ("next",), st
            return
        for out, s1 in self.exec_stmt(stmts[0], st):
            if out[0] == "next":
                yield from self.exec_block(stmts[1:], s1)
            else:
                yield out, s1

    def exec_stmt(self, s, st):
        m = getattr(self, "x_" + type(s).__name__, None)
        if m is None:
            raise ToolLimit(f"statement {type(s).__name__} at line {s.lineno}")
        self.paths += 1
        if self.paths > 200000:
            raise ToolLimit("path/statement budget exhausted")
        return m(s, st)

    def x_Pass(self, s, st):
        yield ("next",), st

    def x_Expr(self, s, st):
        if isinstance(s.value, ast.Constant):
            yield ("next",), st
            return
        for s1, v in self.eval(s.value, st):
            if isinstance(v, Raised):
                yield ("raise", v), s1
            else:
                yield ("next",), s1

    def x_Return(self, s, st):
        if s.value is None:
            yield ("return", VNONE), st
            return
        for s1, v in self.eval(s.value, st):
            if isinstance(v, Raised):
                yield ("raise", v), s1
            else:
                yield ("return", v), s1

    def x_Break(self, s, st):
        yield ("break",), st

    def x_Continue(self, s, st):
        yield ("continue",), st

    def x_Raise(self, s, st):
        if s.exc is None:
            cur = st.locals.get("$active_exc")
            if cur is None:
                raise ToolLimit("bare raise outside handler")
            yield ("raise", Raised(cur.t, cur)), st
            return
        exc = s.exc
        # exception messages are not modelled; they are evaluated only if they could have an effect
        if isinstance(exc, ast.Call) and isinstance(exc.func, ast.Name) and exc_class(exc.func.id):
            if all(self.cannot_raise(a) for a in exc.args) and not exc.keywords:
                yield ("raise", Raised(exc.func.id)), st
                return
        for s1, v in self.eval(exc, st):
            if isinstance(v, Raised):
                yield ("raise", v), s1
            elif v.k == EXC:
                yield ("raise", Raised(v.t, v)), s1
            elif v.k == CLS and v.t[0] == "exc":
                yield ("raise", Raised(v.t[1])), s1
            else:
                raise ToolLimit("raise of non-exception")

    def cannot_raise(self, node):
        for n in ast.walk(node):
            if not isinstance(n, (ast.Constant, ast.JoinedStr, ast.FormattedValue, ast.Name, ast.Load,
                                  ast.Attribute)):
                return False
            if isinstance(n, ast.Attribute) and not (isinstance(n.value, ast.Name) and n.value.id == "self"):
                return False
        return True

    def x_Assign(self, s, st):
        for s1, v in self.eval(s.value, st):
            if isinstance(v, Raised):
                yield ("raise", v), s1
                continue
            yield from self.assign_targets(s.targets, v, s1)

    def assign_targets(self, targets, v, st):
        if not targets:
            yield ("next",), st
            return
        for out, s1 in self.assign(targets[0], v, st):
            if out[0] == "next":
                yield from self.assign_targets(targets[1:], v, s1)
            else:
                yield out, s1

    def x_AnnAssign(self, s, st):
        if s.value is None:
            yield ("next",), st
            return
        for s1, v in self.eval(s.value, st):
            if isinstance(v, Raised):
                yield ("raise", v), s1
            else:
                yield from self.assign(s.target, v, s1)

    def x_AugAssign(self, s, st):
        load = ast.copy_location(ast.BinOp(left=self.as_load(s.target), op=s.op, right=s.value), s)
        for s1, v in self.eval(load, st):
            if isinstance(v, Raised):
                yield ("raise", v), s1
            else:
                yield from self.assign(s.target, v, s1)

    def as_load(self, t):
        n = ast.parse(ast.unparse(t), mode="eval").body
        return ast.copy_location(n, t)

    def assign(self, tgt, v, st):
        if isinstance(tgt, ast.Name):
            fr = st.sframes[-1] if st.sframes else None
            if fr is not None and tgt.id in fr.globals_declared:
                if (fr.file, tgt.id) not in self.reg.globs and tgt.id not in st.glob:
                    # module state the contracts do not model: the write is outside every frame (`modifies`) clause
                    self.oblige(st, f"frame/unmodelled-global.{tgt.id}", z3.BoolVal(False),
                                f"the function re-binds the module-level name {tgt.id!r}, which no contract lists in modifies")
                st.glob[tgt.id] = v
            else:
                st.locals[tgt.id] = v
            yield ("next",), st
            return
        if isinstance(tgt, (ast.Tuple, ast.List)):
            items = self.static_items(v, st)
            if items is None:
                raise ToolLimit("unpacking a non-static value")
            if len(items) != len(tgt.elts):
                yield ("raise", Raised("ValueError")), st
                return

            def go(i, st):
                if i == len(items):
                    yield ("next",), st
                    return
                for out, s1 in self.assign(tgt.elts[i], items[i], st):
                    if out[0] == "next":
                        yield from go(i + 1, s1)
                    else:
                        yield out, s1
            yield from go(0, st)
            return
        if isinstance(tgt, ast.Attribute):
            for s1, base in self.eval(tgt.value, st):
                if isinstance(base, Raised):
                    yield ("raise", base), s1
                    continue
                if base.k == REF and isinstance(s1.heap[base.t], Obj):
                    cell = s1.heap[base.t]
                    f = dict(cell.fields)
                    f[tgt.attr] = v
                    s1.heap[base.t] = Obj(cell.cls, f)
                    yield ("next",), s1
                else:
                    raise ToolLimit("attribute store on non-object")
            return
        if isinstance(tgt, ast.Subscript):
            for s1, vs in self.eval_list([tgt.value, tgt.slice], st):
                if isinstance(vs, Raised):
                    yield ("raise", vs), s1
                    continue
                base, idx = vs
                if base.k == REF and isinstance(s1.heap[base.t], CharList):
                    cs = s1.heap[base.t].s
                    i = as_int_term(idx)
                    n = z3.Length(cs)
                    if v.k != STR:
                        raise ToolLimit("character list store of a non-string")
                    for s2, ok in self.fork(s1, z3.And(i >= -n, i < n)):
                        if not ok:
                            yield ("raise", Raised("IndexError")), s2
                            continue
                        j = z3.If(i < 0, i + n, i)
                        s2.heap[base.t] = CharList(z3.Concat(z3.SubString(cs, 0, j), v.t, z3.SubString(cs, j + 1, n - j - 1)))
                        yield ("next",), s2
                    continue
                if base.k == REF and isinstance(s1.heap[base.t], AList):
                    cell = s1.heap[base.t]
                    i = as_int_term(idx)
                    if v.k != cell.ek:
                        raise ToolLimit("list store of a different element kind")
                    for s2, ok in self.fork(s1, z3.And(i >= -cell.n, i < cell.n)):
                        if not ok:
                            yield ("raise", Raised("IndexError")), s2
                            continue
                        s2.heap[base.t] = AList(z3.Store(cell.arr, z3.If(i < 0, i + cell.n, i), v.t), cell.n, cell.ek)
                        yield ("next",), s2
                    continue
                if base.k == REF and isinstance(s1.heap[base.t], SList):
                    cell = s1.heap[base.t]
                    i = as_int_term(idx)
                    n = z3.Length(cell.seq)
                    if v.k != cell.ek:
                        raise ToolLimit("list store of a different element kind")
                    for s2, ok in self.fork(s1, z3.And(i >= -n, i < n)):
                        if not ok:
                            yield ("raise", Raised("IndexError")), s2
                            continue
                        j = z3.If(i < 0, i + n, i)
                        s2.heap[base.t] = SList(z3.Concat(z3.Extract(cell.seq, 0, j), z3.Unit(v.t), z3.Extract(cell.seq, j + 1, n - j - 1)), cell.ek)
                        yield ("next",), s2
                    continue
                if base.k == REF and isinstance(s1.heap[base.t], Map):
                    cell = s1.heap[base.t]
                    k = self.pykey(idx)
                    if cell.vk != v.k and not (cell.vk == INT and v.k == BOOL):
                        raise ToolLimit(f"dict store of kind {v.k} into values of kind {cell.vk}")
                    val = as_int_term(v) if cell.vk == INT else v.t
                    s1.heap[base.t] = Map(z3.Store(cell.arr, k, val), z3.Store(cell.dom, k, z3.BoolVal(True)), cell.vk)
                    yield ("next",), s1
                else:
                    raise ToolLimit("subscript store")
            return
        raise ToolLimit(f"assignment target {type(tgt).__name__}")

    def x_If(self, s, st):
        for s1, c in self.eval(s.test, st):
            if isinstance(c, Raised):
                yield ("raise", c), s1
                continue
            for s2, b in self.truth(c, s1):
                for s3, taken in self.fork(s2, b):
                    yield from self.exec_block(s.body if taken else s.orelse, s3)

    def x_Try(self, s, st):
        if s.finalbody:
            raise ToolLimit("try/finally")
        for out, s1 in self.exec_block(s.body, st):
            if out[0] == "raise":
                handled = False
                for h in s.handlers:
                    names = self.handler_names(h)
                    if names is None or exc_matches(out[1].cls, names):
                        handled = True
                        if h.name:
                            s1.locals[h.name] = V(EXC, out[1].cls)
                        saved = s1.locals.get("$active_exc")
                        s1.locals["$active_exc"] = V(EXC, out[1].cls)
                        for o2, s2 in self.exec_block(h.body, s1):
                            if saved is None:
                                s2.locals.pop("$active_exc", None)
                            else:
                                s2.locals["$active_exc"] = saved
                            yield o2, s2
                        break
                if not handled:
                    yield out, s1
            elif out[0] == "next" and s.orelse:
                yield from self.exec_block(s.orelse, s1)
            else:
                yield out, s1

    def handler_names(self, h):
        if h.type is None:
            return None
        if isinstance(h.type, ast.Name):
            return [h.type.id]
        if isinstance(h.type, ast.Tuple) and all(isinstance(x, ast.Name) for x in h.type.elts):
            return [x.id for x in h.type.elts]
        raise ToolLimit("exception handler type")

    def x_Global(self, s, st):
        yield ("next",), st

    def x_Import(self, s, st):
        raise ToolLimit("import inside function")

    # ------------------------------------------------------------------ loops
    def loop_spec(self, node, st):
        fr = st.sframes[-1]
        ordinal = fr.loop_ordinals[id(node)]
        c = fr.contract
        spec = c.loops.get(ordinal) if c is not None else None
        return ordinal, spec

    def assigned_names(self, body):
        names = []
        for n in body:
            for sub in ast.walk(n):
                if isinstance(sub, ast.Name) and isinstance(sub.ctx, ast.Store):
                    if sub.id not in names:
                        names.append(sub.id)
        return names

    def loop_frame(self, body, st):
        """Syntactic frame of a loop body: (locals, self fields, ghosts, globs, mutated list locals)."""
        fr = st.sframes[-1]
        locs = [n for n in self.assigned_names(body) if n not in fr.globals_declared]
        fields, ghosts, lists = [], [], []
        globs = [n for n in self.assigned_names(body) if n in fr.globals_declared]

        def add_contract(c):
            for m in c.modifies:
                tgt = {"self.": fields, "ghost": ghosts, "glob.": globs}[m[:5]]
                name = m.split(".", 1)[1]
                if name not in tgt:
                    tgt.append(name)
            for g in c.ghost_update:
                tgt = fields if g.startswith("self.") else ghosts
                name = g.split(".", 1)[1]
                if name not in tgt:
                    tgt.append(name)

        def visit_fn(file, qual, seen):
            if (file, qual) in seen:
                return
            seen.add((file, qual))
            c = self.reg.lookup(file, qual)
            if c is None:
                # same rule as call_unit: a contract-less helper is verified as part of its callers, so its body belongs to the frame
                try:
                    fn0 = self.find_def(file, qual)
                except (KeyError, AttributeError):
                    raise ToolLimit(f"loop body calls {qual} which has no contract")
                scan(fn0.body, file, qual.split(".")[0] if "." in qual else None, seen)
                return
            if c.inline:
                scan(self.find_def(file, qual).body, file, qual.split(".")[0] if "." in qual else None, seen)
            else:
                add_contract(c)

        def scan(stmts, file, cls, seen):
            mi = self.modules[file]
            for n in stmts:
                for sub in ast.walk(n):
                    if isinstance(sub, ast.Attribute) and isinstance(sub.ctx, ast.Store):
                        if isinstance(sub.value, ast.Name) and sub.value.id == "self":
                            if sub.attr not in fields:
                                fields.append(sub.attr)
                        else:
                            raise ToolLimit("loop stores to an attribute of something other than self")
                    if isinstance(sub, ast.Subscript) and isinstance(sub.ctx, ast.Store):
                        if isinstance(sub.value, ast.Name) and sub.value.id in st.glob:
                            if sub.value.id not in globs:
                                globs.append(sub.value.id)
                        elif isinstance(sub.value, ast.Name) and st.locals.get(sub.value.id) is not None and st.locals[sub.value.id].k == REF:
                            if sub.value.id not in lists:
                                lists.append(sub.value.id)
                        else:
                            raise ToolLimit("loop stores into a subscript of a local")
                    if isinstance(sub, ast.Call):
                        f = sub.func
                        if isinstance(f, ast.Attribute) and isinstance(f.value, ast.Name) and f.value.id == "self" and cls:
                            if f.attr in mi.classes[cls].methods:
                                visit_fn(file, f"{cls}.{f.attr}", seen)
                            else:
                                fv = f.attr  # callable stored in a field
                                cdecl = self.reg.classes[cls]
                                spec = cdecl.fields.get(fv, "")
                                for alt in typespec.alternatives(spec):
                                    if alt.startswith("fn:"):
                                        add_contract(self.reg.lookup("<extern>", alt[3:]))
                        elif isinstance(f, ast.Name):
                            if f.id in mi.functions:
                                visit_fn(file, f.id, seen)
                            elif f.id in st.locals and st.locals[f.id].k == FN and st.locals[f.id].t[0] == "extfn":
                                add_contract(self.reg.lookup("<extern>", st.locals[f.id].t[1]))
                        elif isinstance(f, ast.Attribute) and isinstance(f.value, ast.Name):
                            if f.attr in ("append", "extend", "remove", "pop", "insert", "clear", "sort"):
                                if f.value.id not in lists:
                                    lists.append(f.value.id)
                            elif f.value.id in st.locals and st.locals[f.value.id].k == REF and isinstance(
                                    st.heap.get(st.locals[f.value.id].t), Ext):
                                ext = st.heap[st.locals[f.value.id].t]
                                c = self.reg.lookup("<extern>", f"{ext.name}.{f.attr}")
                                if c:
                                    add_contract(c)
        scan(body, fr.file, fr.cls, set())
        return locs, fields, ghosts, globs, lists

    def havoc_loop(self, body, st, spec, extra_locals=()):
        locs, fields, ghosts, globs, lists = self.loop_frame(body, st)
        widen = (spec or {}).get("widen", {})
        selfv = st.locals.get("self")
        for n in list(locs) + list(extra_locals):
            cur = st.locals.get(n)
            if cur is None or cur.k in ("poison",):
                st.locals[n] = POISON
                continue
            k = widen.get(n, cur.k)
            if k in (INT, REAL, BOOL, STR, ANY):
                v = named(k, f"{n}!{self.fresh_id()}")
                if k == REAL and cur.k != REAL:
                    v = V(REAL, v.t, "widened")
                elif cur.a == "widened":
                    v = V(k, v.t, "widened")
                st.locals[n] = v
            elif k == NONE:
                pass
            elif k == TUPLE:
                st.locals[n] = self.fresh_like(cur, n, st)
            elif k == REF and n in lists:
                pass  # handled below (cell havoc)
            else:
                st.locals[n] = POISON
        for n in lists:
            cur = st.locals.get(n)
            if cur is None or cur.k != REF:
                continue
            cell = st.heap[cur.t]
            ek = (spec or {}).get("list_kinds", {}).get(n)
            if isinstance(cell, SList):
                st.heap[cur.t] = SList(z3.Const(f"{n}!{self.fresh_id()}", cell.seq.sort()), cell.ek)
            elif isinstance(cell, AList):
                fid = self.fresh_id()
                st.heap[cur.t] = AList(z3.Const(f"{n}!{fid}.arr", cell.arr.sort()), z3.Int(f"{n}!{fid}.len"), cell.ek)
            elif isinstance(cell, CharList):
                st.heap[cur.t] = CharList(z3.String(f"{n}!{self.fresh_id()}"))
            elif isinstance(cell, CList) and ek:
                st.heap[cur.t] = SList(z3.Const(f"{n}!{self.fresh_id()}", z3.SeqSort(typespec.SORTS[ek])), ek)
            elif n in locs:
                st.locals[n] = POISON
            else:
                raise ToolLimit(f"loop mutates list {n}: declare list_kinds in the loop contract")
        if fields:
            cell = st.heap[selfv.t]
            cd = self.reg.classes[cell.cls]
            f = dict(cell.fields)
            for fld in fields:
                spec_f = cd.fields.get(fld) or cd.ghost_fields.get(fld)
                alts = typespec.alternatives(spec_f)
                curk = f[fld].k if fld in f else None
                alt = next((a for a in alts if typespec.kind_matches(f[fld], a, st)), alts[0]) if fld in f else alts[0]
                f[fld] = typespec.make(alt, f"{fld}!{self.fresh_id()}", st, self)
            st.heap[selfv.t] = Obj(cell.cls, f)
        for g in ghosts:
            st.ghost[g] = self.fresh_like(st.ghost[g], g, st)
        for g in globs:
            st.glob[g] = self.fresh_like(st.glob[g], g, st)
        return locs

    def use_lemmas(self, uses, st, names, old_st):
        """Assume instances of lemmas that are proved separately (standalone) for this unit."""
        c = st.sframes[0].contract
        table = {l[0]: l for l in c.lemmas}
        for lname, binding in uses or ():
            _, free, src = table[lname]
            inst = dict(names)
            ok = True
            for var, kind in free.items():
                v = self.spec_eval(binding[var], st, names, old_st)
                if not (v.k == kind or (kind == INT and v.k == BOOL)):
                    ok = False
                    break
                inst[var] = v
            if ok:
                st.assume(self.spec_bool(src, st, inst, old_st))
                self.lemma_uses.add(lname)

    def lists_to_seq(self, spec, st):
        """Lists that the loop mutates (declared in list_kinds) are represented as Seq from here on."""
        for n, ek in (spec.get("list_kinds") or {}).items():
            v = st.locals.get(n)
            if ek.startswith("alist:") and v is not None and v.k == REF and isinstance(st.heap[v.t], CList):
                ek2 = ek[6:]
                items = st.heap[v.t].items
                if not all(x.k == ek2 for x in items):
                    raise ToolLimit(f"list {n} holds elements that are not {ek2}")
                arr = z3.K(z3.IntSort(), z3.StringVal("") if ek2 == STR else z3.IntVal(0) if ek2 == INT else z3.RealVal(0))
                for j, x in enumerate(items):
                    arr = z3.Store(arr, j, x.t)
                st.heap[v.t] = AList(arr, z3.IntVal(len(items)), ek2)
                continue
            if v is not None and v.k == REF and isinstance(st.heap[v.t], CList):
                items = st.heap[v.t].items
                if not all(x.k == ek for x in items):
                    raise ToolLimit(f"list {n} holds elements that are not {ek}")
                sort = z3.SeqSort(typespec.SORTS[ek])
                units = [z3.Unit(x.t) for x in items]
                seq = z3.Concat(*units) if len(units) > 1 else (units[0] if units else z3.Empty(sort))
                st.heap[v.t] = SList(seq, ek)

    def check_inv(self, spec, st, names, old_st, label, ordinal):
        for i, src in enumerate(spec.get("inv", [])):
            t = self.spec_bool(src, st, names, old_st)
            self.oblige(st, f"loop{ordinal}/{label}/{i + 1}", t, src)

    def assume_inv(self, spec, st, names, old_st):
        for src in spec.get("inv", []):
            st.assume(self.spec_bool(src, st, names, old_st))

    def spec_names_for(self, st, extra=None):
        fr = st.sframes[0]
        names = dict(self.entry_names)
        # loop invariants may also mention current locals
        for k, v in st.locals.items():
            if not k.startswith("$") and v.k != "poison" and k not in names:
                names[k] = v
        for k, v in st.locals.items():
            if k in self.loop_local_names and v.k != "poison":
                names[k] = v
        if extra:
            names.update(extra)
        return names

    loop_local_names = set()
    entry_names = {}

    def x_While(self, s, st):
        if s.orelse:
            raise ToolLimit("while/else")
        ordinal, spec = self.loop_spec(s, st)
        if spec is None:
            raise ToolLimit(f"while loop #{ordinal} at line {s.lineno} has no invariant in the contract")
        if len(st.sframes) != 1:
            raise ToolLimit("loop with invariant inside an inlined function")
        old_st = self.unit_pre
        self.lists_to_seq(spec, st)
        names0 = self.loop_names(st, spec, vint(0))
        self.check_inv(spec, st, names0, old_st, "inv-init", ordinal)
        self.havoc_loop(s.body, st, spec)
        kname = f"k{ordinal}!{self.fresh_id()}"
        k = vint(z3.Int(kname))
        st.assume(k.t >= 0)
        st.locals[f"$k{ordinal}"] = k
        self.assume_inv(spec, st, self.loop_names(st, spec, k), old_st)
        for s1, c in self.eval(s.test, st):
            if isinstance(c, Raised):
                yield ("raise", c), s1
                continue
            for s2, b in self.truth(c, s1):
                for s3, taken in self.fork(s2, b):
                    if not taken:
                        self.use_lemmas(spec.get("use_exit"), s3, self.loop_names(s3, spec, k), old_st)
                        yield ("next",), s3
                        continue
                    self.use_lemmas(spec.get("use"), s3, self.loop_names(s3, spec, k), old_st)
                    var0 = None
                    if spec.get("variant"):
                        var0 = self.spec_eval(spec["variant"], s3, self.loop_names(s3, spec, k), old_st)
                        self.oblige(s3, f"loop{ordinal}/variant-bounded", as_int_term(var0) >= 0, spec["variant"])
                    for out, s4 in self.exec_block(s.body, s3):
                        if out[0] in ("next", "continue"):
                            k1 = vint(k.t + 1)
                            s4.locals[f"$k{ordinal}"] = k1
                            self.check_inv(spec, s4, self.loop_names(s4, spec, k1), old_st, "inv-step", ordinal)
                            if var0 is not None:
                                var1 = self.spec_eval(spec["variant"], s4, self.loop_names(s4, spec, k1), old_st)
                                self.oblige(s4, f"loop{ordinal}/variant-decreases",
                                            as_int_term(var1) < as_int_term(var0), spec["variant"])
                        elif out[0] == "break":
                            yield ("next",), s4
                        else:
                            yield out, s4

    def loop_names(self, st, spec, k):
        names = dict(self.entry_names)
        for n, v in st.locals.items():
            if n.startswith("$") or v.k == "poison":
                continue
            if n in names and n not in (spec.get("locals") or ()):
                # a parameter that the body re-assigns keeps its *entry* value in contracts unless
                # the loop contract lists it under "locals"
                if n in self.entry_names:
                    continue
            names[n] = v
        if k is not None:
            names["k"] = k
        return names

    def x_For(self, s, st):
        if s.orelse:
            raise ToolLimit("for/else")
        for s1, it in self.eval(s.iter, st):
            if isinstance(it, Raised):
                yield ("raise", it), s1
                continue
            yield from self.for_over(s, it, s1)

    def append_map_loop(self, s, st):
        if not (isinstance(s.target, ast.Name) and len(s.body) == 1 and isinstance(s.body[0], ast.Expr)):
            return None
        call = s.body[0].value
        if not (isinstance(call, ast.Call) and isinstance(call.func, ast.Attribute) and call.func.attr == "append" and isinstance(call.func.value, ast.Name)
                and len(call.args) == 1 and not call.keywords):
            return None
        lst, tgt = call.func.value.id, s.target.id
        if lst == tgt or any(isinstance(n, ast.Name) and n.id == lst for n in ast.walk(call.args[0])) or any(isinstance(n, ast.Name) and n.id == lst for n in ast.walk(s.iter)):
            return None
        fr = st.sframes[-1]
        fn = getattr(fr, "fn", None)
        if fn is None:
            try:
                fn = self.find_def(fr.file, fr.qual)
            except Exception:
                return None
        if s not in fn.body:
            return None            # nested in another block: later iterations could read the loop variable
        end = getattr(s, "end_lineno", s.lineno)
        for n in ast.walk(fn):
            if isinstance(n, ast.Name) and n.id == tgt and isinstance(n.ctx, ast.Load) and n.lineno > end:
                return None
        gen = ast.GeneratorExp(elt=call.args[0], generators=[ast.comprehension(target=ast.Name(id=tgt, ctx=ast.Store()), iter=s.iter, ifs=[], is_async=0)])
        new_call = ast.Call(func=ast.Attribute(value=ast.Name(id=lst, ctx=ast.Load()), attr="extend", ctx=ast.Load()), args=[gen], keywords=[])
        node = ast.Expr(value=new_call)
        ast.copy_location(node, s)
        ast.fix_missing_locations(node)
        return node

    def for_over(self, s, it, st):
        ordinal, spec = self.loop_spec(s, st)
        items = self.static_items(it, st)
        if items is None and it.k == "iter" and it.t["kind"] == "range" and spec is None:
            lo, hi = it.t["lo"], it.t["hi"]
            if z3.is_int_value(lo) and z3.is_int_value(hi) and hi.as_long() - lo.as_long() <= 64:
                items = [vint(i) for i in range(lo.as_long(), hi.as_long())]
        if items is not None and spec is None:
            # constant-trip loop: unrolled completely (complete, trip count is static)
            self.unrolled.add((st.sframes[-1].qual, ordinal, len(items)))

            def go(i, st):
                if i == len(items):
                    yield ("next",), st
                    return
                for out, s1 in self.assign(s.target, items[i], st):
                    if out[0] != "next":
                        yield out, s1
                        continue
                    for o2, s2 in self.exec_block(s.body, s1):
                        if o2[0] in ("next", "continue"):
                            yield from go(i + 1, s2)
                        elif o2[0] == "break":
                            yield ("next",), s2
                        else:
                            yield o2, s2
            yield from go(0, st)
            return
        if spec is None:
            rewritten = self.append_map_loop(s, st)
            if rewritten is not None:
                # `for x in xs: L.append(E)` with nothing else in the body is `L.extend(E for x in xs)` (same evaluation order, same
                # exceptions); the loop variable is dead afterwards (checked), so the one difference - it stays bound - is unobservable
                yield from self.x_Expr(rewritten, st)
                return
            raise ToolLimit(f"for loop #{ordinal} at line {s.lineno} has no invariant in the contract")
        if len(st.sframes) != 1:
            raise ToolLimit("loop with invariant inside an inlined function")
        # index-based iteration: i runs over [lo, hi)
        if items is not None:
            lo, hi = z3.IntVal(0), z3.IntVal(len(items))
            raise ToolLimit("invariant loop over static items (remove the loop contract to unroll)")
        if it.k == "iter" and it.t["kind"] == "range":
            lo, hi = it.t["lo"], it.t["hi"]

            def elem(i, st):
                return vint(i)
        elif it.k == REF and isinstance(st.heap[it.t], SList):
            cell = st.heap[it.t]
            lo, hi = z3.IntVal(0), z3.Length(cell.seq)
            seq, ek = cell.seq, cell.ek

            def elem(i, st):
                return V(ek, seq[i])
        elif it.k == STR:
            lo, hi = z3.IntVal(0), z3.Length(it.t)
            sterm = it.t

            def elem(i, st):
                return vstr(z3.SubString(sterm, i, 1))
        elif it.k == "iter" and it.t["kind"] == "enum" and it.t["inner"].k == STR:
            sterm, start = it.t["inner"].t, it.t["start"]
            lo, hi = z3.IntVal(0), z3.Length(sterm)

            def elem(i, st):
                return vtuple((vint(i + start), vstr(z3.SubString(sterm, i, 1))))
        elif it.k == "iter" and it.t["kind"] == "enum":
            inner = it.t["inner"]
            cell = st.heap[inner.t]
            if not isinstance(cell, SList):
                raise ToolLimit("enumerate over unsupported iterable")
            lo, hi = z3.IntVal(0), z3.Length(cell.seq)
            seq, ek, start = cell.seq, cell.ek, it.t["start"]

            def elem(i, st):
                return vtuple((vint(i + start), V(ek, seq[i])))
        else:
            raise ToolLimit(f"for loop over {it.k}")
        old_st = self.unit_pre
        tnames = [n.id for n in ast.walk(s.target) if isinstance(n, ast.Name)]
        i0 = vint(lo)
        iname = spec.get("index_name", "i")
        self.lists_to_seq(spec, st)
        names0 = self.loop_names(st, spec, vint(0))
        names0[iname] = i0
        self.check_inv(spec, st, names0, old_st, "inv-init", ordinal)
        self.havoc_loop(s.body, st, spec)
        for n in tnames:
            st.locals[n] = POISON
        i = vint(z3.Int(f"i{ordinal}!{self.fresh_id()}"))
        upper = z3.If(hi >= lo, hi, lo)
        st.assume(z3.And(i.t >= lo, i.t <= upper))
        k = vint(i.t - lo)
        nm = self.loop_names(st, spec, k)
        nm[iname] = i
        self.assume_inv(spec, st, nm, old_st)
        for s3, taken in self.fork(st, i.t < hi):
            if not taken:
                s3.assume(i.t == upper)     # implied by lo <= i <= max(lo, hi) and not i < hi; stated for the solver
                self.use_lemmas(spec.get("use_exit"), s3, nm, old_st)
                yield ("next",), s3
                continue
            self.use_lemmas(spec.get("use"), s3, nm, old_st)
            for out, s4 in self.assign(s.target, elem(i.t, s3), s3):
                if out[0] != "next":
                    yield out, s4
                    continue
                for o2, s5 in self.exec_block(s.body, s4):
                    if o2[0] in ("next", "continue"):
                        i1 = vint(i.t + 1)
                        nm1 = self.loop_names(s5, spec, vint(i.t + 1 - lo))
                        nm1[iname] = i1
                        for n in tnames:
                            nm1.pop(n, None)
                        self.check_inv(spec, s5, nm1, old_st, "inv-step", ordinal)
                    elif o2[0] == "break":
                        yield ("next",), s5
                    else:
                        yield o2, s5


for _n, _f in list(_StmtMixin.__dict__.items()):
    if not _n.startswith("__"):
        setattr(Engine, _n, _f)
Engine.unrolled = set()
Engine.lemma_uses = set()
Engine.unit_pre = None
