"""Replay of a solver counterexample for a contract on translated firmware against the REAL emitted C++.

Given the z3 model of a failing obligation of a fragment unit (parameters + pre-state of the sketch's globals):
  1. the really emitted sketch of that fragment is compiled with g++ against the recording Arduino mock (/verif/fwsim), with
     the opaque argument identifiers defined as the model's values and the globals set to the model's pre-state at the
     `__VERIF_BEGIN()` sentinel; it is run and the events and the globals at `__VERIF_END()` are observed;
  2. the contract is re-proved with the inputs pinned to the model (requires `param == value`, `global == value`) and with
     extra postconditions stating the OBSERVED outcome (final globals; the event trace where the contract's event
     vocabulary is the plain one).  If those agreement clauses are discharged, the translation and the real code agree on
     this input; if, in the same run, an original clause still fails, the counterexample is confirmed on the real code.
Anything else (the mock cannot run the fragment, the agreement fails, nothing fails under the pins) leaves the violation
as reported by the verifier, without a replayed input."""
import copy
import os
import re
import sys
from fractions import Fraction

HERE = os.path.dirname(os.path.abspath(__file__))
ROOT = os.path.dirname(HERE)
sys.path.insert(0, ROOT)


def frac(v):
    if isinstance(v, dict) and "real" in v:
        return Fraction(v["real"])
    return v


def c_literal(v, ctype):
    v = frac(v)
    if isinstance(v, bool):
        return "true" if v else "false"
    if isinstance(v, Fraction):
        return repr(float(v)) + ("f" if "float" in ctype else "")
    if isinstance(v, int):
        return str(v) + (".0f" if "float" in ctype else "")
    if isinstance(v, str):
        return '"' + v.replace("\\", "\\\\").replace('"', '\\"') + '"'
    return None


def spec_literal(v):
    v = frac(v)
    if isinstance(v, bool):
        return "True" if v else "False"
    if isinstance(v, Fraction):
        return f"({v.numerator} / {v.denominator})" if v.denominator != 1 else f"({v.numerator} / 1)"
    if isinstance(v, int):
        return str(v)
    if isinstance(v, str):
        return repr(v)
    return None


DUMP = r'''
static void __dump(const char *n, bool v) { printf("G:%s:b:%d\n", n, v ? 1 : 0); }
static void __dump(const char *n, int v) { printf("G:%s:i:%d\n", n, v); }
static void __dump(const char *n, long v) { printf("G:%s:i:%ld\n", n, v); }
static void __dump(const char *n, unsigned int v) { printf("G:%s:i:%u\n", n, v); }
static void __dump(const char *n, unsigned long v) { printf("G:%s:i:%lu\n", n, v); }
static void __dump(const char *n, float v) { printf("G:%s:r:%.9g\n", n, (double)v); }
static void __dump(const char *n, double v) { printf("G:%s:r:%.17g\n", n, v); }
static void __dump(const char *n, const String &v) { printf("G:%s:s:%s\n", n, v.c_str()); }
template <typename T> static void __dump(const char *n, const T &) { }
'''


def build_host_program(cpp, opaque, model, global_kinds):
    """the emitted sketch + definitions of the opaque identifiers, the sentinels and a dump of the globals"""
    glob = (model.get("$glob") or {})
    lines = cpp.split("\n")
    k = max([i for i, l in enumerate(lines) if l.startswith("#include")] + [0]) + 1
    defs = ["void __VERIF_BEGIN();", "void __VERIF_END();"]
    for ident, ctype in opaque.items():
        if ctype.endswith("()"):
            defs.append(f'{ctype[:-2]} {ident}() {{ printf("CALL:{ident}\\n"); }}')
        else:
            lit = c_literal(model.get(ident, 0), ctype)
            if lit is None:
                return None
            defs.append(f"{ctype} {ident} = {lit};")
    pre, dump = [], []
    for g, kind in global_kinds.items():
        if g in opaque:
            continue
        if kind in ("int", "real", "bool", "str") :
            dump.append(f'  __dump("{g}", {g});')
            if g in glob:
                lit = c_literal(glob[g], "float" if kind == "real" else kind)
                if lit is not None and not (kind == "str" and lit is None):
                    pre.append(f"  {g} = {lit};")
    tail = [DUMP, "void __VERIF_BEGIN() {"] + pre + ['  printf("== begin\\n");', "}", "void __VERIF_END() {", '  printf("== end\\n");'] + dump + ["}"]
    return "\n".join(lines[:k] + defs + lines[k:] + tail) + "\n"


def observe(host_cpp, where):
    from fwsim.run import run_sketch
    r = run_sketch(host_cpp, passes=1 if where == "loop" else 0)
    if not r.get("compiled"):
        return {"error": "the fragment does not compile on the mock: " + r.get("errors", "")[-300:]}
    if r.get("timeout") or r.get("rc", 0) != 0:
        return {"error": "the fragment crashed or timed out on the mock"}
    ev, inside, globs = [], False, {}
    for e in r["events"]:
        if e == "== begin":
            inside = True
        elif e == "== end":
            inside = False
        elif e.startswith("G:"):
            _, name, kind, val = e.split(":", 3)
            globs[name] = (kind, val)
        elif inside and not e.startswith("== "):
            ev.append(e)
    return {"events": ev, "globals": globs}


def events_to_spec(events):
    """plain vocabulary only: tone / noTone / delay / servo commands; None when an event has no plain counterpart"""
    out = []
    for e in events:
        tag, _, rest = e.partition(":")
        f = rest.split(":")
        if tag == "T":
            out.append(f"ev(3, {f[0]}, {f[1]})")
        elif tag == "N":
            out.append(f"ev(4, {f[0]}, 0)")
        elif tag == "D":
            out.append(f"ev(2, {f[0]}, 0)")
        elif tag == "SW":
            out.append(f"ev(5, 0, {f[1]})")
        elif tag == "SU":
            out.append(f"ev(6, 0, {f[1]})")
        elif tag in ("M", "S", "CALL", "L", "LB", "SB", "SA"):
            continue
        else:
            return None
    return out


def replay(reg, mods, file, qual, tr, opaque, where, model, obligation_name, engine_setup=None, compare_events=True, timeout_ms=20000):
    from pyvc import prove
    host = build_host_program(tr["cpp"], opaque, model, tr["globals"])
    if host is None:
        return {"failed": False, "reason": "a model value has no C literal"}
    obs = observe(host, where)
    if "error" in obs:
        return {"failed": False, "reason": obs["error"]}
    reg2 = copy.deepcopy(reg)
    c = reg2.lookup(file, qual)
    if c is None:
        return {"failed": False, "reason": "unit has no contract"}
    pins = []
    for p in c.params:
        if p in model:
            lit = spec_literal(model[p])
            if lit is not None:
                pins.append(f"{p} == {lit}")
    for g, v in (model.get("$glob") or {}).items():
        if g in tr["globals"] and tr["globals"][g] in ("int", "real", "bool", "str"):
            lit = spec_literal(v)
            if lit is not None:
                pins.append(f"{g} == {lit}")
    n_orig = len(c.ensures)
    agree = []
    for g, (kind, val) in obs["globals"].items():
        if g not in tr["globals"] or f"glob.{g}" not in c.modifies and g not in " ".join(c.ensures):
            continue
        if kind == "b":
            agree.append(f"{g} == {'True' if val == '1' else 'False'}")
        elif kind == "i":
            agree.append(f"{g} == {int(val)}")
        elif kind == "r":
            try:
                fv = Fraction(val)
            except (ValueError, ZeroDivisionError):
                continue
            tol = abs(fv) / 100000 + Fraction(1, 1000)
            agree.append(f"abs({g} - ({fv.numerator} / {fv.denominator})) <= ({tol.numerator} / {tol.denominator})")
    evs = events_to_spec(obs["events"]) if compare_events else None
    if evs is not None and "E" in reg2.ghosts and "ghost.E" in c.modifies:
        agree.append("E == old(E) + [" + ", ".join(evs) + "]")
    c.requires = list(c.requires) + pins
    c.ensures = list(c.ensures) + agree
    want_variant = obligation_name[obligation_name.find("[") + 1:obligation_name.find("]")] if "[" in obligation_name else ""
    result = None
    for variant in prove.variant_space(c, None, False, False):
        if want_variant and prove.variant_label(variant) != want_variant:
            continue
        result = prove.prove_variant(reg2, mods, file, qual, variant, timeout_ms, prefix="replay/", extra_setup=engine_setup)
        break
    if result is None or result.status != "ok":
        return {"failed": False, "reason": "pinned re-proof not possible: " + (result.detail if result else "no variant"), "observed": obs}
    agree_names = {f"post/{n_orig + i + 1}" for i in range(len(agree))}
    failing, agree_bad = [], []
    for o in result.obligations:
        if o["name"].endswith("/mustfail") or o["status"] == "discharged":
            continue
        clause = o["name"].split("]/", 1)[1] if "]/" in o["name"] else o["name"].split("/", 2)[-1]
        (agree_bad if clause in agree_names else failing).append({"clause": clause, "src": o.get("where"), "status": o["status"]})
    confirmed = bool(failing) and not agree_bad and bool(agree)
    return {"failed": confirmed, "inputs": {"pins": pins}, "observed_on_the_real_code": {"events": obs["events"][:40], "globals": {k: v[1] for k, v in obs["globals"].items()}},
            "translation_agrees_with_real_code": not agree_bad, "agreement_clauses": agree, "disagreements": agree_bad[:4],
            "contract_clauses_failing_on_this_input": failing[:6],
            "reason": None if confirmed else ("translation and mock disagree on this input" if agree_bad else "no clause fails on this input" if not failing else "nothing observable to compare")}
