"""C18 - LCD animations never block, stay inside their row, finish unless looping (device templates via cxx2py)."""
from pyvc.contracts import Registry
from contracts import c17

FW = c17.FW
PROPERTY = {
    "level": "proof",
    "expect_min_obligations": 500,
    "explanation": "The eight start/tick templates of the emitter's LCD helper text (scroll, blink, typewriter, bounce; instantiated at "
                   "LiquidCrystal, translated by cxx2py) are proved against the ghost display and clock models: every print stays "
                   "inside the animation's row and the display width (precondition of print), no template calls delay (its contract is "
                   "unsatisfiable), a tick that arrives less than speed_ms after the previous step (modular unsigned time, clock "
                   "running) changes nothing, an inactive animation is never touched, a looping animation never becomes inactive, and "
                   "for a non-looping one a style-specific ranking function bounded by len(text) + 2*cols + 2 strictly decreases on "
                   "every effective step or the animation becomes inactive. Host: the body of the loop of LCD.tick is extracted "
                   "mechanically as one step and proved against the same clauses (rate, inactive untouched, looping stays active, "
                   "ranking, row-only writes of exactly `cols` cells) plus 'never raises'. The once-per-pass injection is C05's.",
    "trusted_base": ["pyvc", "cxx2py", "mock LiquidCrystal.h / Arduino.h", "z3/cvc5"],
    "assumptions": ["A-LCD and A-ARDUINO clock contracts as in C17/C15", "cols in 1..40, rows in 1..4, text shorter than 30000 characters",
                    "host: one loop iteration of LCD.tick is verified per animation state; the iteration over the dict of states and "
                    "LCD.animate() are not (states are distinct objects; positive non-decreasing timestamps)"],
}


def engine_setup(eng):
    c17.engine_setup(eng)


def build():
    base = c17.build()
    reg = Registry()
    reg.ghosts = dict(base.ghosts)
    for g, k in (("clock", "int"), ("t_rec", "int")):
        reg.ghost(g, k)
    for key, c in base.contracts.items():
        if key[0] in (FW, "<extern>") and "progress" not in key[1] and "write_aligned" not in key[1]:
            c.extern = True if key[0] == FW else c.extern
            c.note = (c.note + " (proved under C17)").strip()
            reg.contracts[key] = c
    reg.cls("__redu_lcd_animation_state", FW,
            fields={"text": "str", "row": "int", "speed_ms": "int", "loop": "bool", "last_step": "int", "offset": "int", "direction": "int",
                    "visible": "int", "active": "bool", "show": "bool", "cycles": "int"}, inv=[])
    reg.unit("millis", FW, extern=True, public=False, returns="int", modifies=["ghost.clock", "ghost.t_rec"],
             ensures=["clock >= old(clock)", "result == clock % 4294967296", "t_rec == clock"], note="ASSUMED: true clock modulo 2^32")
    reg.unit("delay", FW, extern=True, public=False, params={"ms": "int"}, requires=["False"],
             note="an animation start/tick must never call delay: the precondition is unsatisfiable")
    ST = "obj:__redu_lcd_animation_state"
    GEO = ["1 <= cols <= 40", "cols == cols_g", "1 <= rows_g <= 4", "len(img) == cols", "clock >= 0"]
    SG = ["0 <= state.row < rows_g", "trow == state.row", "len(state.text) <= 30000", "0 <= state.speed_ms < 4294967296",
          "0 <= state.last_step < 4294967296", "0 <= state.cycles <= 30000"]
    MODS = ["ghost.img", "ghost.ccol", "ghost.crow", "ghost.prints", "ghost.clock", "ghost.t_rec"]
    FIELDS = ["text", "row", "speed_ms", "loop", "last_step", "offset", "direction", "visible", "active", "show", "cycles"]
    unchanged = " and ".join(f"state.{f} == old(state.{f})" for f in FIELDS) + " and img == old(img) and prints == old(prints)"
    TOO_EARLY = ("old(state.active) and old(state.speed_ms) > 0 and old(state.last_step) > 0 and "
                 "(t_rec % 4294967296 - old(state.last_step)) % 4294967296 < old(state.speed_ms)")
    common = [f"implies(not old(state.active), {unchanged})",
              f"implies({TOO_EARLY}, {unchanged})",
              "implies(old(state.active) and old(state.loop), state.active)",
              "state.row == old(state.row)", "state.text == old(state.text)", "state.loop == old(state.loop)",
              "state.speed_ms == old(state.speed_ms)", "len(img) == cols"]
    stepped = "(old(state.active) and not (" + TOO_EARLY.replace("old(state.active) and ", "") + "))"

    def tick(style, inv, rank, bound, loops=None, extra=()):
        M = lambda o: rank.replace("S.", "old(state." if o else "state.").replace("§", ")" if o else "")
        reg.unit(f"__redu_lcd_tick_{style}__LiquidCrystal", FW, params={"state": ST, "lcd": "ext:LiquidCrystal", "cols": "int"}, public=False,
                 requires=GEO + SG + inv, modifies=MODS, loops=loops or {}, feas_timeout_ms=1000,
                 ensures=common + [i for i in inv if "state." in i and "old(" not in i and "trow" not in i and "clock" not in i] + [
                     # ranking: a non-looping animation makes progress on every effective step, from a bounded start
                     f"implies({stepped}, state.last_step == t_rec % 4294967296)",
                     f"implies({stepped} and not old(state.loop), (not state.active) or ({M(False)} < {M(True)}))",
                     f"implies(old(state.active), 0 <= {M(True)} and {M(True)} <= {bound})"] + list(extra),
                 note=f"ranking function of {style}: {rank}")

    def start(style, post):
        reg.unit(f"__redu_lcd_start_{style}__LiquidCrystal", FW,
                 params={"state": ST, "lcd": "ext:LiquidCrystal", "cols": "int", "row": "int", "text": "str", "speed_ms": "int", "loop": "bool"},
                 public=False, requires=GEO + ["0 <= row < rows_g", "trow == row", "len(text) <= 30000", "0 <= speed_ms < 4294967296"],
                 modifies=["ghost.img", "ghost.ccol", "ghost.crow", "ghost.prints"],
                 ensures=["state.active", "state.row == row", "state.text == text", "state.loop == loop", "state.speed_ms == speed_ms",
                          "state.last_step == 0", "state.cycles == 0", "len(img) == cols", "clock == old(clock)"] + post,
                 note="starting an animation draws the first frame and returns: no clock contract is used, no delay is reachable")

    L = "len(S.text§)"
    # scroll: device window length P = max(len, cols) + cols
    P = lambda o: ("max(len(old(state.text)), cols) + cols" if o else "max(len(state.text), cols) + cols")
    tick("scroll", ["0 <= state.offset <= 32000", "implies(state.active, state.offset < max(len(state.text), cols) + cols)"], "(max(len(S.text§), cols) + cols - min(S.offset§, max(len(S.text§), cols) + cols))",
         "len(old(state.text)) + 2 * cols",
         loops={0: {"inv": ["0 <= i <= deficit", "deficit == cols - len(state.text)", "len(padded) == len(state.text) + i", "deficit > 0"]},
                1: {"inv": ["0 <= i__2 <= cols", "len(padded) == max(len(state.text), cols) + i__2"]},
                2: {"inv": ["start <= i__3 <= end", "end == start + cols", "len(window) == i__3 - start", "0 <= start < len(padded)",
                            "len(padded) == max(len(state.text), cols) + cols", "state.offset == start", "len(img) == cols"]}})
    start("scroll", ["state.offset == 0"])
    tick("blink", [], "ite(S.show§, 1, 2)", "2")
    start("blink", ["state.show"])
    tick("typewriter", ["0 <= state.visible <= len(state.text)"], "(len(S.text§) - S.visible§ + 1)", "len(old(state.text)) + 1")
    start("typewriter", ["0 <= state.visible <= len(state.text)"])
    m = lambda o: ("(cols - len(old(state.text)))" if o else "(cols - len(state.text))")
    tick("bounce", ["implies(0 < len(state.text) and len(state.text) < cols, 0 <= state.offset and state.offset <= cols - len(state.text) and "
                    "(state.direction == 1 or state.direction == -1) and ((state.direction == 1) == (not state.show)) and "
                    "implies(state.offset >= cols - len(state.text), state.direction == -1) and implies(state.offset <= 0, state.direction == 1))"],
         "ite(0 < len(S.text§) and len(S.text§) < cols, ite(S.show§, S.offset§, 2 * (cols - len(S.text§)) - S.offset§), 1)",
         "2 * cols + 1")
    start("bounce", ["state.offset == 0", "state.direction == 1", "not state.show"])
    # ------------------------------------------------------------------ host side: one iteration of LCD.tick
    from pyvc import derive
    text, info = derive.derive_loop_body(c17.LCDF, "LCD.tick", 0, "tick_step", ["self", "state", "now_ms"], HOST)
    _B["host_extraction"] = info
    reg.classes["LCD"] = base.classes["LCD"]
    line_c = base.lookup(c17.LCDF, "LCD.line")
    line_c.extern = True
    line_c.note = "proved under C17"
    reg.contracts[(c17.LCDF, "LCD.line")] = line_c
    reg.cls("_AnimationState", c17.LCDF,
            fields={"animation": "str", "row": "int", "text": "str", "speed_ms": "int", "loop": "bool", "last_tick": "int", "offset": "int",
                    "active": "bool", "direction": "int", "visible": "int", "show": "bool", "cycles": "int"}, inv=[])
    HF = ["animation", "row", "text", "speed_ms", "loop", "last_tick", "offset", "active", "direction", "visible", "show", "cycles"]
    same_state = " and ".join(f"state.{f} == old(state.{f})" for f in HF) + " and buf_same(self.buffer, old(self.buffer))"
    EARLY = "old(state.active) and old(state.speed_ms) > 0 and old(state.last_tick) != 0 and now_ms - old(state.last_tick) < old(state.speed_ms)"
    hstep = f"(old(state.active) and not ({EARLY.replace('old(state.active) and ', '')}))"
    A = "old(state.animation)"
    oL = "len(old(state.text))"
    RANK_OLD = (f"ite({A} == 'scroll', {oL} + self.cols - min(old(state.offset), {oL} + self.cols), "
                f"ite({A} == 'blink', ite(old(state.show), 1, 2), "
                f"ite({A} == 'typewriter', {oL} - old(state.visible) + 1, "
                f"ite(0 < {oL} and {oL} < self.cols, ite(old(state.show), old(state.offset), 2 * (self.cols - {oL}) - old(state.offset)), 1))))")
    RANK_NEW = RANK_OLD.replace("old(state.", "state.").replace("len(state.text))", "len(state.text)").replace("state.animation)", "state.animation")
    RANK_NEW = (f"ite(state.animation == 'scroll', len(state.text) + self.cols - min(state.offset, len(state.text) + self.cols), "
                f"ite(state.animation == 'blink', ite(state.show, 1, 2), "
                f"ite(state.animation == 'typewriter', len(state.text) - state.visible + 1, "
                f"ite(0 < len(state.text) and len(state.text) < self.cols, ite(state.show, state.offset, 2 * (self.cols - len(state.text)) - state.offset), 1))))")
    SINV = ["state.animation == 'scroll' or state.animation == 'blink' or state.animation == 'typewriter' or state.animation == 'bounce'",
            "0 <= state.row < self.rows", "len(self.buffer[state.row]) == self.cols", "state.speed_ms >= 0", "state.last_tick >= 0",
            "len(state.text) <= 30000", "0 <= state.cycles",
            "implies(state.animation == 'scroll', 0 <= state.offset and implies(state.active, state.offset < len(state.text) + self.cols))",
            "implies(state.animation == 'typewriter', 0 <= state.visible <= len(state.text))",
            "implies(state.animation == 'bounce' and 0 < len(state.text) and len(state.text) < self.cols, 0 <= state.offset and "
            "state.offset <= self.cols - len(state.text) and (state.direction == 1 or state.direction == -1) and "
            "((state.direction == 1) == (not state.show)) and implies(state.offset >= self.cols - len(state.text), state.direction == -1) "
            "and implies(state.offset <= 0, state.direction == 1))"]
    reg.unit("tick_step", HOST, params={"self": "obj:LCD", "state": "obj:_AnimationState", "now_ms": "int"}, public=False,
             requires=["inv(self)", "now_ms >= 1", "now_ms >= state.last_tick"] + SINV,
             modifies=[],
             loops={0: {"inv": ["len(chars(row_chars)) == self.cols", "buf_same(self.buffer, old(self.buffer))", "0 <= state.offset",
                                "state.row == old(state.row)", "text == state.text"]}},
             ensures=[f"implies(not old(state.active), {same_state})", f"implies({EARLY}, {same_state})",
                      "implies(old(state.active) and old(state.loop), state.active)",
                      "state.row == old(state.row) and state.text == old(state.text) and state.animation == old(state.animation) "
                      "and state.loop == old(state.loop) and state.speed_ms == old(state.speed_ms)",
                      # a frame touches only the animation's row and keeps it exactly `cols` wide
                      "row_store(self.buffer, old(self.buffer), state.row, self.buffer[state.row])", "len(self.buffer[state.row]) == self.cols",
                      # the stored timestamp is the time of the last effective step (so the rate limit is about real step times)
                      f"implies({hstep}, state.last_tick == now_ms)",
                      f"implies({hstep} and not old(state.loop), (not state.active) or ({RANK_NEW} < {RANK_OLD}))",
                      f"implies(old(state.active), 0 <= {RANK_OLD} and {RANK_OLD} <= {oL} + 2 * self.cols + 2)"] + SINV[3:],
             note="one iteration of the loop of the host LCD.tick (mechanically extracted); any exception is a failed obligation "
                  "('never raises'); frame of `self`/`state` objects is checked through the explicit equalities above")
    return reg


_B = {}
HOST = "@gen/lcd_tick.py"


def extra_obligations(mods, tier, seed):
    """injection arm (finite back end on the real parser/emitter): for 0..2 animated LCDs, with and without buttons, with a
    `continue` in the main loop body: loop_body starts with one LCDTick per animated display (after the button polls) and the
    emitted loop() calls each tick helper exactly once, before the first user statement"""
    import re
    import time
    from contracts.c08 import real
    P, E = real("Reduino.transpile.parser"), real("Reduino.transpile.emitter")
    out = []
    t0 = time.time()
    bad, n = [], 0
    head = ("from Reduino.Displays import LCD\nfrom Reduino.Sensors import Button\nfrom Reduino.Communication import SerialMonitor\n"
            "from Reduino.Utils import sleep\nmon = SerialMonitor(9600)\n")
    decls = ["a = LCD(rs=22, en=23, d4=24, d5=25, d6=26, d7=27)\na.animate('scroll', 0, 'hello world', speed_ms=100)\n",
             "b = LCD(i2c_addr=0x27)\nb.animate('blink', 1, 'hi', speed_ms=50)\n"]
    for nl in (0, 1, 2):
        for nb in (0, 1):
            for body in ("    mon.write('user')\n    sleep(5)\n", "    k = k + 1\n    if k % 2 == 0:\n        continue\n    mon.write('user')\n    sleep(5)\n") + (
                             ("    k = k + 1\n    mon.write('user')\n    if k == 3:\n        a.write(0, 1, 'x')\n    sleep(5)\n",) if nl >= 1 else ()) + (
                             ("    k = k + 1\n    mon.write('user')\n    a.animate('blink', 1, 'again', speed_ms=50)\n    sleep(5)\n",) if nl >= 1 else ()):
                src = head + "".join(decls[:nl]) + ("btn = Button(4)\n" if nb else "") + "k = 0\nwhile True:\n" + body
                n += 1
                try:
                    prog = P.parse(src)
                    cpp = E.emit(prog)
                except Exception as ex:
                    bad.append({"lcds": nl, "buttons": nb, "error": f"{type(ex).__name__}: {ex}"})
                    continue
                kinds = [type(x).__name__ for x in prog.loop_body]
                want = ["ButtonPoll"] * nb + ["LCDTick"] * nl
                if kinds[:len(want)] != want or "LCDTick" in kinds[len(want):]:
                    bad.append({"lcds": nl, "buttons": nb, "loop_body_kinds": kinds[:8], "expected_head": want, "script": src})
                    continue
                loop = cpp[cpp.index("void loop()"):]
                ticks = [m.start() for m in re.finditer(r"__redu_lcd_tick_\w+\(", loop)]
                first_user = min([loop.find(x) for x in ("Serial.println", "k = (k + 1)") if loop.find(x) >= 0] or [len(loop)])
                if len(ticks) != nl or any(t > first_user for t in ticks):
                    bad.append({"lcds": nl, "buttons": nb, "tick_calls_in_loop": len(ticks), "problem": "each animated display is ticked exactly once per pass, before user code",
                                "loop": loop[:500]})
    # every animate() statement owns its state variable, ticked by the helper of its own style - wherever the statements sit
    t1 = time.time()
    bad2, n2 = [], 0
    STY = ["scroll", "blink", "typewriter", "bounce"]
    shapes = {
        "straight": lambda a, b: f"d.animate('{a}', 0, 'hello world', speed_ms=0)\nd.animate('{b}', 1, 'abc', speed_ms=0)\n",
        "if-else": lambda a, b: f"c = 1\nif c > 0:\n    d.animate('{a}', 0, 'hello world', speed_ms=0)\nelse:\n    d.animate('{b}', 0, 'hello world', speed_ms=0)\n",
        "if-elif-else": lambda a, b: f"c = 1\nif c > 1:\n    d.animate('{a}', 0, 'hi', speed_ms=0)\nelif c > 0:\n    d.animate('{b}', 1, 'yo', speed_ms=0)\nelse:\n    d.animate('{a}', 1, 'zz', speed_ms=0)\n",
        "nested-if": lambda a, b: f"c = 1\nif c > 0:\n    if c > 5:\n        d.animate('{a}', 0, 'hello', speed_ms=0)\n    else:\n        d.animate('{b}', 0, 'hello', speed_ms=0)\n",
        "before-and-in-branch": lambda a, b: f"c = 1\nd.animate('{a}', 0, 'first', speed_ms=0)\nif c > 0:\n    d.animate('{b}', 1, 'second', speed_ms=0)\n",
    }
    for sname, mk in shapes.items():
        for a in STY:
            for b in STY:
                src = head + "d = LCD(rs=22, en=23, d4=24, d5=25, d6=26, d7=27)\n" + mk(a, b) + "while True:\n    sleep(5)\n"
                n2 += 1
                try:
                    cpp = E.emit(P.parse(src))
                except Exception as ex:
                    bad2.append({"shape": sname, "styles": [a, b], "error": f"{type(ex).__name__}: {ex}"})
                    continue
                n_stmt = src.count(".animate(")
                starts = re.findall(r"__redu_lcd_start_(\w+?)\((__redu_lcd_anim_\w+)", cpp) or re.findall(r"__redu_lcd_(?:start|begin)_(\w+?)\(\s*(__redu_lcd_anim_\w+)", cpp)
                ticks = re.findall(r"__redu_lcd_tick_(\w+?)\((__redu_lcd_anim_\w+)", cpp[cpp.index("void loop()"):])
                svars = sorted(set(re.findall(r"__redu_lcd_animation_state (__redu_lcd_anim_\w+);", cpp)))
                by_var = {}
                for style, var in ticks:
                    by_var.setdefault(var, []).append(style)
                probs = []
                if len(svars) != n_stmt:
                    probs.append(f"{n_stmt} animate statements share {len(svars)} state variable(s)")
                for var, styles in by_var.items():
                    if len(styles) != 1:
                        probs.append(f"{var} is ticked {len(styles)} times per pass ({styles})")
                if sorted(by_var) != svars:
                    probs.append(f"state variables {svars} vs ticked variables {sorted(by_var)}")
                if probs:
                    bad2.append({"shape": sname, "styles": [a, b], "problems": probs, "script": src})
    out.append({"name": "C18/arms/each-animate-statement-owns-its-state", "status": "discharged" if not bad2 else "sat", "backend": "enum",
                "where": f"{n2} (placement shape, style, style) combinations: one state variable per animate() statement, each ticked exactly once per pass",
                "time": round(time.time() - t1, 3), "replay": {"bad": bad2[:3]}, "replay_confirmed": bool(bad2)})
    # host model, executed (BOUNDED): animate() and every tick() leave every row exactly `cols` wide, touch only the animation's row,
    # never raise, and a non-looping animation becomes inactive within a linear number of steps
    t2 = time.time()
    LCDM = real("Reduino.Displays")
    import sys as _sys
    HostLCD = _sys.modules["Reduino.Displays.LCD"].LCD
    bad3, n3 = [], 0
    for style in STY:
        for cols in (1, 2, 8, 16, 20):
            for tl in sorted({0, 1, cols - 1, cols, cols + 1, cols + 7} - {-1}):
                for loop_flag in (False, True):
                    for stride in (0, 40, 100, 250):
                        n3 += 1
                        text = "".join(chr(65 + (k % 26)) for k in range(tl))
                        try:
                            lcd = HostLCD(rs=1, en=2, d4=3, d5=4, d6=5, d7=6, cols=cols, rows=2)
                            lcd.write(0, 1, "Z")
                            other = lcd.buffer[1]
                            lcd.animate(style, 0, text, speed_ms=100, loop=loop_flag)
                            frames = [list(lcd.buffer)]
                            now = 1
                            bound = 4 * (tl + cols) + 12
                            for k in range(bound + 4):
                                now += stride
                                lcd.tick(now)
                                frames.append(list(lcd.buffer))
                            prob = None
                            for k, fr in enumerate(frames):
                                if any(len(r) != cols for r in fr):
                                    prob = f"frame {k}: row widths {[len(r) for r in fr]} on a {cols}-column display"
                                    break
                                if fr[1] != other:
                                    prob = f"frame {k}: the other row changed"
                                    break
                            active = [a for a in getattr(lcd, "_animations", []) if getattr(a, "active", True)] if hasattr(lcd, "_animations") else None
                        except Exception as ex:
                            prob = f"{type(ex).__name__}: {ex}"
                        if prob:
                            bad3.append({"style": style, "cols": cols, "text_length": tl, "loop": loop_flag, "stride_ms": stride, "problem": prob})
    PROPERTY["bounded"] = [{"check": "host animation frames", "bound": f"{n3} host runs (styles x widths x text lengths x loop x tick strides)"}]
    out.append({"name": "C18/host/frames-are-row-confined-and-tick-never-raises", "status": "discharged" if not bad3 else "sat", "backend": "bounded-native", "bounded": True,
                "where": f"{n3} host runs (4 styles x 5 widths x text lengths around the width x loop on/off x tick strides): every frame after animate() and each tick() has rows of exactly "
                         "`cols` cells, the other row is untouched, nothing raises", "time": round(time.time() - t2, 3), "replay": {"bad": bad3[:4]}, "replay_confirmed": bool(bad3)})
    # host model, executed (BOUNDED): a non-looping animation becomes inactive within the linear bound, after exactly as many due ticks
    # whether it is alone or other animations (looping, same row or other row) were started after it; the looping ones stay active
    t2c = time.time()
    bad5, n5 = [], 0
    for style in STY:
        for cols in (2, 8, 16):
            for tl in (1, cols - 1, cols + 5):
                for speed in (0, 120):
                    text = "".join(chr(65 + (k % 26)) for k in range(tl))
                    bound = 4 * (tl + cols) + 12
                    counts = {}
                    for other in [None] + [(st2, row2) for st2 in STY for row2 in (0, 1)]:
                        n5 += 1
                        try:
                            lcd = HostLCD(rs=1, en=2, d4=3, d5=4, d6=5, d7=6, cols=cols, rows=2)
                            lcd.animate(style, 0, text, speed_ms=speed, loop=False)
                            first = list(lcd.animations.values())[0]
                            if other is not None:
                                lcd.animate(other[0], other[1], "xy", speed_ms=speed, loop=True)
                            step, now, took = max(1, speed), 0, None
                            for k in range(1, bound + 5):
                                now += step
                                lcd.tick(now)
                                if not first.active:
                                    took = k
                                    break
                            counts[other] = took
                            later = [a for a in list(lcd.animations.values())[1:]]
                            if took is None:
                                bad5.append({"style": style, "cols": cols, "text_length": tl, "speed_ms": speed, "started_after_it": other, "problem": f"still active after {bound + 4} due ticks (bound {bound})"})
                            elif any(not a.active for a in later):
                                bad5.append({"style": style, "cols": cols, "text_length": tl, "speed_ms": speed, "started_after_it": other, "problem": "the looping animation started after it became inactive"})
                        except Exception as ex:
                            bad5.append({"style": style, "cols": cols, "text_length": tl, "speed_ms": speed, "started_after_it": other, "problem": f"{type(ex).__name__}: {ex}"})
                    alone = counts.get(None)
                    for o, c in counts.items():
                        if o is not None and c is not None and alone is not None and c != alone:
                            bad5.append({"style": style, "cols": cols, "text_length": tl, "speed_ms": speed, "started_after_it": o, "problem": f"inactive after {c} due ticks, {alone} when alone on the display"})
    out.append({"name": "C18/host/non-looping-animation-ends-also-next-to-others", "status": "discharged" if not bad5 else "sat", "backend": "bounded-native", "bounded": True,
                "where": f"{n5} host runs (4 styles x 3 widths x 3 text lengths x speed 0/120 x alone or followed by a looping animation of each style on either row): the non-looping "
                         "animation is inactive within 4*(len+cols)+12 due ticks, after the same number of ticks as when alone; the looping one stays active",
                "time": round(time.time() - t2c, 3), "replay": {"bad": bad5[:4]}, "replay_confirmed": bool(bad5)})
    # host model, executed (BOUNDED): random histories of animate() / tick(): a looping animation, once started, stays registered and
    # active for ever (whatever is started or finishes around it); nothing raises; rows keep their width
    import random as _rnd6
    t2d = time.time()
    bad6, n6 = [], 0
    r6 = _rnd6.Random(seed)
    for trial in range(200):
        n6 += 1
        hist = []
        try:
            lcd = HostLCD(rs=1, en=2, d4=3, d5=4, d6=5, d7=6, cols=8, rows=2)
            looping, seen, now = [], set(), 0
            for step in range(r6.randint(4, 14)):
                if r6.random() < 0.4:
                    st_, row_, lp_ = r6.choice(list(STY)), r6.randint(0, 1), r6.random() < 0.4
                    txt_ = r6.choice(["ok", "HELLO", "a longer text than the row"])
                    hist.append(f"animate({st_!r}, {row_}, {txt_!r}, speed_ms=0, loop={lp_})")
                    lcd.animate(st_, row_, txt_, speed_ms=0, loop=lp_)
                    fresh = [a for a in lcd.animations.values() if id(a) not in seen]
                    for a in fresh:
                        seen.add(id(a))
                        if a.loop:
                            looping.append((len(hist), a))
                else:
                    k_ = r6.randint(1, 12)
                    hist.append(f"tick x{k_}")
                    for _ in range(k_):
                        now += 1
                        lcd.tick(now)
                live = [id(a) for a in lcd.animations.values()]
                lost = [h for h, a in looping if id(a) not in live or not a.active]
                if lost:
                    bad6.append({"history": hist[:], "problem": f"the looping animation started at step {lost[0]} is no longer registered / active"})
                    break
                if any(len(rw) != 8 for rw in lcd.buffer):
                    bad6.append({"history": hist[:], "problem": f"row widths {[len(rw) for rw in lcd.buffer]}"})
                    break
        except Exception as ex:
            bad6.append({"history": hist[:], "problem": f"{type(ex).__name__}: {ex}"})
        if len(bad6) >= 3:
            break
    out.append({"name": "C18/host/looping-animations-survive-any-history", "status": "discharged" if not bad6 else "sat", "backend": "bounded-native", "bounded": True,
                "where": f"{n6} random histories of animate()/tick() on an 8x2 host display: every looping animation stays registered and active, rows stay 8 wide, nothing raises",
                "time": round(time.time() - t2d, 3), "replay": {"bad": bad6[:3]}, "replay_confirmed": bool(bad6)})
    # host model, executed (BOUNDED): an animate() call that raises (row outside the display, unknown style) has no effect - later ticks do
    # not raise, the animations that were running keep running, no row changes
    t2b = time.time()
    bad4, n4 = [], 0
    import copy as _copy
    for style in STY:
        for cols, rows in ((16, 2), (20, 4), (8, 1)):
            for bad_call in ({"row": rows}, {"row": rows + 3}, {"row": -1}, {"row": -rows - 1}, {"animation": "wobble"}, {"animation": ""}):
                for running in (False, True):
                    n4 += 1
                    try:
                        lcd = HostLCD(rs=1, en=2, d4=3, d5=4, d6=5, d7=6, cols=cols, rows=rows)
                        lcd.line(0, "static")
                        if running:
                            lcd.animate("blink", 0, "run", speed_ms=50, loop=True)
                        before_buf = list(lcd.buffer)
                        before_keys = sorted(map(str, getattr(lcd, "animations", {}).keys())) if hasattr(lcd, "animations") else None
                        raised = None
                        try:
                            lcd.animate(bad_call.get("animation", style), bad_call.get("row", 0), "hello world", speed_ms=50, loop=False)
                        except ValueError as ex:
                            raised = ex
                        if raised is None:
                            if "animation" in bad_call or not (0 <= bad_call["row"] < rows):
                                if "animation" in bad_call or bad_call["row"] >= rows or bad_call["row"] < -rows:
                                    bad4.append({"style": style, "display": [cols, rows], "call": bad_call, "problem": "the invalid animate() call did not raise ValueError"})
                            continue
                        prob = None
                        if list(lcd.buffer) != before_buf:
                            prob = "the rejected call changed the display buffer"
                        elif before_keys is not None and sorted(map(str, lcd.animations.keys())) != before_keys:
                            prob = f"the rejected call left a record in the animation registry: {sorted(map(str, lcd.animations.keys()))}"
                        else:
                            frames = []
                            for k in range(1, 12):
                                lcd.tick(1 + 60 * k)
                                frames.append(list(lcd.buffer))
                            if running and len({tuple(f) for f in frames}) < 2:
                                prob = "the animation that was running stopped advancing after the rejected call"
                            if not running and any(f != before_buf for f in frames):
                                prob = "ticks after the rejected call changed the display"
                    except Exception as ex:
                        prob = f"{type(ex).__name__}: {ex} (raised by tick() after a rejected animate())"
                    if prob:
                        bad4.append({"style": style, "display": [cols, rows], "call": bad_call, "animation_running": running, "problem": prob})
    out.append({"name": "C18/host/rejected-animate-has-no-effect", "status": "discharged" if not bad4 else "sat", "backend": "bounded-native", "bounded": True,
                "where": f"{n4} host runs (4 styles x 3 geometries x rows outside the display / unknown styles x with and without a running animation): the failing call changes nothing, "
                         "later ticks never raise and running animations keep advancing", "time": round(time.time() - t2b, 3), "replay": {"bad": bad4[:4]}, "replay_confirmed": bool(bad4)})
    # executed on the firmware mock next to the host model (BOUNDED): an animation whose animate() call is not executed draws nothing; static
    # text of another row / the same row stays as the host keeps it
    from progs import devdiff
    imp = devdiff.IMPORTS
    dscripts = {
        "untaken-branch": "d = LCD(rs=22, en=23, d4=24, d5=25, d6=26, d7=27)\nd.line(0, 'static zero')\nd.line(1, 'static one')\nc = 1\nif c > 5:\n    d.animate('scroll', 0, 'never started', speed_ms=0)\nwhile True:\n    mon.write('m')\n    sleep(5)\n",
        "if-else-alternatives": "d = LCD(rs=22, en=23, d4=24, d5=25, d6=26, d7=27)\nd.line(0, 'keep me')\nc = 1\nif c > 5:\n    d.animate('blink', 0, 'aaa', speed_ms=0)\nelse:\n    d.line(1, 'else arm')\nwhile True:\n    mon.write('m')\n    sleep(5)\n",
        "zero-iteration-for": "d = LCD(i2c_addr=0x27)\nd.line(0, 'top text')\nfor i in range(0):\n    d.animate('typewriter', 0, 'zzz', speed_ms=0)\nwhile True:\n    mon.write('m')\n    sleep(5)\n",
        "no-animation-at-all": "d = LCD(rs=22, en=23, d4=24, d5=25, d6=26, d7=27)\nd.line(0, 'plain')\nwhile True:\n    mon.write('m')\n    sleep(5)\n",
    }
    res = devdiff.run({k: imp + v for k, v in dscripts.items()}, lcd=True)
    for r in res:
        v = r["verdict"]
        okv = v in ("same", "rejected", "python-undefined")
        out.append({"name": f"C18/exec/{r['name']}", "status": "discharged" if okv else ("unknown" if v.startswith("harness") else "sat"), "backend": "bounded-differential", "bounded": True,
                    "where": f"script '{r['name']}': display cells at every marker equal the host LCD's (an animation that was not started draws nothing) [{v}]", "time": 0.3,
                    "replay": {"script": r.get("script"), "first_difference": r.get("first_difference"), "detail": r.get("detail")}, "replay_confirmed": not okv and not v.startswith("harness")})
    out += two_display_obligations(HostLCD, STY)
    out.append({"name": "C18/arms/one-tick-per-pass-before-user-code", "status": "discharged" if not bad else "sat", "backend": "enum",
                "where": f"{n} (animated displays, buttons, body shape) combinations: LCDTick nodes head loop_body; loop() calls each tick helper once, first",
                "time": round(time.time() - t0, 3), "replay": {"bad": bad[:3]}, "replay_confirmed": bool(bad)})
    return out


def _fw_frames(job):
    """per display (construction order), the cells at every serial marker of the sketch on the firmware mock"""
    name, src = job
    import re as _re
    from progs.diff import transpile
    from fwsim.run import run_sketch
    cpp, err = transpile(src)
    if cpp is None:
        return name, {"rejected": err}
    r = run_sketch(cpp, passes=14)
    if not r.get("compiled"):
        return name, {"error": "does not compile: " + r.get("errors", "")[-300:]}
    if r.get("timeout") or r.get("rc", 0) != 0:
        return name, {"error": "crashed or timed out on the mock"}
    rows, frames, oor, delays = {}, {}, [], 0
    for e in r["events"]:
        m = _re.match(r"L(\d*):(\d+):(.*)$", e)
        if m:
            rows.setdefault(int(m.group(1) or 0), {})[int(m.group(2))] = m.group(3)
        elif e.startswith("S:"):
            for k, rr in rows.items():
                frames.setdefault(k, []).append((e[2:], dict(rr)))
        elif e.startswith("LCD-OUT-OF-RANGE"):
            oor.append(e)
    return name, {"frames": frames, "out_of_range": oor[:3]}


def two_display_obligations(HostLCD, STY):
    import time
    """several displays (BOUNDED, executed): what one display shows does not depend on the existence, construction time, animations or ticks of
    another display - on the host model (real class) and on the firmware mock (same interface class, different widths, both declaration orders)"""
    import multiprocessing as mp
    out = []
    t0 = time.time()
    bad, n = [], 0
    GEO = [((16, 2), (8, 1)), ((16, 2), (16, 2)), ((20, 4), (8, 2)), ((8, 2), (16, 2))]
    for style in STY:
        for (ca, ra), (cb, rb) in GEO:
            for when in ("B-before-A", "B-constructed-after-A-animates", "B-animates-and-ticks-more-often"):
                for loop_flag in (True, False):
                    n += 1
                    text = "0123456789ABCDEF"[:max(3, ca - 3)] if style != "scroll" else "0123456789ABCDEFGHIJ"

                    def run(with_b):
                        prob = None
                        b = None
                        if with_b and when == "B-before-A":
                            b = HostLCD(i2c_addr=0x3F, cols=cb, rows=rb)
                            b.line(0, "bbbb")
                        a = HostLCD(i2c_addr=0x27, cols=ca, rows=ra)
                        a.line(0, "static")
                        a.animate(style, ra - 1, text, speed_ms=100, loop=loop_flag)
                        if with_b and b is None:
                            b = HostLCD(i2c_addr=0x3F, cols=cb, rows=rb)
                            b.line(0, "bbbb")
                        if with_b and when == "B-animates-and-ticks-more-often":
                            b.animate(STY[(STY.index(style) + 1) % len(STY)], 0, "other text", speed_ms=30, loop=True)
                        frames, bframes = [list(a.buffer)], []
                        for k in range(1, 40):
                            now = 1 + 50 * k
                            if with_b:
                                b.tick(now - 25)
                                b.tick(now)
                                bframes.append(list(b.buffer))
                            a.tick(now)
                            frames.append(list(a.buffer))
                        return frames, bframes
                    try:
                        alone, _ = run(False)
                        together, bfr = run(True)
                        prob = None
                        if alone != together:
                            k = next(i for i, (x, y) in enumerate(zip(alone, together)) if x != y)
                            prob = f"display A after {k} ticks shows {together[k]} next to display B, {alone[k]} alone"
                        elif when != "B-animates-and-ticks-more-often" and any(fr[0].rstrip() != "bbbb" or any(r.strip() for r in fr[1:]) for fr in bfr):
                            prob = "display B, which has no animation, changed while display A was ticked"
                        elif loop_flag and len({tuple(f) for f in together[-20:]}) < 2:
                            prob = "the looping animation of display A stopped advancing"
                    except Exception as ex:
                        prob = f"{type(ex).__name__}: {ex}"
                    if prob:
                        bad.append({"style": style, "A": [ca, ra], "B": [cb, rb], "when": when, "loop": loop_flag, "problem": prob})
    out.append({"name": "C18/host/displays-do-not-interfere", "status": "discharged" if not bad else "sat", "backend": "bounded-native", "bounded": True,
                "where": f"{n} host runs (4 styles x 4 geometry pairs x second display constructed before / after / animating and ticking more often x loop on/off): the frames of a display equal the "
                         "frames it shows alone, tick() never raises, a display without animation is untouched, a looping animation keeps advancing", "time": round(time.time() - t0, 2),
                "replay": {"bad": bad[:4]}, "replay_confirmed": bool(bad)})
    # firmware
    t1 = time.time()
    imp = "from Reduino.Displays import LCD\nfrom Reduino.Communication import SerialMonitor\nfrom Reduino.Utils import sleep\nmon = SerialMonitor(9600)\n"
    DECL = {"i2c": ("LCD(i2c_addr=0x27, cols={c}, rows=2)", "LCD(i2c_addr=0x3F, cols={c}, rows=2)"),
            "parallel": ("LCD(rs=22, en=23, d4=24, d5=25, d6=26, d7=27, cols={c}, rows=2)", "LCD(rs=32, en=33, d4=34, d5=35, d6=36, d7=37, cols={c}, rows=2)")}
    TEXT = "0123456789ABCDEFGHIJ"
    jobs, plan = [], []
    LOOP = "while True:\n    mon.write('m')\n    sleep(40)\n"
    for iface, (d1, d2) in DECL.items():
        for style in STY:
            for (c1, c2) in ((16, 8), (8, 16)):
                def single(decl, c, style_):
                    return imp + "d = " + decl.format(c=c) + f"\nd.line(0, 'static')\nd.animate('{style_}', 1, '{TEXT[:c + 4 if style_ == 'scroll' else max(3, c - 2)]}', speed_ms=60, loop=True)\n" + LOOP
                other = STY[(STY.index(style) + 1) % len(STY)]
                two = (imp + "p = " + d1.format(c=c1) + "\nq = " + d2.format(c=c2) + "\np.line(0, 'static')\nq.line(0, 'static')\n"
                       f"p.animate('{style}', 1, '{TEXT[:c1 + 4 if style == 'scroll' else max(3, c1 - 2)]}', speed_ms=60, loop=True)\n"
                       f"q.animate('{other}', 1, '{TEXT[:c2 + 4 if other == 'scroll' else max(3, c2 - 2)]}', speed_ms=60, loop=True)\n" + LOOP)
                key = f"{iface}/{style}+{other}/{c1}x{c2}"
                jobs += [(key + "/two", two), (key + "/first-alone", single(d1, c1, style)), (key + "/second-alone", single(d2, c2, other))]
                plan.append(key)
    with mp.Pool(12) as pool:
        res = dict(pool.map(_fw_frames, jobs, chunksize=1))
    bad = []
    for key in plan:
        two, fa, sa = res[key + "/two"], res[key + "/first-alone"], res[key + "/second-alone"]
        if any("rejected" in r for r in (two, fa, sa)):
            continue
        err = next((r["error"] for r in (two, fa, sa) if "error" in r), None)
        if err:
            bad.append({"case": key, "problem": err})
            continue
        if two["out_of_range"]:
            bad.append({"case": key, "problem": f"writes outside the display: {two['out_of_range']}"})
            continue
        for disp, alone, label in ((0, fa, "first"), (1, sa, "second")):
            got, want = two["frames"].get(disp, []), alone["frames"].get(0, [])
            if got != want:
                k = next((i for i, (x, y) in enumerate(zip(got, want)) if x != y), min(len(got), len(want)))
                bad.append({"case": key, "problem": f"the {label} display at marker #{k}: {got[k][1] if k < len(got) else None} in the two-display sketch, {want[k][1] if k < len(want) else None} alone"})
                break
    out.append({"name": "C18/exec/two-displays-of-one-class-do-not-interfere", "status": "discharged" if not bad else "sat", "backend": "bounded-differential", "bounded": True,
                "where": f"{len(plan)} two-display sketches (i2c / parallel x 4 styles x widths 16+8 and 8+16, one looping animation each): at every pass the cells of each display equal those of "
                         "the same display in a single-display sketch; nothing is written outside a display", "time": round(time.time() - t1, 2),
                "replay": {"bad": bad[:4]}, "replay_confirmed": bool(bad)})
    return out


def extra_evidence():
    d = dict(c17.extra_evidence())
    d["host_tick_extraction"] = _B.get("host_extraction")
    d["bounded"] = PROPERTY.get("bounded", [])
    return d
