"""C05 - setup()/loop() split: run-once prologue, repeated body, configure-before-use (necessary lemmas + bounded runs).

  T1  split and order (finite back end on the real parser): over a grid of marker layouts (statement kinds before the main
      loop x statement kinds in its body) the IR's setup_body carries exactly the prologue's markers once, in source order,
      and loop_body the body's markers once, in source order;
  T2  configure-before-use (finite back end over device kind x declaration place x use site, executed): the emitted sketch
      is compiled against the recording Arduino mock and a temporal monitor checks, on setup() + 2 loop() passes, that every
      command on a pin / peripheral is preceded by its configuration, no pin is configured to two different modes, and a
      DC motor's pins are driven to the stop state before any other command;
  T3  housekeeping: ButtonPoll / LCDTick nodes form the head of loop_body, one per device, and each loop() pass samples
      every button exactly once before the first user event;
  T4  break: the guard `loop_depth`/`main_loop` is propagated unchanged into if/try bodies, +1 into while/for bodies and
      reset in function bodies (static obligations over the real AST), and over every nesting up to depth 3 `break` whose
      innermost enclosing loop is the main loop is rejected, any other accepted;
  T5  values persist between passes (BOUNDED differential against CPython for N = 0..3 passes).
"""
import ast
import dataclasses
import itertools
import re
import time

from pyvc.contracts import Registry

PARSER = "Reduino/transpile/parser.py"

PROPERTY = {
    "level": "other",
    "expect_min_obligations": 60,
    "explanation": "T1-T4 are necessary lemmas decided by the finite back end on the real parser/emitter (layout grid; device kind x "
                   "place x use-site product executed on the recording mock under a temporal monitor; housekeeping head; break guard "
                   "propagation + nesting enumeration). T5 and the temporal claims for arbitrary programs are whole-program properties: "
                   "only a bounded differential over N = 0..3 passes.",
    "trusted_base": ["fwsim recording mock of the Arduino core (event order is the order of calls)", "g++", "the real parser/emitter under python3-vt"],
    "assumptions": ["one representative command per device kind; fixed pin numbers", "the monitor observes setup() + 2 loop() passes"],
    "bounded": [],
}

IMPORTS = ("from Reduino.Actuators import Led, RGBLed, Servo, DCMotor, Buzzer\nfrom Reduino.Sensors import Button, Potentiometer, Ultrasonic\n"
           "from Reduino.Displays import LCD\nfrom Reduino.Communication import SerialMonitor\nfrom Reduino.Utils import sleep\n")


def build():
    return Registry()


# ------------------------------------------------------------------------------------------------ T1
def block(kind, k):
    """(lines, markers) of one statement block carrying fresh markers"""
    m = f"m{k}"
    if kind == "write":
        return [f"mon.write('{m}')"], [m]
    if kind == "assign-write":
        return [f"v{k} = {k}", f"mon.write('{m}')"], [m]
    if kind == "if":
        return [f"if c > 0:", f"    mon.write('{m}a')", "else:", f"    mon.write('{m}b')"], [m + "a", m + "b"]
    if kind == "for":
        return [f"for i{k} in range(2):", f"    mon.write('{m}')"], [m]
    if kind == "while":
        return [f"w{k} = 0", f"while w{k} < 2:", f"    mon.write('{m}')", f"    w{k} = w{k} + 1"], [m]
    if kind == "sleep-write":
        return ["sleep(5)", f"mon.write('{m}')"], [m]
    if kind == "try":
        return ["try:", f"    mon.write('{m}a')", "except Exception:", f"    mon.write('{m}b')"], [m + "a", m + "b"]
    raise KeyError(kind)


KINDS = ["write", "assign-write", "if", "for", "while", "sleep-write", "try"]


def ir_strings(node, out):
    """all string payloads of an IR subtree, in field order"""
    if isinstance(node, str):
        out.append(node)
    elif isinstance(node, (list, tuple)):
        for x in node:
            ir_strings(x, out)
    elif dataclasses.is_dataclass(node):
        for f in dataclasses.fields(node):
            ir_strings(getattr(node, f.name), out)
    return out


def markers_of(nodes):
    found = []
    for s in ir_strings(nodes, []):
        found += re.findall(r"\bm\d+[ab]?\b", s)
    return found


def t1(P, out):
    t0 = time.time()
    bad, n = [], 0
    layouts = [(a, b) for a in itertools.product(KINDS, repeat=2) for b in itertools.product(KINDS, repeat=2)]
    layouts += [((), b) for b in itertools.product(KINDS, repeat=2)] + [(a, None) for a in itertools.product(KINDS, repeat=2)]
    # the main-loop header as Python accepts it: trailing comment, blanks before the colon / at the end, parenthesised condition
    HEADERS = ["while True:", "while True:  # main loop", "while True:# forever", "while True :", "while True:   ", "while (True):", "while(True):", "while  True:"]
    sample = layouts[:256:37] + layouts[256:272:5]
    layouts = [(pre, body, "while True:") for pre, body in layouts] + [(pre, body, h) for h in HEADERS[1:] for pre, body in sample]
    # comment-only lines at column 0 / 2 / deeper between the statements of the main-loop body (they never end a block in Python)
    layouts += [(pre, body, "while True:|comments-" + str(col)) for col in (0, 2, 9) for pre, body in sample if body is not None]
    for pre, body, header in layouts:
        header, _, variant = header.partition("|")
        lines, want_pre, want_body, k = ["mon = SerialMonitor(9600)", "c = 1"], [], [], 0
        for kind in pre:
            ls, ms = block(kind, k)
            lines += ls
            want_pre += ms
            k += 1
        if body is not None:
            lines.append(header)
            for kind in body:
                ls, ms = block(kind, k)
                if variant.startswith("comments-"):
                    lines.append(" " * int(variant.split("-")[1]) + "# a note between two statements of the loop body")
                lines += ["    " + l for l in ls]
                if variant.startswith("comments-"):
                    lines += [" " * int(variant.split("-")[1]) + "# trailing note", ""]
                want_body += ms
                k += 1
        src = IMPORTS + "\n".join(lines) + "\n"
        n += 1
        try:
            prog = P.parse(src)
        except Exception as ex:
            bad.append({"layout": [pre, body], "header": header, "error": f"{type(ex).__name__}: {ex}"})
            continue
        got_pre, got_body = markers_of(prog.setup_body), markers_of(prog.loop_body)
        if got_pre != want_pre or got_body != want_body:
            bad.append({"layout": [pre, body], "header": header, "variant": variant, "setup_markers": got_pre, "expected_setup": want_pre, "loop_markers": got_body,
                        "expected_loop": want_body, "script": src})
    out.append({"name": "C05/T1/split-order-exactly-once", "status": "discharged" if not bad else "sat", "backend": "enum",
                "where": f"{n} marker layouts: prologue markers appear once, in order, in setup_body; body markers once, in order, in loop_body",
                "time": round(time.time() - t0, 3), "replay": {"bad": bad[:4]}, "replay_confirmed": bool(bad)})


# ------------------------------------------------------------------------------------------------ T2
DEVICES = {
    # kind: (declaration, use statement(s), hoistable from the top of the loop body)
    "Led": ("d = Led(13)", ["d.on()"], True),
    "RGBLed": ("d = RGBLed(9, 10, 11)", ["d.set_color(10, 20, 30)"], True),
    "Servo": ("d = Servo(6)", ["d.write(90)"], True),
    "DCMotor": ("d = DCMotor(2, 3, 5)", ["d.set_speed(0.5)"], True),
    "Button": ("d = Button(4)", ["mon.write(d.is_pressed())"], True),
    "Potentiometer": ("d = Potentiometer('A0')", ["mon.write(d.read())"], True),
    "Ultrasonic": ("d = Ultrasonic(7, 12)", ["mon.write(d.measure_distance())"], True),
    "Buzzer": ("d = Buzzer(8)", ["d.play_tone(440)"], False),
    "LCD": ("d = LCD(rs=22, en=23, d4=24, d5=25, d6=26, d7=27)", ["d.write(0, 0, 'hi')"], False),
    "LCD-i2c": ("d = LCD(i2c_addr=0x27)", ["d.write(0, 0, 'hi')"], False),
    "SerialMonitor": ("d = SerialMonitor(9600)", ["d.write('x')"], False),
}
MOTOR_PINS = {"2", "3", "5"}
REBOUND_PINS = {}


def scenarios():
    out = {}
    for kind, (decl, uses, hoist) in DEVICES.items():
        mon = "" if kind == "SerialMonitor" else "mon = SerialMonitor(9600)\n"
        use = "\n".join(uses)
        ind = lambda s, n=1: "\n".join("    " * n + l for l in s.split("\n"))
        out[f"{kind}/before/use-in-loop"] = f"{mon}{decl}\nwhile True:\n{ind(use)}\n    sleep(5)\n"
        out[f"{kind}/before/use-in-setup"] = f"{mon}{decl}\n{use}\nwhile True:\n    sleep(5)\n"
        out[f"{kind}/before/use-in-setup-and-loop"] = f"{mon}{decl}\n{use}\nwhile True:\n{ind(use)}\n    sleep(5)\n"
        out[f"{kind}/before/use-in-branch"] = f"{mon}{decl}\nk = 0\nwhile True:\n    k = k + 1\n    if k > 1:\n{ind(use, 2)}\n    sleep(5)\n"
        out[f"{kind}/before/no-main-loop"] = f"{mon}{decl}\n{use}\n"
        if kind not in ("SerialMonitor",):
            out[f"{kind}/before/use-in-function"] = f"{mon}{decl}\ndef act():\n{ind(use)}\nwhile True:\n    act()\n    sleep(5)\n"
        if hoist:
            out[f"{kind}/top-of-loop/use-in-loop"] = f"{mon}while True:\n{ind(decl)}\n{ind(use)}\n    sleep(5)\n"
            out[f"{kind}/top-of-loop/use-in-branch"] = f"{mon}k = 0\nwhile True:\n{ind(decl)}\n    k = k + 1\n    if k > 1:\n{ind(use, 2)}\n    sleep(5)\n"
    # two devices / re-binding
    out["Led+Led/two-names"] = "a = Led(13)\nb = Led(12)\nwhile True:\n    a.on()\n    b.off()\n    sleep(5)\n"
    out["Led+Led/setup-and-top-of-loop"] = "a = Led(13)\na.on()\nwhile True:\n    b = Led(12)\n    b.on()\n    a.off()\n    sleep(5)\n"
    out["Led/rebound-other-pin-at-top-of-loop"] = "d = Led(5)\nd.on()\nwhile True:\n    d = Led(6)\n    d.toggle()\n    sleep(5)\n"
    out["Led/rebound-same-pin-at-top-of-loop"] = "d = Led(5)\nd.on()\nwhile True:\n    d = Led(5)\n    d.toggle()\n    sleep(5)\n"
    out["Servo/rebound-other-pin-at-top-of-loop"] = "d = Servo(6)\nd.write(10)\nwhile True:\n    d = Servo(9)\n    d.write(20)\n    sleep(5)\n"
    # re-binding a name to a device on ANOTHER pin at the top of the loop body: from then on every command goes to the new pin
    REBIND = {"Led": ("d = Led(5)", "d = Led(6)", "d.on()", ["5"], ["6"]), "RGBLed": ("d = RGBLed(9, 10, 11)", "d = RGBLed(3, 5, 6)", "d.set_color(1, 2, 3)", ["9", "10", "11"], ["3", "5", "6"]),
              "DCMotor": ("d = DCMotor(2, 3, 5)", "d = DCMotor(7, 8, 9)", "d.set_speed(0.5)", ["2", "3", "5"], ["7", "8", "9"]),
              "Button": ("d = Button(4)", "d = Button(12)", "mon.write(d.is_pressed())", ["4"], ["12"]),
              "Potentiometer": ("d = Potentiometer('A0')", "d = Potentiometer('A3')", "mon.write(d.read())", ["14"], ["17"]),
              "Ultrasonic": ("d = Ultrasonic(7, 12)", "d = Ultrasonic(2, 3)", "mon.write(d.measure_distance())", ["7", "12"], ["2", "3"])}
    for kind, (d1, d2, use, oldp, newp) in REBIND.items():
        out[f"{kind}/rebound-other-pins-at-top-of-loop"] = f"mon = SerialMonitor(9600)\n{d1}\n{use}\nwhile True:\n    {d2}\n    {use}\n    sleep(5)\n"
        REBOUND_PINS[f"{kind}/rebound-other-pins-at-top-of-loop"] = (oldp, newp)
    # pins that are run-time values: a global with a non-literal initialiser is assigned in setup(); the device must be configured after that
    COMPUTED = {"Led": ("base = 2\npin = base + 3\nd = Led(pin)", "d.on()"), "Buzzer": ("base = 4\npin = base * 2\nd = Buzzer(pin)", "d.play_tone(440)"),
                "Servo": ("base = 3\npin = base + 3\nd = Servo(pin)", "d.write(90)"), "Button": ("base = 2\npin = base + 2\nd = Button(pin)", "mon.write(d.is_pressed())"),
                "Led-from-list": ("pins = [5, 6]\nk = 1\npin = pins[k]\nd = Led(pin)", "d.on()")}
    for kind, (decl, use) in COMPUTED.items():
        out[f"{kind}/computed-pin/use-in-loop"] = f"mon = SerialMonitor(9600)\n{decl}\nwhile True:\n    {use}\n    sleep(5)\n"
        out[f"{kind}/computed-pin/use-in-setup"] = f"mon = SerialMonitor(9600)\n{decl}\n{use}\nwhile True:\n    sleep(5)\n"
    # pin 0 is a pin like any other (a falsy constant must not be taken for "no pin")
    ZERO = {"Led": ("d = Led(0)", "d.on()"), "Led-keyword": ("d = Led(pin=0)", "d.toggle()"), "Led-folded": ("d = Led(1 - 1)", "d.on()"), "Buzzer": ("d = Buzzer(0)", "d.play_tone(440)"),
            "Button": ("d = Button(0)", "mon.write(d.is_pressed())"), "Servo": ("d = Servo(0)", "d.write(90)"), "RGBLed": ("d = RGBLed(0, 1, 2)", "d.set_color(1, 2, 3)"), "DCMotor": ("d = DCMotor(0, 1, 3)", "d.set_speed(0.5)"),
            "LCD-backlight": ("d = LCD(rs=12, en=11, d4=5, d5=4, d6=3, d7=2, backlight_pin=0)", "d.brightness(128)"),
            "LCD-backlight-toggle": ("d = LCD(rs=12, en=11, d4=5, d5=4, d6=3, d7=2, backlight_pin=0)", "d.backlight(False)"),
            "LCD-backlight-folded": ("d = LCD(rs=12, en=11, d4=5, d5=4, d6=3, d7=2, backlight_pin=2 - 2)", "d.brightness(40)"), "Potentiometer": ("d = Potentiometer(0)", "mon.write(d.read())"),
            "Ultrasonic": ("d = Ultrasonic(0, 1)", "mon.write(d.measure_distance())")}
    for kind, (decl, use) in ZERO.items():
        out[f"{kind}/pin-zero/use-in-loop"] = f"mon = SerialMonitor(9600)\n{decl}\nwhile True:\n    {use}\n    sleep(5)\n"
        out[f"{kind}/pin-zero/use-in-setup-and-helper"] = f"mon = SerialMonitor(9600)\n{decl}\ndef act():\n    {use}\n{use}\nwhile True:\n    act()\n    sleep(5)\n"
    out["DCMotor+Servo+Led/top-of-loop-with-constant-only-prologue"] = "limit = 3\ndef noop():\n    return limit\nwhile True:\n    m = DCMotor(2, 3, 5)\n    l = Led(13)\n    m.set_speed(0.25)\n    l.on()\n    sleep(5)\n"
    out["Led/top-of-loop-with-import-only-prologue"] = "while True:\n    l = Led(12)\n    l.toggle()\n    sleep(5)\n"
    out["Led+Button/same-script"] = "mon = SerialMonitor(9600)\nl = Led(13)\nb = Button(4)\nwhile True:\n    if b.is_pressed():\n        l.on()\n    else:\n        l.off()\n    sleep(5)\n"
    out["Led+Potentiometer+Servo"] = ("mon = SerialMonitor(9600)\nl = Led(13)\np = Potentiometer('A1')\ns = Servo(6)\nwhile True:\n    v = p.read()\n    s.write(v / 6)\n"
                                      "    l.set_brightness(v / 4)\n    mon.write(v)\n    sleep(5)\n")
    out["DCMotor+Led/top-of-loop-both"] = "while True:\n    m = DCMotor(2, 3, 5)\n    l = Led(13)\n    m.set_speed(0.25)\n    l.on()\n    sleep(5)\n"
    return {k: IMPORTS + v for k, v in out.items()}


def monitor(events, motor=False):
    """temporal rules over the firmware event trace -> list of problems"""
    mode, attached, lcd, serial, problems, motor_first = {}, set(), False, False, [], {}
    where = "static-init"
    for e in events:
        if e.startswith("== "):
            where = e[3:]
            continue
        tag, _, rest = e.partition(":")
        f = rest.split(":")
        if tag == "M":
            pin, md = f[0], f[1]
            if pin in mode and mode[pin] != md:
                problems.append(f"{where}: pin {pin} re-configured from mode {mode[pin]} to {md}")
            mode[pin] = md
        elif tag == "W":
            if mode.get(f[0]) != "1":
                problems.append(f"{where}: write on pin {f[0]} before pinMode({f[0]}, OUTPUT) (configured: {sorted(mode)})")
            if motor and f[0] in MOTOR_PINS and f[0] not in motor_first:
                motor_first[f[0]] = f[1]
                if f[1] != "0":
                    problems.append(f"{where}: first command on motor pin {f[0]} is {f[1]}, not the stop state")
        elif tag in ("T", "N"):
            if mode.get(f[0]) != "1":
                problems.append(f"{where}: tone on pin {f[0]} before pinMode OUTPUT")
        elif tag == "R":
            if mode.get(f[0]) not in ("0", "2"):
                problems.append(f"{where}: digitalRead({f[0]}) before the pin was configured as an input")
        elif tag == "PI":
            if mode.get(f[0]) != "0":
                problems.append(f"{where}: pulseIn({f[0]}) before pinMode INPUT")
        elif tag == "SA":
            attached.add(f[0])
        elif tag in ("SW", "SU"):
            if f[0] not in attached or f[0] == "-1":
                problems.append(f"{where}: servo command on pin {f[0]} before attach")
        elif tag == "LB":
            lcd = True
        elif tag == "L":
            if not lcd:
                problems.append(f"{where}: LCD output before begin()/init()")
        elif tag == "SB":
            serial = True
        elif tag == "S":
            if not serial:
                problems.append(f"{where}: Serial output before Serial.begin")
    return sorted(set(problems))


def _t2_one(args):
    name, src = args
    from progs.diff import transpile
    from fwsim.run import run_sketch
    cpp, err = transpile(src)
    if cpp is None:
        return name, "rejected", err, src
    r = run_sketch(cpp, passes=2)
    if not r.get("compiled"):
        return name, "does-not-compile", r.get("errors", "")[-400:], src
    if r.get("timeout") or r.get("rc", 0) != 0:
        return name, "crash", r.get("stderr", "timeout")[-300:], src
    probs = monitor(r["events"], motor="DCMotor" in name and "rebound" not in name)
    if name in REBOUND_PINS:
        oldp, newp = REBOUND_PINS[name]
        in_loop, touched_old, touched_new = False, set(), set()
        for e in r["events"]:
            if e.startswith("== loop"):
                in_loop = True
            elif in_loop and e.split(":")[0] in ("W", "R", "AR", "PI", "T", "N"):
                pin = e.split(":")[1]
                (touched_old if pin in oldp else touched_new if pin in newp else set()).add(pin)
        if touched_old:
            probs.append(f"after the name was re-bound to pins {newp}, loop() still drives / reads the old pin(s) {sorted(touched_old)}")
        if not touched_new:
            probs.append(f"after the name was re-bound to pins {newp}, loop() never touches them")
    used = any(e.split(":")[0] in ("W", "T", "N", "R", "PI", "SW", "SU", "L", "S", "AR") for e in r["events"])
    if not used:
        probs.append("the scenario's command left no event in setup() + 2 passes (vacuous run)")
    return name, ("ok" if not probs else "violates"), probs, src


def t2(out):
    import multiprocessing as mp
    sc = scenarios()
    t0 = time.time()
    with mp.Pool(16) as pool:
        res = pool.map(_t2_one, sorted(sc.items()), chunksize=1)
    per = round((time.time() - t0) / max(1, len(res)), 3)
    for name, verdict, detail, src in res:
        ok = verdict in ("ok", "rejected")
        out.append({"name": f"C05/T2/{name}", "status": "discharged" if ok else "sat", "backend": "enum+fwsim",
                    "where": f"scenario {name}: every command is preceded by its configuration, no mode conflict [{verdict}]", "time": per,
                    "replay": {"script": src, "verdict": verdict, "detail": detail}, "replay_confirmed": not ok})
    _S["t2"] = len(res)


# ------------------------------------------------------------------------------------------------ T3
def t3(P, E, out):
    from fwsim.run import run_sketch
    t0 = time.time()
    bad = []
    n = 0
    for nb, anim, has_loop, anim_in_body in itertools.product((0, 1, 2, 3), (False, True), (True, False), (False, True)):
        if anim_in_body and not (anim and has_loop):
            continue
        lines = ["mon = SerialMonitor(9600)"]
        pins = [4, 7, 8][:nb]
        for k, pin in enumerate(pins):
            lines.append(f"b{k} = Button({pin})")
        if anim:
            lines += ["lcd = LCD(rs=22, en=23, d4=24, d5=25, d6=26, d7=27)", "lcd.animate('scroll', 0, 'hello world', speed_ms=100)"]
            if anim_in_body:
                lines += ["lcd.animate('scroll', 1, 'second row too', speed_ms=100)"]
        if has_loop:
            lines += ["while True:"] + [f"    mon.write(b{k}.is_pressed())" for k in range(nb)] + ["    mon.write('user')"] + (
                ["    lcd.animate('blink', 1, 'again', speed_ms=100)"] if anim_in_body else []) + ["    sleep(5)"]
        src = IMPORTS + "\n".join(lines) + "\n"
        n += 1
        try:
            prog = P.parse(src)
            cpp = E.emit(prog)
        except Exception as ex:
            bad.append({"buttons": nb, "animation": anim, "error": f"{type(ex).__name__}: {ex}", "script": src})
            continue
        if anim:
            # every started animation is advanced by exactly one tick call per pass
            n_anim = sum(1 for l in lines if ".animate(" in l and not l.startswith("    "))
            loop_txt = cpp[cpp.index("void loop()"):]
            tick_vars = re.findall(r"__redu_lcd_tick_\w+\((__redu_lcd_anim_\w+)", loop_txt)
            if has_loop and (len(tick_vars) < n_anim or len(set(tick_vars)) != len(tick_vars)):
                bad.append({"buttons": nb, "animations_started_before_the_loop": n_anim, "tick_calls_in_loop": tick_vars, "script": src})
                continue
        kinds = [type(x).__name__ for x in prog.loop_body]
        head = kinds[:nb + (1 if anim else 0)]
        want = ["ButtonPoll"] * nb + (["LCDTick"] if anim else [])
        rest = kinds[len(want):]
        if head != want or "ButtonPoll" in rest or "LCDTick" in rest:
            bad.append({"buttons": nb, "animation": anim, "loop_body_kinds": kinds, "expected_head": want, "script": src})
            continue
        if nb and has_loop:
            r = run_sketch(cpp, passes=3)
            if not r.get("compiled"):
                bad.append({"buttons": nb, "error": "does not compile: " + r.get("errors", "")[-300:], "script": src})
                continue
            passes, cur = [], None
            for e in r["events"]:
                if e.startswith("== loop"):
                    cur = []
                    passes.append(cur)
                elif cur is not None:
                    cur.append(e)
            for k, evs in enumerate(passes):
                firsts = evs[:nb]
                later = evs[nb:]
                if sorted(firsts) != sorted(f"R:{p}" for p in pins) or any(e.startswith("R:") for e in later):
                    bad.append({"buttons": nb, "pass": k, "events": evs[:12], "problem": "each button must be sampled exactly once, before the first user event", "script": src})
                    break
    out.append({"name": "C05/T3/housekeeping-once-per-pass-at-head", "status": "discharged" if not bad else "sat", "backend": "enum+fwsim",
                "where": f"{n} (buttons, animation, main-loop) combinations: polls/ticks form the head of loop_body, one per device; each pass samples each button once, first",
                "time": round(time.time() - t0, 3), "replay": {"bad": bad[:3]}, "replay_confirmed": bool(bad)})


# ------------------------------------------------------------------------------------------------ T4
WRAPPERS = {
    "if": lambda body: ["if c > 0:"] + ["    " + l for l in body],
    "else": lambda body: ["if c > 5:", "    pass", "else:"] + ["    " + l for l in body],
    "try": lambda body: ["try:"] + ["    " + l for l in body] + ["except Exception:", "    pass"],
    "for": lambda body: ["for i in range(3):"] + ["    " + l for l in body],
    "while": lambda body: ["while c < 3:"] + ["    " + l for l in body] + ["    c = c + 1"],
}


def t4_enum(P, out):
    t0 = time.time()
    bad, n = [], 0
    for depth in (0, 1, 2, 3):
        for nest in itertools.product(WRAPPERS, repeat=depth):
            body = ["break"]
            for w in reversed(nest):
                body = WRAPPERS[w](body)
            src = IMPORTS + "mon = SerialMonitor(9600)\nc = 1\nwhile True:\n" + "\n".join("    " + l for l in body) + "\n    mon.write('after')\n    sleep(5)\n"
            exits_main = not any(w in ("for", "while") for w in nest)
            n += 1
            try:
                P.parse(src)
                accepted = True
            except ValueError:
                accepted = False
            except Exception as ex:
                bad.append({"nesting": nest, "error": f"{type(ex).__name__}: {ex}"})
                continue
            if exits_main and accepted:
                bad.append({"nesting": nest, "problem": "a break whose innermost loop is the main loop was accepted", "script": src})
            if not exits_main and not accepted:
                bad.append({"nesting": nest, "problem": "a break inside a nested for/while was rejected", "script": src})
    out.append({"name": "C05/T4/break-never-leaves-the-main-loop", "status": "discharged" if not bad else "sat", "backend": "enum",
                "where": f"{n} nestings (depth <= 3 of if/else/try/for/while): break is rejected iff its innermost enclosing loop is the main loop",
                "time": round(time.time() - t0, 3), "replay": {"bad": bad[:4]}, "replay_confirmed": bool(bad)})


def t4_static(out):
    """every recursive _parse_simple_lines call passes loop_depth / main_loop consistently"""
    from contracts.c10 import Mod, functions_of
    t0 = time.time()
    m = Mod(PARSER)
    problems, sites = [], 0
    for qual, fn in functions_of(m.tree):
        if "." in qual:
            continue              # nested closures are walked with their top-level function
        for call in [c for c in ast.walk(fn) if isinstance(c, ast.Call) and isinstance(c.func, ast.Name) and c.func.id == "_parse_simple_lines"]:
            kw = {k.arg: ast.unparse(k.value) for k in call.keywords}
            sites += 1
            ld = kw.get("loop_depth")
            if fn.name == "_parse_simple_lines":
                if ld not in ("loop_depth", "loop_depth + 1"):
                    problems.append(f"line {call.lineno}: loop_depth={ld}")
                if kw.get("main_loop") not in ("main_loop",):
                    problems.append(f"line {call.lineno}: main_loop={kw.get('main_loop')} (must be passed on unchanged)")
            elif fn.name == "_parse_function":
                if ld != "0" or kw.get("main_loop") not in (None, "False"):
                    problems.append(f"line {call.lineno}: function bodies must start at loop_depth=0 outside the main loop (got {ld}, {kw.get('main_loop')})")
            elif fn.name == "parse":
                if (ld, kw.get("main_loop")) not in (("1", "True"), ("0", None), ("0", "False")):
                    problems.append(f"line {call.lineno}: parse() passes loop_depth={ld}, main_loop={kw.get('main_loop')}")
    if sites < 8:
        problems.append(f"only {sites} recursive call sites found (slice broken)")
    out.append({"name": "C05/T4/loop-depth-propagation", "status": "discharged" if not problems else "sat", "backend": "static", "structural": True,
                "where": f"{sites} _parse_simple_lines call sites: loop_depth unchanged or +1, main_loop unchanged; function bodies reset; parse() enters the main loop at depth 1",
                "time": round(time.time() - t0, 3), "replay": {"problems": problems}})


# ------------------------------------------------------------------------------------------------ T5
T5_SCRIPTS = {
    "global-counter": "mon = SerialMonitor(9600)\nn = 0\nwhile True:\n    n = n + 1\n    mon.write(n)\n    sleep(5)\n",
    "two-globals-and-branch": "mon = SerialMonitor(9600)\na = 1\nb = 0.5\nwhile True:\n    if a % 2 == 0:\n        b = b * 2\n    a = a + 1\n    mon.write(a)\n    mon.write(b)\n    sleep(5)\n",
    "string-grows": "mon = SerialMonitor(9600)\ns = 'a'\nwhile True:\n    s = s + 'b'\n    mon.write(s)\n    sleep(5)\n",
    "list-grows": "mon = SerialMonitor(9600)\nxs = [1]\nk = 0\nwhile True:\n    xs.append(k)\n    mon.write(xs[k])\n    k = k + 1\n    sleep(5)\n",
    "prologue-runs-once": "mon = SerialMonitor(9600)\nmon.write('boot')\nk = 3\nmon.write(k)\nwhile True:\n    mon.write('pass')\n    sleep(5)\n",
    "first-assigned-in-body-read-next-pass": "mon = SerialMonitor(9600)\nk = 0\nwhile True:\n    if k > 0:\n        mon.write(prev)\n    prev = k * 2\n    k = k + 1\n    sleep(5)\n",
    "body-local-accumulates": "mon = SerialMonitor(9600)\nk = 0\nwhile True:\n    k = k + 1\n    if k == 1:\n        total = 0\n    total = total + k\n    mon.write(total)\n    sleep(5)\n",
    "hoisted-from-if-then-updated": "mon = SerialMonitor(9600)\nc = 1\nif c > 0:\n    x = 100\nelse:\n    x = 0\nwhile True:\n    x = x + 50\n    mon.write(x)\n    sleep(5)\n",
    "hoisted-from-for-then-updated": "mon = SerialMonitor(9600)\nfor i in range(3):\n    z = i\nwhile True:\n    z = z + 10\n    mon.write(z)\n    sleep(5)\n",
    "hoisted-from-while-then-updated": "mon = SerialMonitor(9600)\nk = 0\nwhile k < 2:\n    w = k * 3\n    k = k + 1\nwhile True:\n    w = w + 1\n    mon.write(w)\n    sleep(5)\n",
    "nested-for-continue-then-rest-of-body": "mon = SerialMonitor(9600)\nn = 0\nwhile True:\n    for i in range(4):\n        if i % 2 == 0:\n            continue\n        mon.write(i)\n    n = n + 1\n    mon.write(n)\n    sleep(5)\n",
    "nested-while-continue-then-rest-of-body": "mon = SerialMonitor(9600)\nn = 0\nwhile True:\n    k = 0\n    while k < 3:\n        k = k + 1\n        if k == 2:\n            continue\n        mon.write(k)\n    n = n + 1\n    mon.write(n)\n    sleep(5)\n",
    "main-loop-continue-skips-rest-only": "mon = SerialMonitor(9600)\nn = 0\nwhile True:\n    n = n + 1\n    if n % 2 == 0:\n        continue\n    mon.write(n)\n    sleep(5)\n",
    "nested-break-then-rest-of-body": "mon = SerialMonitor(9600)\nn = 0\nwhile True:\n    for i in range(5):\n        if i == 2:\n            break\n        mon.write(i)\n    n = n + 1\n    mon.write(n)\n    sleep(5)\n",
    "prologue-derived-after-reassignment": "mon = SerialMonitor(9600)\nbase = 3\nbase = 10\nlimit = base + 1\nmon.write(limit)\nwhile True:\n    limit = limit + 11\n    mon.write(limit)\n    sleep(5)\n",
    "prologue-order-with-branch-and-loop": "mon = SerialMonitor(9600)\nx = 1\nfor i in range(3):\n    x = x * 2\ny = x + 1\nc = 1\nif c > 0:\n    y = y + 100\nz = y - x\nmon.write(y)\nmon.write(z)\nwhile True:\n    mon.write(z + y)\n    sleep(5)\n",
    "continue-in-elif-arm": "mon = SerialMonitor(9600)\nn = 0\nwhile True:\n    n = n + 1\n    if n == 1:\n        mon.write('one')\n    elif n % 2 == 0:\n        continue\n    else:\n        mon.write('odd')\n    mon.write(n)\n    sleep(5)\n",
    "reinitialised-at-top-of-every-pass": "mon = SerialMonitor(9600)\nwhile True:\n    lo, hi = 2, 5\n    x = 0\n    tag = 'a'\n    lo = lo + hi\n    x = x + lo\n    tag = tag + 'b'\n    mon.write(lo)\n    mon.write(x)\n    mon.write(tag)\n    hi = hi * 10\n    sleep(5)\n",
    "prologue-if-else-with-commented-clause-headers": "mon = SerialMonitor(9600)\nfast = 1\ncount = 0\nif fast > 0:  # quick start\n    count = 10\nelse:  # slow start\n    count = 100\nmon.write(count)\nwhile True:\n    count = count + 1\n    mon.write(count)\n    sleep(5)\n",
    "prologue-elif-chain-with-commented-clause-headers": "mon = SerialMonitor(9600)\nmode = 2\nstep = 0\nif mode == 1:   # one\n    step = 1\nelif mode == 2:   # two\n    step = 20\nelif mode == 3: # three\n    step = 300\nelse:   # other\n    step = 4000\nmon.write(step)\nwhile True:\n    step = step + 1\n    mon.write(step)\n    sleep(5)\n",
    "prologue-nested-chains-with-commented-clause-headers": "mon = SerialMonitor(9600)\na = 1\nb = 0\nv = 0\nif a > 0:  # outer\n    if b > 0:  # inner\n        v = 1\n    else:  # inner else\n        v = 2\nelse:  # outer else\n    v = 3\nmon.write(v)\nwhile True:\n    v = v + 10\n    mon.write(v)\n    sleep(5)\n",
    "tuple-reinitialised-after-a-call": "mon = SerialMonitor(9600)\nk = 0\nwhile True:\n    mon.write(k)\n    a, b = 1, 2\n    a = a + b + k\n    b = b * a\n    mon.write(a)\n    mon.write(b)\n    k = k + 1\n    sleep(5)\n",
    "motor-speed-variable": "mon = SerialMonitor(9600)\nm = DCMotor(2, 3, 5)\nspeed = 0.2\nwhile True:\n    m.set_speed(speed)\n    mon.write(speed)\n    speed = speed + 0.1\n    sleep(5)\n",
    "brightness-variable": "mon = SerialMonitor(9600)\nl = Led(9)\nlevel = 10\nwhile True:\n    l.set_brightness(level)\n    mon.write(level)\n    level = level + 20\n    sleep(5)\n",
    "tone-variable": "mon = SerialMonitor(9600)\nbz = Buzzer(8)\nfreq = 440\nwhile True:\n    bz.play_tone(freq)\n    mon.write(freq)\n    freq = freq + 110\n    sleep(5)\n",
}
# commands whose pin-level effect must follow the loop-carried variable: script -> (event tag prefix, expected values per pass)
T5_EFFECTS = {
    "motor-speed-variable": ("W:5:", [51, 77, 102, 128]),
    "brightness-variable": ("W:9:", [10, 30, 50, 70]),
    "tone-variable": ("T:8:", [440, 550, 660, 770]),
}


def _t5_one(args):
    name, src, passes = args
    from progs.diff import differential, transpile
    from fwsim.run import run_sketch
    r = differential(src, passes)
    r["name"] = name
    r["passes"] = passes
    if name in T5_EFFECTS and r["verdict"] == "same" and passes:
        cpp, _ = transpile(src)
        fw = run_sketch(cpp, passes=passes)
        tag, want = T5_EFFECTS[name]
        per_pass, cur = [], None
        for e in fw["events"]:
            if e.startswith("== loop"):
                cur = []
                per_pass.append(cur)
            elif cur is not None and e.startswith(tag):
                cur.append(int(e[len(tag):]))
        got = [p[-1] if p else None for p in per_pass]
        if got != want[:passes]:
            r["verdict"] = "differs"
            r["first_difference"] = {"pin_effect_per_pass": got, "expected_from_the_variable": want[:passes]}
    return r


def t5(out, tier="quick"):
    import multiprocessing as mp
    jobs = [(n, IMPORTS + s, p) for n, s in sorted(T5_SCRIPTS.items()) for p in (0, 1, 2, 3)]
    gen = {}
    if tier == "thorough":
        from progs.gen import programs
        gen = programs(120, seed=1)
        jobs += [(n, s, p) for n, s in sorted(gen.items()) for p in (0, 1, 2)]
    t0 = time.time()
    with mp.Pool(16) as pool:
        res = pool.map(_t5_one, jobs, chunksize=1)
    per = round((time.time() - t0) / max(1, len(res)), 3)
    by = {}
    for r in res:
        by.setdefault(r["name"], []).append(r)
    for name, rs in sorted(by.items()):
        badr = [r for r in rs if r["verdict"] not in ("same", "rejected", "python-undefined")]
        harness = [r for r in badr if r["verdict"].startswith("harness")]
        status = "discharged" if not badr else ("unknown" if harness else "sat")
        out.append({"name": f"C05/T5/{name}", "status": status, "backend": "bounded-differential", "bounded": True,
                    "where": f"script {name}: firmware trace equals CPython's for N = 0, 1, 2, 3 loop() passes" + (" and the pin effect follows the variable" if name in T5_EFFECTS else ""),
                    "time": per * len(rs), "replay": {"script": (IMPORTS + T5_SCRIPTS[name]) if name in T5_SCRIPTS else gen.get(name), "failing": [{k: r.get(k) for k in ("passes", "verdict", "first_difference", "detail")} for r in badr[:2]]},
                    "replay_confirmed": status == "sat"})
    PROPERTY["bounded"] = [{"check": "T5 persistence differential", "bound": f"{len(T5_SCRIPTS)} scripts x N in 0..3 passes"}]


def extra_obligations(mods, tier, seed):
    from contracts.c08 import real
    P, E = real("Reduino.transpile.parser"), real("Reduino.transpile.emitter")
    out = []
    t1(P, out)
    t2(out)
    t3(P, E, out)
    t4_enum(P, out)
    t4_static(out)
    t5(out, tier)
    return out


_S = {}


def extra_evidence():
    return {"t2_scenarios": _S.get("t2"), "bounded": PROPERTY.get("bounded", [])}
