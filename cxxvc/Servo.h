#pragma once
#include <Arduino.h>
class Servo {
 public:
  uint8_t attach(int pin);
  uint8_t attach(int pin, int min, int max);
  void detach();
  void write(int value);
  void writeMicroseconds(int value);
  int read();
  int readMicroseconds();
  bool attached();
};
