#pragma once
#include <LiquidCrystal.h>
class LiquidCrystal_I2C : public LiquidCrystal { public:
  LiquidCrystal_I2C(int, int cc, int rr) : LiquidCrystal(0, 0, 0, 0, 0, 0) { cols = cc; rows = rr; cells.assign(rr, std::string(cc, ' ')); }
  void init() { printf("LB:%d:%d\n", cols, rows); } void backlight() {} void noBacklight() {} };
