#pragma once
#include <Arduino.h>
class LiquidCrystal : public Print {
 public:
  LiquidCrystal(uint8_t rs, uint8_t enable, uint8_t d0, uint8_t d1, uint8_t d2, uint8_t d3);
  LiquidCrystal(uint8_t rs, uint8_t rw, uint8_t enable, uint8_t d0, uint8_t d1, uint8_t d2, uint8_t d3);
  void begin(uint8_t cols, uint8_t rows);
  void clear();
  void home();
  void noDisplay();
  void display();
  void setCursor(uint8_t col, uint8_t row);
  void createChar(uint8_t location, uint8_t charmap[]);
};
