#!/usr/bin/env python3
"""Like seed_matrix.py, but never touches /repo or /verif: each seeded patch is applied in a scratch worktree of /repo's HEAD and the
check runs from a scratch copy of /verif with REDUINO_REPO pointing at that worktree.  usage: seed_matrix_scratch.py <seed ids...>"""
import json, os, re, shutil, subprocess, sys

TAG = os.environ.get("SM_TAG", "")          # several matrices may run side by side
WT, VC = "/tmp/sm_wt" + TAG, "/tmp/sm_verif" + TAG
SRC = os.environ.get("SM_SRC", "/verif")   # the copy of the machinery to run (a development copy while /verif is in use)
subprocess.run(f"git -C /repo worktree remove --force {WT}", shell=True, capture_output=True)
subprocess.run(f"git -C /repo worktree add -q --detach {WT} HEAD", shell=True, check=True)
subprocess.run(f"rm -rf {VC} && rsync -a --exclude .git --exclude replay --exclude seeded --exclude seeded_incoming {SRC}/ {VC}/", shell=True, check=True)
m = json.load(open("/verif/MANIFEST.json"))
cmds = {c["property_id"]: c["quick_cmd"] for c in m["checks"]}
rows = []
try:
    for d in sys.argv[1:]:
        pid = d.split("-")[0]
        p = f"/verif/seeded/{d}/patch.diff"
        subprocess.run(f"git -C {WT} checkout -q -- . && git -C {WT} clean -fdq", shell=True)
        r = subprocess.run(["git", "-C", WT, "apply", p], capture_output=True, text=True)
        if r.returncode != 0:
            print(d, "patch does not apply", flush=True)
            continue
        r = subprocess.run(cmds[pid], shell=True, cwd=VC, capture_output=True, text=True, timeout=3600, env=dict(os.environ, REDUINO_REPO=WT))
        viol = [l for l in r.stdout.splitlines() if l.startswith("VIOLATION")]
        obs = sorted({re.sub(r"\[.*?\]", "", re.search(r"obligation=(\S+)", l).group(1)) for l in viol if "obligation=" in l})
        confirmed = any("no-failing-input-found" not in l for l in viol)
        verdict = "VIOLATION" if r.returncode == 1 and viol else {0: "MISSED (exit 0)", 2: "undecided (exit 2)", 3: "checker defect (exit 3)"}.get(r.returncode, f"exit {r.returncode}")
        meta = json.load(open(f"/verif/seeded/{d}/meta.json"))
        meta["detected"] = bool(r.returncode == 1 and viol)
        meta["detected_by"] = {"check": cmds[pid], "exit": r.returncode, "obligations": obs[:6], "with_failing_input_replayed": confirmed}
        json.dump(meta, open(f"/verif/seeded/{d}/meta.json", "w"), indent=1)
        tail = "" if viol else " | " + " ".join(l for l in r.stdout.splitlines() if l.startswith(("UNDECIDED", "CHECKER")))[:300]
        print(d, verdict, obs[:2], tail, flush=True)
finally:
    subprocess.run(f"git -C /repo worktree remove --force {WT}; rm -rf {VC}", shell=True)
