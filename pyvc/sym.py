"""Symbolic values and the fragment of Python's semantics that pyvc encodes.

A symbolic value is a pair (static kind, payload).  Kinds are static *per path*:
dynamically typed parameters are case-split by the driver, so that every path is
monomorphic.  Floats are encoded as reals (assumption A-REAL).
"""
from __future__ import annotations

import z3

INT, REAL, BOOL, STR, NONE, TUPLE, REF, FN, ANY, CLS, EXC = (
    "int", "real", "bool", "str", "none", "tuple", "ref", "fn", "any", "cls", "exc")

AnySort = z3.DeclareSort("PyAny")


class ToolLimit(Exception):
    """A construct pyvc does not model: the unit is *undecided*, never green."""


class SpecError(Exception):
    """A contract expression that cannot be evaluated: checker defect (exit 3)."""


class V:
    __slots__ = ("k", "t", "a")

    def __init__(self, k, t=None, a=None):
        self.k = k      # kind
        self.t = t      # z3 term / tuple of V / heap id / descriptor
        self.a = a      # extra

    def __repr__(self):
        if self.k == TUPLE:
            return "(" + ", ".join(map(repr, self.t)) + ")"
        return f"{self.k}:{self.t}"


def vint(x):
    return V(INT, z3.IntVal(x) if isinstance(x, int) else x)


def vreal(x):
    if isinstance(x, (int, float)):
        return V(REAL, z3.RealVal(repr(x) if isinstance(x, float) else x))
    return V(REAL, x)


def vbool(x):
    return V(BOOL, z3.BoolVal(x) if isinstance(x, bool) else x)


def vstr(x):
    return V(STR, z3.StringVal(x) if isinstance(x, str) else x)


VNONE = V(NONE)
TRUE = vbool(True)
FALSE = vbool(False)


def vtuple(items):
    return V(TUPLE, tuple(items))


def const(py):
    """Lift a Python constant."""
    if py is None:
        return VNONE
    if isinstance(py, bool):
        return vbool(py)
    if isinstance(py, int):
        return vint(py)
    if isinstance(py, float):
        if py != py or py in (float("inf"), float("-inf")):
            raise ToolLimit("non-finite float constant")
        return vreal(py)
    if isinstance(py, str):
        return vstr(py)
    if isinstance(py, tuple):
        return vtuple([const(x) for x in py])
    raise ToolLimit(f"constant of type {type(py).__name__}")


def is_num(v):
    return v.k in (INT, REAL, BOOL)


def as_int_term(v):
    """int/bool -> z3 Int."""
    if v.k == INT:
        return v.t
    if v.k == BOOL:
        return z3.If(v.t, z3.IntVal(1), z3.IntVal(0))
    raise ToolLimit(f"as_int_term on {v.k}")


def as_real_term(v):
    if v.k == REAL:
        return v.t
    return z3.ToReal(as_int_term(v))


def num_term(v):
    """arith term in the value's own sort (bool -> int)."""
    return v.t if v.k in (INT, REAL) else as_int_term(v)


def simp(t):
    return z3.simplify(t)


def floor_real(t):
    return z3.ToInt(t)  # z3 ToInt is floor


def trunc_real(t):
    return z3.If(t >= 0, z3.ToInt(t), -z3.ToInt(-t))


def round_half_even(t):
    f = z3.ToInt(t)
    d = t - z3.ToReal(f)
    return z3.If(d < z3.RealVal("1/2"), f,
                 z3.If(d > z3.RealVal("1/2"), f + 1,
                       z3.If(f % 2 == 0, f, f + 1)))


def floordiv_int(a, b):
    # Python floor division for b != 0
    return z3.If(b > 0, a / b, (-a) / (-b))


def mod_int(a, b):
    return a - b * floordiv_int(a, b)


def py_truth(v):
    """Python truthiness as a z3 Bool (pure kinds only)."""
    if v.k == BOOL:
        return v.t
    if v.k == INT:
        return v.t != 0
    if v.k == REAL:
        return v.t != 0
    if v.k == STR:
        return z3.Length(v.t) != 0
    if v.k == NONE:
        return z3.BoolVal(False)
    if v.k == TUPLE:
        return z3.BoolVal(len(v.t) > 0)
    if v.k in (FN, CLS):
        return z3.BoolVal(True)
    raise ToolLimit(f"truthiness of {v.k}")


def num_join(a, b):
    return REAL if REAL in (a.k, b.k) else INT


def coerce_pair(a, b):
    if REAL in (a.k, b.k):
        return as_real_term(a), as_real_term(b), REAL
    return as_int_term(a), as_int_term(b), INT


CMP = {
    "Lt": lambda x, y: x < y, "LtE": lambda x, y: x <= y,
    "Gt": lambda x, y: x > y, "GtE": lambda x, y: x >= y,
}


def py_eq(a, b):
    """Python == as z3 Bool for the modelled kinds."""
    if is_num(a) and is_num(b):
        if a.k == BOOL and b.k == BOOL:
            return a.t == b.t
        x, y, _ = coerce_pair(a, b)
        return x == y
    if a.k == STR and b.k == STR:
        return a.t == b.t
    if a.k == NONE or b.k == NONE:
        if a.k == ANY or b.k == ANY:
            raise ToolLimit("== between opaque value and None")
        return z3.BoolVal(a.k == b.k)
    if a.k == TUPLE and b.k == TUPLE:
        if len(a.t) != len(b.t):
            return z3.BoolVal(False)
        return z3.And([py_eq(x, y) for x, y in zip(a.t, b.t)]) if a.t else z3.BoolVal(True)
    if a.k == ANY and b.k == ANY:
        return a.t == b.t
    if a.k == REF and b.k == REF:
        return None  # resolved by the engine (needs the heap)
    if a.k in (FN, CLS) and b.k in (FN, CLS):
        return z3.BoolVal(a.t is b.t or a.t == b.t)
    if a.k == ANY or b.k == ANY:
        raise ToolLimit("== on opaque value")
    # distinct builtin kinds never compare equal (str vs number, tuple vs number, ...)
    return z3.BoolVal(False)


def fresh(kind, name, counter=[0]):
    counter[0] += 1
    n = f"{name}!{counter[0]}"
    if kind == INT:
        return V(INT, z3.Int(n))
    if kind == REAL:
        return V(REAL, z3.Real(n))
    if kind == BOOL:
        return V(BOOL, z3.Bool(n))
    if kind == STR:
        return V(STR, z3.String(n))
    if kind == ANY:
        return V(ANY, z3.Const(n, AnySort))
    if kind == NONE:
        return VNONE
    raise ToolLimit(f"fresh value of kind {kind}")


def named(kind, name):
    if kind == INT:
        return V(INT, z3.Int(name))
    if kind == REAL:
        return V(REAL, z3.Real(name))
    if kind == BOOL:
        return V(BOOL, z3.Bool(name))
    if kind == STR:
        return V(STR, z3.String(name))
    if kind == ANY:
        return V(ANY, z3.Const(name, AnySort))
    if kind == NONE:
        return VNONE
    raise ToolLimit(f"named value of kind {kind}")


def same_value(a, b):
    """z3 Bool: a and b are the *same Python value* (kind and payload) - used for frames."""
    if a.k != b.k:
        return z3.BoolVal(False)
    if a.k in (INT, REAL, BOOL, STR, ANY):
        return a.t == b.t
    if a.k == NONE:
        return z3.BoolVal(True)
    if a.k == TUPLE:
        if len(a.t) != len(b.t):
            return z3.BoolVal(False)
        return z3.And([same_value(x, y) for x, y in zip(a.t, b.t)]) if a.t else z3.BoolVal(True)
    if a.k in (FN, CLS, REF):
        return z3.BoolVal(a.t is b.t or a.t == b.t)
    raise ToolLimit(f"same_value on {a.k}")
