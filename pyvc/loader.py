"""Reads the real source text of /repo on every run and indexes the units in it."""
from __future__ import annotations

import ast
import hashlib
import os

REPO = os.environ.get("REDUINO_REPO", "/repo")
SRC = os.path.join(REPO, "src")
VERIF = os.path.dirname(os.path.dirname(os.path.abspath(__file__)))


class ClassInfo:
    def __init__(self, node):
        self.node = node
        self.methods = {}
        self.static = set()
        self.properties = set()
        self.consts = {}
        self.bases = [ast.unparse(b) for b in node.bases]
        for n in node.body:
            if isinstance(n, ast.FunctionDef):
                decos = [ast.unparse(d) for d in n.decorator_list]
                if "property" in decos:
                    self.properties.add(n.name)
                    continue
                if "staticmethod" in decos:
                    self.static.add(n.name)
                elif decos:
                    continue
                self.methods[n.name] = n
            elif isinstance(n, (ast.Assign, ast.AnnAssign)):
                tgt = n.targets[0] if isinstance(n, ast.Assign) else n.target
                if isinstance(tgt, ast.Name) and n.value is not None:
                    try:
                        self.consts[tgt.id] = ast.literal_eval(n.value)
                    except Exception:
                        pass


GENERATED = {}      # "@gen/<name>" -> python text produced mechanically on this run (e.g. by cxx2py)


class ModuleInfo:
    def __init__(self, relpath):
        self.relpath = relpath
        if relpath.startswith("@gen/"):
            self.path = relpath
            self.text = GENERATED[relpath]
        else:
            self.path = os.path.join(VERIF, relpath[7:]) if relpath.startswith("@verif/") else os.path.join(SRC, relpath)
            self.text = open(self.path, encoding="utf-8").read()
        self.sha256 = hashlib.sha256(self.text.encode()).hexdigest()
        self.tree = ast.parse(self.text)
        self.functions = {}
        self.classes = {}
        self.consts = {}
        self.externs = {}
        self.module_assigns = {}
        self.imports = {}
        for n in self.tree.body:
            if isinstance(n, ast.ImportFrom) and n.module and n.level == 0:
                base = n.module.replace(".", "/")
                for cand in (base + "/__init__.py", base + ".py"):
                    if os.path.exists(os.path.join(SRC, cand)):
                        for al in n.names:
                            self.imports[al.asname or al.name] = ("from", cand, al.name)
                        break
            if isinstance(n, ast.FunctionDef):
                self.functions[n.name] = n
            elif isinstance(n, ast.ClassDef):
                self.classes[n.name] = ClassInfo(n)
            elif isinstance(n, (ast.Assign, ast.AnnAssign)):
                tgt = n.targets[0] if isinstance(n, ast.Assign) else n.target
                if isinstance(tgt, ast.Name) and n.value is not None:
                    self.module_assigns[tgt.id] = n.value
                    try:
                        self.consts[tgt.id] = ast.literal_eval(n.value)
                    except Exception:
                        pass

        # a module-level name that some function re-binds through `global` is state, not a constant
        self.mutated_globals = set()
        for n in ast.walk(self.tree):
            if isinstance(n, ast.Global):
                self.mutated_globals.update(n.names)
        for name in self.mutated_globals:
            self.consts.pop(name, None)

    def unit_text(self, qual):
        node = self.find(qual)
        return ast.get_source_segment(self.text, node)

    def find(self, qual):
        if "." in qual:
            c, m = qual.split(".", 1)
            ci = self.classes[c]
            if m in ci.methods:
                return ci.methods[m]
            raise KeyError(qual)
        return self.functions[qual]


def load(relpaths):
    return {p: ModuleInfo(p) for p in relpaths}
