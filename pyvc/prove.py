"""Proves one unit against its contract: builds the symbolic pre-state, runs the engine on the
real function body, generates exit obligations, discharges everything."""
from __future__ import annotations

import itertools
import subprocess
import tempfile
import ast
import time
import traceback
import os

import z3

from .sym import *  # noqa
from .state import *  # noqa
from .engine import Engine, Frame, Obligation
from . import typespec


class UnitResult:
    def __init__(self, unit, variant):
        self.unit = unit
        self.variant = variant
        self.obligations = []   # dicts
        self.status = "ok"      # ok | toollimit | specerror | crash
        self.detail = ""
        self.paths = 0
        self.inlined = []
        self.unrolled = []
        self.time = 0.0


def variant_space(c, cd, is_method, is_init):
    """All combinations of kind alternatives for parameters and (pre-state) fields."""
    axes = []
    for p, spec in c.params.items():
        axes.append([("param", p, a) for a in typespec.alternatives(spec)])
    if cd is not None and is_method and not is_init:
        allf = dict(cd.fields)
        allf.update(cd.ghost_fields)
        for f, spec in allf.items():
            axes.append([("field", f, a) for a in typespec.alternatives(spec)])
    return list(itertools.product(*axes)) if axes else [()]


def variant_label(variant):
    bits = []
    for kind, name, alt in variant:
        bits.append(f"{name}:{alt}")
    return ",".join(bits)


def model_value(m, v, st):
    try:
        if v.k in (INT, REAL, BOOL, STR):
            r = m.eval(v.t, model_completion=True)
            if v.k == INT:
                return r.as_long()
            if v.k == REAL:
                if z3.is_rational_value(r):
                    return {"real": f"{r.numerator_as_long()}/{r.denominator_as_long()}"}
                return {"real": str(r)}
            if v.k == BOOL:
                return z3.is_true(r)
            if v.k == STR:
                return r.as_string()
        if v.k == NONE:
            return None
        if v.k == TUPLE:
            return [model_value(m, x, st) for x in v.t]
        if v.k == REF:
            cell = st.heap.get(v.t)
            if isinstance(cell, Obj):
                return {"$obj": cell.cls, **{f: model_value(m, x, st) for f, x in cell.fields.items()}}
            if isinstance(cell, SList):
                r = m.eval(cell.seq, model_completion=True)
                n = m.eval(z3.Length(cell.seq), model_completion=True).as_long()
                out = []
                for i in range(min(n, 50)):
                    e = m.eval(cell.seq[i], model_completion=True)
                    out.append(e.as_string() if cell.ek == STR else str(e))
                return {"$list": out}
            if isinstance(cell, CList):
                return {"$list": [model_value(m, x, st) for x in cell.items]}
            if isinstance(cell, AList):
                n = m.eval(cell.n, model_completion=True).as_long()
                out = []
                for i in range(max(0, min(n, 8))):
                    e = m.eval(z3.Select(cell.arr, i), model_completion=True)
                    out.append(e.as_string() if cell.ek == STR else str(e))
                return {"$list": out}
            if isinstance(cell, Map):
                return {"$map": map_entries(m, cell)}
            if isinstance(cell, Ext):
                return {"$ext": cell.name}
        if v.k == FN:
            return {"$fn": v.t[1]} if v.t[0] == "extfn" else f"<fn {v.t}>"
        return f"<{v.k}>"
    except Exception as ex:  # pragma: no cover
        return f"<unprintable {v.k}: {ex}>"


def _keys_in(term, acc, depth=0):
    if depth > 60:
        return
    if z3.is_store(term):
        acc.append(term.arg(1))
        _keys_in(term.arg(0), acc, depth + 1)
    elif z3.is_app(term):
        for ch in term.children():
            if z3.is_array(ch):
                _keys_in(ch, acc, depth + 1)


def map_entries(m, cell):
    """Entries of a symbolic dict under model m (keys mentioned by the model's array values)."""
    from .pyval import PyKey
    keys = []
    for t in (cell.arr, cell.dom):
        v = m.eval(t, model_completion=True)
        _keys_in(v, keys)
        if z3.is_as_array(v):
            fi = m[z3.get_as_array_func(v)]
            for e in fi.as_list()[:-1]:
                keys.append(e[0])
    out, seen = [], set()
    for k in keys:
        kv = m.eval(k, model_completion=True)
        if str(kv) in seen:
            continue
        seen.add(str(kv))
        if not z3.is_true(m.eval(z3.Select(cell.dom, kv), model_completion=True)):
            continue
        val = m.eval(z3.Select(cell.arr, kv), model_completion=True)
        if kv.decl().name() == "IntKey":
            key = kv.arg(0).as_long()
        else:
            key = kv.arg(0).as_string()
        out.append([key, val.as_long() if cell.vk == "int" else val.as_string() if cell.vk == "str" else str(val)])
    return out


def to_smt2(pc, goal):
    s = z3.Solver()
    for l in pc:
        s.add(l)
    s.add(z3.Not(goal))
    return s.to_smt2()


def run_cvc5(smt2, timeout_s):
    import re as _re
    # z3 prints applications of recursive functions as ((_ f 0) args): plain SMT-LIB for cvc5
    text = _re.sub(r"\(_ ([A-Za-z_][\w!.]*) 0\)", r"\1", smt2)
    if "(set-logic" not in text:
        text = "(set-logic ALL)\n" + text
    with tempfile.NamedTemporaryFile("w", suffix=".smt2", delete=False) as f:
        f.write(text)
        path = f.name
    try:
        r = subprocess.run(["/usr/bin/cvc5", "--strings-exp", f"--tlimit={int(timeout_s * 1000)}", path],
                           capture_output=True, text=True, timeout=timeout_s + 5)
        out = r.stdout.strip().splitlines()
        return out[0] if out else "unknown"
    except Exception:
        return "unknown"
    finally:
        os.unlink(path)


def discharge(ob, timeout_ms, use_cvc5=True, seeds=(0, 7)):
    """unsat -> discharged; sat -> model; unknown after all back ends -> undischarged."""
    t0 = time.time()
    if ob.name.endswith("/mustfail"):
        timeout_ms, use_cvc5, seeds = min(timeout_ms, 2000), False, (0,)
    g = ob.goal
    if z3.is_true(g):
        ob.status, ob.backend = "discharged", "simplify"
        ob.time = 0.0
        return
    last = None

    def try_z3(seed, budget):
        s = z3.Solver()
        s.set("timeout", budget)
        s.set("random_seed", seed)
        for l in ob.pc:
            s.add(l)
        s.add(z3.Not(g))
        r = s.check()
        return r, s

    def try_cvc5():
        try:
            return run_cvc5(to_smt2(ob.pc, g), timeout_ms / 1000.0)
        except Exception:
            return "unknown"
    # 1. a short z3 attempt; 2. cvc5 (decides most string obligations z3 leaves open); 3. z3 with the full budget, other seeds
    plan = [("z3", seeds[0], min(timeout_ms, 2500))] + ([("cvc5", None, None)] if use_cvc5 else []) + [("z3", sd, timeout_ms) for sd in seeds]
    for which, seed, budget in plan:
        if which == "z3":
            r, s = try_z3(seed, budget)
            if r == z3.unsat:
                ob.status, ob.backend = "discharged", "z3"
                ob.time = time.time() - t0
                return
            if r == z3.sat:
                ob.status, ob.backend = "sat", "z3"
                ob.model = s.model()
                ob.time = time.time() - t0
                return
            last = s.reason_unknown()
        else:
            r = try_cvc5()
            if r == "unsat":
                ob.status, ob.backend = "discharged", "cvc5"
                ob.time = time.time() - t0
                return
            if r == "sat":
                ob.status, ob.backend = "sat", "cvc5"
                ob.time = time.time() - t0
                return
    ob.status, ob.backend = "unknown", "z3+cvc5"
    ob.info["reason"] = str(last)
    ob.time = time.time() - t0


def build_prestate(eng, c, cd, variant, mi, fn, is_method, is_init, is_static):
    st = State()
    for g, kind in eng.reg.ghosts.items():
        if kind.startswith("seq:"):
            st.ghost[g] = V("seq", z3.Const(g, z3.SeqSort(typespec.SORTS[kind[4:]])), kind[4:])
        elif kind.startswith("map:"):
            st.ghost[g] = make_glob(kind, g, st)
        else:
            st.ghost[g] = named(kind, g)
    for (file, name), spec in eng.reg.globs.items():
        if file == c.file:
            st.glob[name] = make_glob(spec, name, st)
    names = {}
    pk = {n: a for k, n, a in variant if k == "param"}
    fk = {n: a for k, n, a in variant if k == "field"}
    selfv = None
    if is_method and not is_static:
        if is_init:
            selfv = st.alloc(Obj(cd.name, {}))
        else:
            fields = {}
            allf = dict(cd.fields)
            allf.update(cd.ghost_fields)
            for f in allf:
                fields[f] = typespec.make(fk[f], f"self.{f}", st, eng)
            selfv = st.alloc(Obj(cd.name, fields))
        names["self"] = selfv
        st.locals[fn.args.args[0].arg] = selfv
    a = fn.args
    params = [p.arg for p in a.posonlyargs + a.args + a.kwonlyargs]
    if is_method and not is_static:
        params = params[1:]
    for p in params:
        if p not in pk:
            raise SpecError(f"contract of {c.name} does not type parameter {p}")
        v = typespec.make(pk[p], p, st, eng)
        st.locals[p] = v
        names[p] = v
    return st, names, selfv


def make_glob(spec, name, st):
    from .pyval import PyKey
    if spec.startswith("ext:"):
        return st.alloc(Ext(spec[4:]))
    if spec.startswith("map:"):
        vk = spec[4:]
        vs = typespec.SORTS[vk]
        return st.alloc(Map(z3.Const(f"{name}.arr", z3.ArraySort(PyKey, vs)),
                            z3.Const(f"{name}.dom", z3.ArraySort(PyKey, z3.BoolSort())), vk))
    return named(spec, name)


def ordered_locals(fn):
    """names bound in the function, in order of first binding (parameters excluded): the positional identity of its locals"""
    params = {a.arg for a in fn.args.posonlyargs + fn.args.args + fn.args.kwonlyargs}
    if fn.args.vararg:
        params.add(fn.args.vararg.arg)
    if fn.args.kwarg:
        params.add(fn.args.kwarg.arg)
    seen = []

    def bind(t):
        if isinstance(t, ast.Name):
            if t.id not in params and t.id not in seen:
                seen.append(t.id)
        elif isinstance(t, (ast.Tuple, ast.List)):
            for e in t.elts:
                bind(e)
        elif isinstance(t, ast.Starred):
            bind(t.value)

    def walk(body):
        for st in body:
            if isinstance(st, (ast.FunctionDef, ast.AsyncFunctionDef, ast.ClassDef)):
                continue
            if isinstance(st, ast.Assign):
                for t in st.targets:
                    bind(t)
            elif isinstance(st, (ast.AugAssign, ast.AnnAssign)):
                bind(st.target)
            elif isinstance(st, (ast.For, ast.AsyncFor)):
                bind(st.target)
            elif isinstance(st, (ast.With, ast.AsyncWith)):
                for it in st.items:
                    if it.optional_vars is not None:
                        bind(it.optional_vars)
            for attr in ("body", "orelse", "finalbody"):
                sub = getattr(st, attr, None)
                if isinstance(sub, list):
                    walk(sub)
            for h in getattr(st, "handlers", []) or []:
                if h.name and h.name not in seen and h.name not in params:
                    seen.append(h.name)
                walk(h.body)
    walk(fn.body)
    return seen


def local_roles(fn):
    """name -> role of a local in the function's loops (first role found, loops in source order)"""
    roles = {}
    loops = sorted([n for n in ast.walk(fn) if isinstance(n, (ast.While, ast.For))], key=lambda n: (n.lineno, n.col_offset))
    for k, loop in enumerate(loops):
        if isinstance(loop, ast.For):
            flat = []

            def tl(t):
                if isinstance(t, ast.Name):
                    flat.append(t.id)
                elif isinstance(t, (ast.Tuple, ast.List)):
                    for e in t.elts:
                        tl(e)
            tl(loop.target)
            for idx, n in enumerate(flat):
                roles.setdefault(n, ["for", k, idx])
        inner = [n for b in loop.body for n in ast.walk(b)]
        inner_ids = {id(n) for n in inner}
        muts = []
        for n in sorted([n for n in inner if hasattr(n, "lineno")], key=lambda n: (n.lineno, n.col_offset)):
            base = None
            if isinstance(n, ast.Subscript) and isinstance(n.ctx, ast.Store) and isinstance(n.value, ast.Name):
                base = n.value.id
            elif isinstance(n, ast.Call) and isinstance(n.func, ast.Attribute) and isinstance(n.func.value, ast.Name) \
                    and n.func.attr in ("append", "extend", "pop", "insert", "remove", "clear", "add", "update"):
                base = n.func.value.id
            if base is not None and base not in muts:
                muts.append(base)
        for idx, n in enumerate(muts):
            roles.setdefault(n, ["mut", k, idx])
        inside = [n.id for n in sorted([n for n in inner if isinstance(n, ast.Name) and isinstance(n.ctx, ast.Store)], key=lambda n: (n.lineno, n.col_offset))]
        outside = {n.id for n in ast.walk(fn) if isinstance(n, ast.Name) and isinstance(n.ctx, ast.Store) and id(n) not in inner_ids}
        carried = []
        for n in inside:
            if n in outside and n not in carried:
                carried.append(n)
        for idx, n in enumerate(carried):
            roles.setdefault(n, ["carried", k, idx])
    return roles


def loop_carried(fn):
    """locals bound outside a loop and re-bound inside it (in order of first binding)"""
    order = ordered_locals(fn)
    carried = set()
    for loop in [n for n in ast.walk(fn) if isinstance(n, (ast.While, ast.For))]:
        inside = {n.id for b in loop.body for n in ast.walk(b) if isinstance(n, ast.Name) and isinstance(n.ctx, ast.Store)}
        inner_nodes = {id(n) for b in loop.body for n in ast.walk(b)}
        outside = {n.id for n in ast.walk(fn) if isinstance(n, ast.Name) and isinstance(n.ctx, ast.Store) and id(n) not in inner_nodes}
        carried |= inside & outside
    return [n for n in order if n in carried]


def contract_names(c):
    import re as _re
    out = set()

    def walk(x):
        if isinstance(x, str):
            out.update(_re.findall(r"[A-Za-z_][A-Za-z_0-9]*", x))
        elif isinstance(x, (list, tuple)):
            for y in x:
                walk(y)
        elif isinstance(x, dict):
            for y in x.values():
                walk(y)
    walk(c.loops)
    return out


def rename_locals_in_contract(c, ren):
    """a copy of the contract whose loop invariants / variants / clauses speak about the function's locals under their current names"""
    import copy
    import re as _re
    if not ren:
        return c
    # identifiers only: the text of a string literal inside a clause (`tmp / 'src' / 'main.cpp'`) is not a local
    pat = _re.compile(r"('(?:[^'\\]|\\.)*'|\"(?:[^\"\\]|\\.)*\")|(?<![\w.])(" + "|".join(_re.escape(k) for k in ren) + r")\b")

    def sub(x):
        if isinstance(x, str):
            return pat.sub(lambda m: m.group(1) if m.group(1) is not None else ren[m.group(2)], x)
        if isinstance(x, list):
            return [sub(y) for y in x]
        if isinstance(x, tuple):
            return tuple(sub(y) for y in x)
        if isinstance(x, dict):
            # a local may also be a key (the kinds of list-typed locals); the spec's own keywords are never locals
            return {(ren[k] if isinstance(k, str) and k in ren and k not in SPEC_KEYS else k): sub(v) for k, v in x.items()}
        return x
    SPEC_KEYS = {"inv", "variant", "index_name", "list_kinds", "locals", "use", "use_exit", "modifies", "decreases"}
    c2 = copy.copy(c)
    c2.loops = sub(c.loops)
    c2.ensures = sub(c.ensures)
    c2.on_raise = sub(c.on_raise)
    c2.lemmas = sub(c.lemmas)
    return c2


def prove_variant(reg, modules, file, qual, variant, timeout_ms=10000, prefix="", extra_setup=None):
    c = reg.lookup(file, qual)
    mi = modules[file]
    fn = mi.find(qual)
    # a contract names locals of the function (loop invariants); if the function's locals were renamed since the baseline was written -
    # same number of locals, same order of first binding - the contract is read under the new names (a rename is not a change of behaviour)
    pinned = getattr(reg, "pinned_locals", {}).get(f"{file}:{qual}")
    if pinned:
        actual = ordered_locals(fn)
        if pinned != actual:
            # names kept by the source are anchors; between two anchors, a run of vanished names is mapped onto the run of new names
            # when both runs have the same length (new temporaries elsewhere do not disturb the mapping)
            ren = {}
            anchors = [n for n in pinned if n in actual]
            if [n for n in actual if n in anchors] == anchors:
                def runs(seq):
                    out, cur = [], []
                    for n in seq:
                        if n in anchors:
                            out.append(cur)
                            cur = []
                        else:
                            cur.append(n)
                    out.append(cur)
                    return out
                for old_run, new_run in zip(runs(pinned), runs(actual)):
                    if old_run and len(old_run) == len(new_run):
                        ren.update(dict(zip(old_run, new_run)))
            # temporaries were added or removed around a name the contract speaks about: such a name is loop state, and it is recognised by
            # its ROLE in the loop (k-th target of the n-th for loop; list mutated in the n-th loop; k-th name bound before the n-th loop and
            # re-bound in it), recorded in the baseline; it is mapped when exactly one new name has that role
            proles = getattr(reg, "pinned_roles", {}).get(f"{file}:{qual}") or {}
            if proles:
                now = local_roles(fn)
                used = contract_names(c)
                taken = set(ren.values())
                for old in pinned:
                    if old in actual or old in ren or old not in used or old not in proles:
                        continue
                    cands = [n for n in actual if n not in pinned and n not in taken and now.get(n) == proles[old]]
                    if len(cands) == 1:
                        ren[old] = cands[0]
                        taken.add(cands[0])
            c = rename_locals_in_contract(c, ren)
    res = UnitResult(qual, variant_label(variant))
    t0 = time.time()
    eng = Engine(reg, modules, timeout_ms, prefix)
    if extra_setup:
        extra_setup(eng)
    eng.unit_name = qual + (f"[{variant_label(variant)}]" if variant else "")
    eng.feas_timeout_ms = getattr(c, "feas_timeout_ms", 3000)
    eng.assume_in_range = getattr(c, "assume_in_range", False)
    is_method = "." in qual
    cname = qual.split(".")[0] if is_method else None
    cd = reg.classes.get(cname) if is_method else None
    is_static = is_method and qual.split(".")[1] in mi.classes[cname].static
    is_init = c.is_init
    try:
        st, names, selfv = build_prestate(eng, c, cd, variant, mi, fn, is_method, is_init, is_static)
        st.sframes.append(Frame(fn, file, qual, cname, c))
        eng.entry_names = names
        eng.loop_local_names = set()
        # assumptions: class invariant + requires
        if selfv is not None and c.public and not is_init:
            for src, t in eng.class_inv(selfv, st):
                st.assume(t)
        pre0 = st.copy()
        for src in c.requires:
            st.assume(eng.spec_bool(src, st, names, pre0))
        pre = st.copy()
        eng.unit_pre = pre
        # vacuity: the precondition must be satisfiable
        if not eng.feasible(st.pc):
            ob = eng.oblige(st, "cover/pre-satisfiable", z3.BoolVal(False), "requires+inv")
            ob.info["vacuous"] = True
        raise_conds = [(exc, eng.spec_bool(src, pre, names, pre), src) for exc, src in c.raises.items()]
        n_normal = n_raise = 0
        for out, s1 in eng.exec_block(fn.body, st):
            res.paths += 1
            if res.paths > eng.path_budget:
                raise ToolLimit("path budget exhausted")
            if out[0] in ("next", "return"):
                n_normal += 1
                rv = out[1] if out[0] == "return" else VNONE
                exit_normal(eng, c, cd, s1, pre, names, selfv, rv, raise_conds, is_init, variant)
                if n_normal == 1:
                    # vacuity guard: this obligation must NOT be discharged (the path is satisfiable)
                    eng.oblige(s1, "mustfail", z3.BoolVal(False), "vacuity guard")
            elif out[0] == "raise":
                n_raise += 1
                exit_raise(eng, c, cd, s1, pre, names, selfv, out[1], raise_conds, is_init)
            else:
                raise ToolLimit("break/continue at function level")
        res.detail = f"{n_normal} normal / {n_raise} raising paths"
        # contract-level lemmas
        for lname, free, src in c.lemmas:
            n3 = dict(names)
            for fv, kind in free.items():
                n3[fv] = named(kind, f"lemma.{fv}")
            empty = pre.copy()
            empty.pc = []
            eng.oblige(empty, f"lemma/{lname}", eng.spec_bool(src, pre, n3, pre), src)
    except ToolLimit as ex:
        res.status, res.detail = "toollimit", str(ex)
    except SpecError as ex:
        res.status, res.detail = "specerror", str(ex)
    except Exception as ex:  # checker defect
        res.status, res.detail = "crash", traceback.format_exc()
    for ob in eng.obligations:
        discharge(ob, timeout_ms)
        d = {"name": ob.name, "status": ob.status, "backend": ob.backend, "time": round(ob.time, 4),
             "where": ob.where}
        if ob.status == "sat" and ob.model is not None:
            try:
                d["model"] = {n: model_value(ob.model, v, eng.unit_pre) for n, v in eng.entry_names.items()}
                d["model"]["$ghost"] = {g: model_value(ob.model, v, eng.unit_pre)
                                        for g, v in eng.unit_pre.ghost.items() if v.k != "seq"}
                for g, v in eng.unit_pre.ghost.items():
                    if v.k == "seq":
                        n = ob.model.eval(z3.Length(v.t), model_completion=True).as_long()
                        d["model"]["$ghost"][g] = [str(ob.model.eval(v.t[i], model_completion=True)) for i in range(min(n, 20))]
                if eng.unit_pre.glob:
                    d["model"]["$glob"] = {g: model_value(ob.model, v, eng.unit_pre)
                                           for g, v in eng.unit_pre.glob.items()}
            except Exception as ex:
                d["model"] = {"$error": str(ex)}
        if ob.status == "unknown":
            d["reason"] = ob.info.get("reason")
        if c.probe:
            d["probe"] = True
        res.obligations.append(d)
    res.inlined = sorted(eng.inlined)
    res.unrolled = sorted(map(list, eng.unrolled))
    res.time = time.time() - t0
    return res


def check_result_kind(eng, c, s1, rv, names, variant):
    rspec = c.returns(names, s1) if callable(c.returns) else c.returns
    return typespec.kind_matches(rv, rspec, s1)


def exit_normal(eng, c, cd, s1, pre, names, selfv, rv, raise_conds, is_init, variant):
    for exc, t, src in raise_conds:
        eng.oblige(s1, f"xpost/{exc}-if", z3.Not(t), f"normal return although: {src}")
    n2 = dict(names)
    n2["result"] = rv
    for ln, lv in s1.locals.items():
        if not ln.startswith("$") and lv.k != "poison":
            n2["local_" + ln] = lv
        elif ln.startswith("$k"):
            n2["loopk" + ln[2:]] = lv
    for g, src in c.ghost_update.items():
        eng.set_path(g, eng.spec_eval(src, s1, n2, pre), selfv, s1)
    if not check_result_kind(eng, c, s1, rv, names, variant):
        eng.oblige(s1, "post/result-kind", z3.BoolVal(False),
                   f"result kind {typespec.spec_of(rv, s1)} not admitted by returns={c.returns!r}")
    else:
        for i, src in enumerate(c.ensures):
            eng.oblige(s1, f"post/{i + 1}", eng.spec_bool(src, s1, n2, pre), src)
    if selfv is not None:
        cell = s1.heap[selfv.t]
        allf = dict(cd.fields)
        allf.update(cd.ghost_fields)
        typed_ok = True
        if c.public or is_init:
            for f, spec in allf.items():
                if f not in cell.fields:
                    if f in cd.ghost_fields:
                        continue
                    eng.oblige(s1, f"inv/type/{f}", z3.BoolVal(False), f"field {f} not set")
                    typed_ok = False
                elif not typespec.kind_matches(cell.fields[f], spec, s1):
                    eng.oblige(s1, f"inv/type/{f}", z3.BoolVal(False),
                               f"field {f} holds a {typespec.spec_of(cell.fields[f], s1)}, declared {spec}")
                    typed_ok = False
            if typed_ok:
                for i, (src, t) in enumerate(eng.class_inv(selfv, s1)):
                    eng.oblige(s1, f"inv/{i + 1}", t, src)
        if not is_init:
            frame_fields(eng, c, cd, s1, pre, selfv, "frame")
    frame_ghosts(eng, c, s1, pre, "frame", c.modifies, list(c.ghost_update))


def frame_fields(eng, c, cd, s1, pre, selfv, label, modifies=None, all_fields=False):
    modifies = c.modifies if modifies is None else modifies
    cell, cell0 = s1.heap[selfv.t], pre.heap[selfv.t]
    for f in cell0.fields:
        if not all_fields and (f"self.{f}" in modifies or f"self.{f}" in c.ghost_update):
            continue
        if f not in cell.fields:
            eng.oblige(s1, f"{label}/self.{f}", z3.BoolVal(False), "field deleted")
            continue
        a, b = cell0.fields[f], cell.fields[f]
        if a.k != b.k:
            eng.oblige(s1, f"{label}/self.{f}", z3.BoolVal(False), f"kind changed {a.k}->{b.k}")
        else:
            eng.oblige(s1, f"{label}/self.{f}", eng.same(a, b, s1) if a.k != REF else same_ref(eng, a, b, s1, pre),
                       f"self.{f} unchanged")
    for f in cell.fields:
        if f not in cell0.fields and f not in cd.fields and f not in cd.ghost_fields:
            eng.oblige(s1, f"{label}/self.{f}", z3.BoolVal(False), "undeclared field created")


def same_ref(eng, a, b, s1, pre):
    if a.t != b.t:
        ca, cb = pre.heap[a.t], s1.heap[b.t]
        if isinstance(ca, Ext) or isinstance(cb, Ext):
            return z3.BoolVal(False)
    ca, cb = pre.heap[a.t], s1.heap[b.t]
    return same_cell(ca, cb)


def same_cell(ca, cb):
    if isinstance(ca, Map) and isinstance(cb, Map):
        return z3.And(ca.arr == cb.arr, ca.dom == cb.dom)
    if isinstance(ca, SList) and isinstance(cb, SList):
        return ca.seq == cb.seq
    if isinstance(ca, AList) and isinstance(cb, AList):
        return z3.And(ca.arr == cb.arr, ca.n == cb.n)
    if isinstance(ca, Ext) and isinstance(cb, Ext):
        return z3.BoolVal(ca.name == cb.name)
    if isinstance(ca, CList) and isinstance(cb, CList) and len(ca.items) == len(cb.items):
        return z3.And([same_value(x, y) for x, y in zip(ca.items, cb.items)] or [z3.BoolVal(True)])
    return z3.BoolVal(ca is cb)


def frame_ghosts(eng, c, s1, pre, label, modifies, updates=()):
    for g, v0 in pre.ghost.items():
        if f"ghost.{g}" in modifies or f"ghost.{g}" in updates:
            continue
        v1 = s1.ghost[g]
        if v0.k == REF:
            t = same_cell(pre.heap[v0.t], s1.heap[v1.t])
        else:
            t = (v0.t == v1.t) if v0.k == "seq" else same_value(v0, v1)
        eng.oblige(s1, f"{label}/ghost.{g}", t, f"ghost {g} unchanged")
    for g, v0 in pre.glob.items():
        if f"glob.{g}" in modifies:
            continue
        v1 = s1.glob[g]
        if v0.k == REF:
            t = same_cell(pre.heap[v0.t], s1.heap[v1.t]) if v1.k == REF else z3.BoolVal(False)
        else:
            t = same_value(v0, v1)
        eng.oblige(s1, f"{label}/glob.{g}", t, f"module state {g} unchanged")


def exit_raise(eng, c, cd, s1, pre, names, selfv, raised, raise_conds, is_init):
    exc = raised.cls
    matched = [(e, t, src) for e, t, src in raise_conds if e == exc]
    if matched:
        e, t, src = matched[0]
        eng.oblige(s1, f"xpost/{exc}-only-if", t, f"raised {exc} although not: {src}")
    elif exc in c.may_raise_other:
        pass
    else:
        eng.oblige(s1, f"xpost/unexpected-{exc}", z3.BoolVal(False), f"{exc} is not in the contract")
    if c.atomic and not is_init:
        if selfv is not None:
            frame_fields(eng, c, cd, s1, pre, selfv, f"xpost/{exc}/atomic", all_fields=True)
        frame_ghosts(eng, c, s1, pre, f"xpost/{exc}/atomic", [])
    n2 = dict(names)
    n2["raised"] = vstr(exc)
    for i, src in enumerate(c.on_raise):
        eng.oblige(s1, f"xpost/{exc}/on_raise/{i + 1}", eng.spec_bool(src, s1, n2, pre), src)
    if selfv is not None and c.public and not is_init and not c.atomic:
        for i, (src, t) in enumerate(eng.class_inv(selfv, s1)):
            eng.oblige(s1, f"xpost/{exc}/inv/{i + 1}", t, src)
