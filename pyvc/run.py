"""Small development runner: python3-vt -m pyvc.run contracts.c19 [unit-substring]"""
import importlib
import sys
import time

from . import loader, prove


def main():
    modname = sys.argv[1]
    filt = sys.argv[2] if len(sys.argv) > 2 else ""
    cm = importlib.import_module(modname)
    reg = cm.build()
    files = sorted({f for (f, _) in reg.contracts if f != "<extern>"})
    modules = loader.load(files)
    tot = bad = 0
    for (file, qual), c in reg.contracts.items():
        if c.extern or c.inline or file == "<extern>" or filt not in qual:
            continue
        cd = reg.classes.get(qual.split(".")[0]) if "." in qual else None
        for variant in prove.variant_space(c, cd, "." in qual, c.is_init):
            t0 = time.time()
            r = prove.prove_variant(reg, modules, file, qual, variant, extra_setup=getattr(cm, 'engine_setup', None))
            n = len(r.obligations)
            nd = sum(1 for o in r.obligations if o["status"] == "discharged")
            tot += n
            flag = "" if (r.status == "ok" and n == nd) else "  <<<<<<"
            print(f"{qual}[{r.variant}] {r.status} {nd}/{n} paths={r.paths} {r.time:.2f}s {r.detail if r.status!='ok' else ''}{flag}")
            for o in r.obligations:
                if o["status"] != "discharged" and not o["name"].endswith("/mustfail"):
                    bad += 1
                    print("    ", o["status"], o["name"], "|", o["where"], "|", o.get("model"), o.get("reason", ""))
    print("total obligations", tot, "not discharged", bad)


main()
