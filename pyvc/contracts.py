"""Sidecar contract data.  Nothing under /repo is annotated: contracts are keyed by
(source file, qualified name, loop ordinal) and evaluated by the engine against
the function text read from the working tree on every run."""
from __future__ import annotations

from dataclasses import dataclass, field
from typing import Any


@dataclass
class ClassDecl:
    name: str
    file: str
    fields: dict            # field -> type spec ("int", "real", "bool", "str", "any", "(int,int,int)", "a|b")
    inv: list               # invariant clauses (spec expressions over self)
    ghost_fields: dict = field(default_factory=dict)
    bases: list = field(default_factory=list)


@dataclass
class Contract:
    name: str                       # "Class.method" or "func"
    file: str
    params: dict = field(default_factory=dict)      # param -> type spec
    requires: list = field(default_factory=list)
    raises: dict = field(default_factory=dict)      # ExcName -> condition over the pre-state ("iff")
    on_raise: list = field(default_factory=list)    # extra clauses on exceptional exit
    atomic: bool = True                             # exceptional exit leaves state and ghosts unchanged
    ensures: list = field(default_factory=list)
    modifies: list = field(default_factory=list)    # "self.f", "ghost.g", "glob.g"
    returns: Any = "none"                           # kind spec of the result, or callable(kinds)->spec
    loops: dict = field(default_factory=dict)       # ordinal -> {inv:[..], variant: str|None, ghost:{..}}
    inline: bool = False
    extern: bool = False                            # no body is verified: an ASSUMED contract
    public: bool = True                             # class invariant is required/ensured
    ghost_update: dict = field(default_factory=dict)  # "self.g"/"ghost.g" -> spec expr (evaluated at normal exit)
    expect_min_obligations: int = 1
    is_init: bool = False
    witnesses: list = field(default_factory=list)   # concrete native inputs (vacuity / cross-check)
    note: str = ""
    may_raise_other: list = field(default_factory=list)  # exception classes allowed without an iff-condition
    lemmas: list = field(default_factory=list)
    feas_timeout_ms: int = 3000    # budget of a path-feasibility query (unknown = feasible, which is sound)
    assume_in_range: bool = False  # signed C arithmetic results are ASSUMED to fit their type (recorded as an assumption, not proved)
    probe: bool = False            # a unit that probes a known-finding region: its obligations are not counted as proof obligations


class Registry:
    def __init__(self):
        self.classes = {}
        self.contracts = {}
        self.ghosts = {}        # ghost name -> kind
        self.globs = {}         # modelled module globals: (file, name) -> spec
        self.consts = {}        # (file, name) -> python constant (module-level constants)

    def cls(self, name, file, fields, inv, **kw):
        self.classes[name] = ClassDecl(name, file, fields, inv, **kw)
        return self.classes[name]

    def unit(self, name, file, **kw):
        c = Contract(name, file, **kw)
        self.contracts[(file, name)] = c
        return c

    def ghost(self, name, kind):
        self.ghosts[name] = kind

    def lookup(self, file, name):
        return self.contracts.get((file, name))
