"""C09 - generated firmware is memory-safe and does not leak (list helper templates).

The templates of LIST_HELPER_SNIPPET (the emitter's own string constant), instantiated at int and translated by
cxx2py, are proved against an explicit heap model: `live` (block -> allocated), `blen` (block -> length),
`mem` ((block, index) -> value).  new[] returns a block that was not live; delete[] REQUIRES its argument to be null
or live (no double free); every load/store REQUIRES a live block and an index inside it (no out-of-bounds, no
use-after-free); a `const T &` parameter is passed as (block, index, value) so that a reference into a list cell
is dereferenced - with the same requirement - at the point where the C++ reads it."""
import hashlib

from pyvc.contracts import Registry
from pyvc import loader
from cxxvc import cxx2py, harvest as H

FW = "@gen/c09_fw.py"

PROPERTY = {
    "level": "other",
    "expect_min_obligations": 150,
    "explanation": "Template-level heap safety: __redu_list_get (both overloads), __redu_len, __redu_list_append, __redu_list_assign "
                   "and __redu_list_remove are proved memory-safe (every access inside a live block, no double delete) and to preserve "
                   "the well-formedness of the list (null <=> size 0, otherwise a live block of exactly `size` cells) with the exact "
                   "heap delta (old block freed, new block owned - nothing else allocated or freed: no leak inside the template), "
                   "including append of a reference into the list's own buffer. The statement-level invariant (distinct variables own "
                   "distinct blocks; every live block owned) is NOT preserved by the code the transpiler emits around the templates - "
                   "see known findings (struct copy on `b = a`, re-assignment and loop-local lists leak).",
    "trusted_base": ["pyvc", "cxx2py translation (pointers as block ids, new[]/delete[]/subscripts as heap primitives)", "z3"],
    "assumptions": [
        "heap model: blocks are disjoint; new[] never returns a live block; contents of a fresh block are unspecified",
        "instantiation at int (float/String instantiations have the same text; String cells additionally own their characters, not modelled)",
        "__redu_make_list (variadic pack) and __redu_list_from_range (callable parameter) are not translated",
        "list sizes below 32767 (index conversions exact)",
    ],
}


def engine_setup(eng):
    import z3
    from pyvc.sym import V, vbool, vint, as_int_term
    from pyvc.specfuncs import install_map_funcs, _cell
    from pyvc.state import Map
    from pyvc.pyval import PyKey
    install_map_funcs(eng)
    K = 65536

    def key(b, i):
        return PyKey.IntKey(as_int_term(b) * K + as_int_term(i))

    def sel(e, st, m, b):
        c = _cell(st, m)
        return V(c.vk, z3.Select(c.arr, PyKey.IntKey(as_int_term(b))))

    def selc(e, st, m, b, i):
        c = _cell(st, m)
        return V(c.vk, z3.Select(c.arr, key(b, i)))

    def upd(e, st, m, b, v):
        c = _cell(st, m)
        val = as_int_term(v) if c.vk == "int" else v.t
        return V("cell", Map(z3.Store(c.arr, PyKey.IntKey(as_int_term(b)), val), c.dom, c.vk))

    def updc(e, st, m, b, i, v):
        c = _cell(st, m)
        return V("cell", Map(z3.Store(c.arr, key(b, i), as_int_term(v)), c.dom, c.vk))

    def arr_eq(e, st, a, b):
        return vbool(_cell(st, a).arr == _cell(st, b).arr)

    def same_outside(e, st, new, old, blk):
        """every cell of every block other than blk is unchanged"""
        cn, co = _cell(st, new), _cell(st, old)
        q = z3.Int("q!so")
        return vbool(z3.ForAll([q], z3.Implies(q / K != as_int_term(blk),
                                               z3.Select(cn.arr, PyKey.IntKey(q)) == z3.Select(co.arr, PyKey.IntKey(q)))))

    def ite_map(e, st, cond, a, b):
        ca, cb = _cell(st, a), _cell(st, b)
        ct = cond.t if cond.k == "bool" else list(e.truth(cond, st))[0][1]
        return V("cell", Map(z3.If(ct, ca.arr, cb.arr), ca.dom, ca.vk))

    def same_obj(e, st, a, b):
        return vbool(a.t == b.t if a.k == b.k == "ref" else False)

    eng.spec_funcs.update(ite_map=ite_map, same_obj=same_obj)
    eng.spec_funcs.update(sel=sel, selc=selc, upd=upd, updc=updc, arr_eq=arr_eq, same_outside=same_outside)


_B = {}


def device_text():
    from contracts.c08 import real
    E = real("Reduino.transpile.emitter")
    return """
#include <Arduino.h>
%s
void __drv(__redu_list<int> &l, const __redu_list<int> &s, int v, int i) {
  __redu_list_get(l, i); __redu_list_get(s, i); __redu_list_append(l, v); __redu_list_remove(l, v); __redu_list_assign(l, s); __redu_len(l);
}
""" % E.LIST_HELPER_SNIPPET


def build():
    reg = Registry()
    for g, k in (("live", "map:bool"), ("blen", "map:int"), ("mem", "map:int")):
        reg.ghost(g, k)
    text = device_text()
    key = "c09-" + hashlib.sha256((text + open(cxx2py.__file__).read()).encode()).hexdigest()[:20]
    hit = H._cache_get(key)
    if hit is None:
        tu, _ = cxx2py.run_clang(text)
        T = cxx2py.Translator(tu)
        hit = {f: T.function(f) for f in T.functions if f != "__drv"}
        H._cache_put(key, hit)
    loader.GENERATED[FW] = "\n\n".join(hit.values()) + "\n"
    _B["sha"] = hashlib.sha256(text.encode()).hexdigest()
    _B["functions"] = sorted(hit)
    reg.cls("__redu_list", FW, fields={"data": "int", "size": "int"}, inv=[])
    # ---- heap primitives (the memory model; ASSUMED)
    VALID = lambda p, i: f"{p} > 0 and sel(live, {p}) and 0 <= {i} and {i} < sel(blen, {p})"
    reg.unit("c_new", FW, extern=True, public=False, params={"n": "int"}, requires=["n >= 0"], returns="int",
             modifies=["ghost.live", "ghost.blen"],
             ensures=["result > 0", "result < 30000", "not sel(old(live), result)", "arr_eq(live, upd(old(live), result, True))",
                      "arr_eq(blen, upd(old(blen), result, n))"], note="new T[n]: a block that was not live")
    reg.unit("c_delete", FW, extern=True, public=False, params={"p": "int"}, requires=["p == 0 or (p > 0 and sel(live, p))"],
             modifies=["ghost.live"], ensures=["arr_eq(live, ite_map(p == 0, old(live), upd(old(live), p, False)))"],
             note="delete[] p: p is null or a live block (no double free)")
    reg.unit("c_load", FW, extern=True, public=False, params={"p": "int", "i": "int"}, requires=[VALID("p", "i")], returns="int",
             ensures=["result == selc(mem, p, i)"], note="p[i]: inside a live block")
    reg.unit("c_store", FW, extern=True, public=False, params={"p": "int", "i": "int", "v": "int"}, requires=[VALID("p", "i")],
             modifies=["ghost.mem"], ensures=["arr_eq(mem, updc(old(mem), p, i, v))"], note="p[i] = v: inside a live block")
    reg.unit("c_deref", FW, extern=True, public=False, params={"b": "int", "i": "int", "v": "int"},
             requires=[f"b == 0 or ({VALID('b', 'i')})"], returns="int", ensures=["result == ite(b == 0, v, selc(mem, b, i))"],
             note="read through a const T& parameter: a plain value (block 0) or a cell of a live block")
    WF = lambda l: (f"0 <= {l}.size and {l}.size <= 32000 and 0 <= {l}.data and {l}.data < 30000 and ({l}.data == 0) == ({l}.size == 0) and "
                    f"implies({l}.data != 0, sel(live, {l}.data) and sel(blen, {l}.data) == {l}.size)")
    L = "obj:__redu_list"
    for nm in ("__redu_list_get__int", "__redu_list_get__int_c"):
        reg.unit(nm, FW, params={"list": L, "index": "int"}, public=False, returns="int",
                 requires=[WF("list"), "-list.size <= index and index < list.size"],
                 ensures=["result == selc(mem, list.data, ite(index < 0, index + list.size, index))",
                          "list.data == old(list.data) and list.size == old(list.size)"])
    reg.unit("__redu_len__int", FW, params={"value": L}, public=False, returns="int", requires=[WF("value")], ensures=["result == value.size"])
    REF = "value__blk == 0 or (" + VALID("value__blk", "value__idx") + ")"
    VAL0 = "ite(value__blk == 0, value__val, selc(old(mem), value__blk, value__idx))"
    reg.unit("__redu_list_append__int", FW, params={"list": L, "value__blk": "int", "value__idx": "int", "value__val": "int"}, public=False,
             requires=[WF("list"), "list.size < 32000", REF, "0 <= value__idx < 65536", "0 <= value__blk < 30000"],
             modifies=["ghost.live", "ghost.blen", "ghost.mem"],
             loops={0: {"inv": ["0 <= i <= list.size", "list.size == old(list.size) and list.data == old(list.data)",
                                "next > 0 and next < 30000 and not sel(old(live), next)", "arr_eq(live, upd(old(live), next, True))",
                                "arr_eq(blen, upd(old(blen), next, old(list.size) + 1))", "same_outside(mem, old(mem), next)",
                                "forall(lambda j: implies(0 <= j and j < i, selc(mem, next, j) == selc(old(mem), old(list.data), j)))"]}},
             ensures=[WF("list"), "list.size == old(list.size) + 1",
                      "forall(lambda j: implies(0 <= j and j < old(list.size), selc(mem, list.data, j) == selc(old(mem), old(list.data), j)))",
                      f"selc(mem, list.data, old(list.size)) == {VAL0}",
                      # exact heap delta: the old block is freed, the new one is the only allocation
                      "arr_eq(live, upd(ite_map(old(list.data) == 0, old(live), upd(old(live), old(list.data), False)), list.data, True))",
                      "same_outside(mem, old(mem), list.data)"])
    FREED = "ite_map(old(list.data) == 0, old(live), upd(old(live), old(list.data), False))"
    reg.unit("__redu_list_remove__int", FW, params={"list": L, "value__blk": "int", "value__idx": "int", "value__val": "int"}, public=False,
             requires=[WF("list"), REF, "0 <= value__idx < 65536", "0 <= value__blk < 30000"],
             modifies=["ghost.live", "ghost.blen", "ghost.mem"],
             loops={0: {"inv": ["0 <= i <= list.size", "remove_index == list.size", "list.size == old(list.size) and list.data == old(list.data)",
                                "list.size > 0", "arr_eq(live, old(live)) and arr_eq(blen, old(blen)) and arr_eq(mem, old(mem))",
                                f"forall(lambda j: implies(0 <= j and j < i, selc(mem, list.data, j) != {VAL0}))"]},
                    1: {"inv": ["0 <= i__2 <= list.size", "0 <= remove_index and remove_index < list.size", "list.size > 1",
                                "list.size == old(list.size) and list.data == old(list.data)",
                                "dest == ite(i__2 <= remove_index, i__2, i__2 - 1)",
                                "next > 0 and next < 30000 and not sel(old(live), next)", "arr_eq(live, upd(old(live), next, True))",
                                "arr_eq(blen, upd(old(blen), next, old(list.size) - 1))", "same_outside(mem, old(mem), next)",
                                f"selc(old(mem), old(list.data), remove_index) == {VAL0}",
                                f"forall(lambda j: implies(0 <= j and j < remove_index, selc(old(mem), old(list.data), j) != {VAL0}))",
                                "forall(lambda j: implies(0 <= j and j < dest, selc(mem, next, j) == "
                                "selc(old(mem), old(list.data), ite(j < remove_index, j, j + 1))))"]}},
             ensures=[WF("list"), "list.size == old(list.size) or list.size == old(list.size) - 1",
                      # no match: nothing changes at all
                      f"implies(list.size == old(list.size), list.data == old(list.data) and arr_eq(live, old(live)) and arr_eq(mem, old(mem)) and "
                      f"forall(lambda j: implies(0 <= j and j < old(list.size), selc(old(mem), old(list.data), j) != {VAL0})))",
                      # a match: exact heap delta, remaining elements in order
                      f"implies(list.size == old(list.size) - 1, arr_eq(live, ite_map(list.data == 0, {FREED}, upd({FREED}, list.data, True))))",
                      "same_outside(mem, old(mem), list.data) or list.data == 0"],
             note="first match removed (or no-op); the last element leaves {null, 0}; old block freed, at most one block allocated")
    reg.unit("__redu_list_assign__int", FW, params={"dest": L, "source": L}, public=False,
             requires=[WF("dest"), WF("source"), "same_obj(dest, source) or dest.data == 0 or dest.data != source.data"],
             modifies=["ghost.live", "ghost.blen", "ghost.mem"],
             loops={0: {"inv": ["0 <= i <= dest.size", "dest.size == source.size", "source.size == old(source.size) and source.data == old(source.data)",
                                "(dest.data == 0) == (dest.size == 0)",
                                "implies(dest.data != 0, dest.data < 30000 and sel(live, dest.data) and sel(blen, dest.data) == dest.size and "
                                "not sel(ite_map(old(dest.data) == 0, old(live), upd(old(live), old(dest.data), False)), dest.data) and dest.data != source.data)",
                                "arr_eq(live, ite_map(dest.data == 0, ite_map(old(dest.data) == 0, old(live), upd(old(live), old(dest.data), False)), "
                                "upd(ite_map(old(dest.data) == 0, old(live), upd(old(live), old(dest.data), False)), dest.data, True)))",
                                "implies(source.data != 0, sel(live, source.data) and sel(blen, source.data) == source.size)",
                                "same_outside(mem, old(mem), dest.data)",
                                "forall(lambda j: implies(0 <= j and j < i, selc(mem, dest.data, j) == selc(old(mem), source.data, j)))"]}},
             ensures=["implies(not same_obj(dest, source), dest.size == source.size and " + WF("dest") + " and " + WF("source") + ")",
                      "implies(not same_obj(dest, source), forall(lambda j: implies(0 <= j and j < source.size, "
                      "selc(mem, dest.data, j) == selc(old(mem), source.data, j))))",
                      "source.size == old(source.size) and source.data == old(source.data)",
                      "implies(not same_obj(dest, source) and dest.data != 0, dest.data != source.data)"],
             note="dest gets a fresh copy, its old block is freed, source untouched; precondition: dest is source or they do not share a block")
    return reg


def extra_obligations(mods, tier, seed):
    """statement forms around the templates (finite back end on the real transpiler): ownership invariant Inv =
    'distinct list variables own distinct blocks and every live block is owned by exactly one variable'"""
    import re
    import time
    from contracts.c08 import real
    P, E = real("Reduino.transpile.parser"), real("Reduino.transpile.emitter")
    out = []
    t0 = time.time()

    def cpp_of(src):
        return E.emit(P.parse(src))
    # (1) b = a : must deep-copy (assign template / copy of the cells), not copy the struct
    src1 = "a = [1, 2, 3]\nb = a\nb.append(4)\nwhile True:\n    a.append(1)\n    a.remove(1)\n"
    cpp1 = cpp_of(src1)
    shallow = bool(re.search(r"__redu_list<int>\s+b\s*=\s*a\s*;", cpp1)) or bool(re.search(r"^\s*b\s*=\s*a\s*;", cpp1, re.M))
    uses_assign = "__redu_list_assign(b, a)" in cpp1
    out.append({"name": "C09/forms/copy-keeps-owners-distinct", "status": "discharged" if (uses_assign and not shallow) else "sat",
                "backend": "enum", "where": "`b = a` on lists gives b its own block (assign template), not a copy of the struct {data, size}",
                "time": round(time.time() - t0, 3), "replay": {"script": src1, "emitted": [l for l in cpp1.splitlines() if re.search(r"\bb\b", l)][:6]},
                "replay_confirmed": True})
    # (2) a list declared inside the main loop must be released at the end of each pass
    src2 = "n = 0\nwhile True:\n    ws = [n, n + 1]\n    n = n + len(ws)\n"
    cpp2 = cpp_of(src2)
    loop = cpp2[cpp2.index("void loop()"):]
    allocs = len(re.findall(r"__redu_make_list<", loop))
    frees = len(re.findall(r"delete\[\]|__redu_list_free|__redu_list_clear", loop))
    out.append({"name": "C09/forms/loop-local-list-released-each-pass", "status": "discharged" if (allocs == 0 or frees >= allocs) else "sat",
                "backend": "enum", "where": "a list created in the main loop body is freed before the pass ends (constant heap across passes)",
                "time": 0.0, "replay": {"script": src2, "loop": loop[:500], "allocations": allocs, "releases": frees}, "replay_confirmed": True})
    # (3) re-assignment from a literal must free or reuse the previous block
    src3 = "xs = [1, 2]\nwhile True:\n    xs = [3, 4]\n"
    cpp3 = cpp_of(src3)
    loop3 = cpp3[cpp3.index("void loop()"):]
    tmp_leak = bool(re.search(r"__redu_list_assign\(xs,\s*__redu_make_list<", loop3))
    out.append({"name": "C09/forms/reassignment-does-not-leak-the-temporary", "status": "discharged" if not tmp_leak else "sat",
                "backend": "enum", "where": "`xs = [..]` on an existing list does not allocate a temporary that is never freed", "time": 0.0,
                "replay": {"script": src3, "loop": loop3[:400]}, "replay_confirmed": True})
    out += exec_obligations()
    return out


# list programs executed on the firmware mock under AddressSanitizer/UBSan (BOUNDED): no out-of-bounds access, use after free or
# double free in setup() + 5 loop() passes, and the printed values are CPython's.  Leak detection is off: the leak findings of the
# pinned tree are recorded above (forms), and the sketch's globals are never released by design.
EXEC_SCRIPTS = {
    "negative-index-after-untaken-append": "xs = [1, 2, 3]\nc = 0\nif c > 0:\n    xs.append(4)\nwhile True:\n    mon.write(xs[-1])\n    mon.write(xs[-3])\n    sleep(1)\n",
    "negative-index-after-both-branches-append": "xs = [1, 2]\nc = 1\nif c > 0:\n    xs.append(3)\nelse:\n    xs.append(4)\nwhile True:\n    mon.write(xs[-1])\n    mon.write(xs[-2])\n    sleep(1)\n",
    "negative-index-after-loop-append": "xs = [5]\nfor i in range(3):\n    xs.append(i)\nwhile True:\n    mon.write(xs[-1])\n    mon.write(xs[-4])\n    sleep(1)\n",
    "negative-index-after-append-in-uncalled-function": "xs = [7, 8]\ndef grow():\n    xs.append(9)\nwhile True:\n    mon.write(xs[-1])\n    mon.write(xs[-2])\n    sleep(1)\n",
    "negative-index-straight-line": "xs = [1, 2, 3]\nxs.append(4)\nxs.remove(1)\nmon.write(xs[-1])\nmon.write(xs[-3])\nmon.write(xs[0])\n",
    "index-with-runtime-value": "xs = [10, 20, 30]\nk = 0\nwhile True:\n    mon.write(xs[k % 3])\n    mon.write(xs[-(k % 3) - 1])\n    k = k + 1\n    sleep(1)\n",
    "append-remove-each-pass": "xs = [1, 2, 3]\nn = 10\nwhile True:\n    xs.append(n)\n    xs.remove(xs[0])\n    mon.write(xs[0])\n    mon.write(xs[2])\n    n = n + 1\n    sleep(1)\n",
    "reassign-from-other-list-same-size-then-mutate": "a = [1, 2]\nb = [3, 4]\nb = a\nb.append(5)\nmon.write(a[0])\nmon.write(a[1])\nmon.write(b[2])\nwhile True:\n    a.append(9)\n    a.remove(9)\n    mon.write(b[0])\n    sleep(1)\n",
    "reassign-from-other-list-then-mutate-source": "a = [1, 2, 3]\nb = [0, 0, 0]\nb = a\na.append(4)\na.remove(1)\nmon.write(b[0])\nmon.write(b[2])\nmon.write(a[0])\n",
    "reassign-in-loop-from-other-list": "a = [1, 2]\nb = [5, 6]\nk = 0\nwhile True:\n    b = a\n    b.append(k)\n    b.remove(k)\n    mon.write(b[0] + a[1])\n    k = k + 1\n    sleep(1)\n",
    "swap-two-lists": "a = [1, 2, 3]\nb = [7, 8, 9]\nwhile True:\n    a, b = b, a\n    mon.write(a[0])\n    mon.write(b[2])\n    a.append(4)\n    a.remove(4)\n    sleep(1)\n",
    "rotate-three-lists": "r = [1]\ng = [2, 2]\nb = [3, 3, 3]\nwhile True:\n    r, g, b = g, b, r\n    mon.write(r[0])\n    mon.write(g[0])\n    mon.write(b[0])\n    sleep(1)\n",
    "conditional-double-buffer-swap": "front = [0, 0]\nback = [5, 5]\nk = 0\nwhile True:\n    if k % 2 == 0:\n        front, back = back, front\n    front.append(k)\n    front.remove(k)\n    mon.write(front[0] + back[1])\n    k = k + 1\n    sleep(1)\n",
    "comprehension-over-range-runtime-bounds": "n = 5\nwhile True:\n    sq = [i * 2 for i in range(n)]\n    mon.write(sq[-1])\n    mon.write(sq[0])\n    sleep(1)\n",
    "comprehension-descending-range-uneven": "while True:\n    d = [i for i in range(7, 0, -3)]\n    mon.write(len(d))\n    mon.write(d[0])\n    mon.write(d[-1])\n    e = [i * 2 for i in range(10, 1, -4)]\n    mon.write(e[-1])\n    sleep(1)\n",
    "comprehension-range-runtime-start-stop-step": "a = 9\nb = 0\ns = -2\nwhile True:\n    d = [i + 1 for i in range(a, b, s)]\n    mon.write(d[0])\n    mon.write(d[-1])\n    a = a + 1\n    s = s - 1\n    sleep(1)\n",
    "comprehension-ascending-steps": "lo = 1\nwhile True:\n    u = [i for i in range(lo, 12, 5)]\n    mon.write(u[0])\n    mon.write(u[-1])\n    v = [i for i in range(2, 9)]\n    mon.write(v[-1])\n    lo = lo + 1\n    sleep(1)\n",
    "comprehension-empty-ranges": "while True:\n    e1 = [i for i in range(0)]\n    e2 = [i for i in range(5, 5)]\n    e3 = [i for i in range(3, 9, -1)]\n    e4 = [i for i in range(9, 3, 2)]\n    mon.write(len(e1) + len(e2) + len(e3) + len(e4))\n    sleep(1)\n",
    "branch-bound-list-alias": "day = [1, 2, 3]\nnight = [4, 5, 6]\nk = 0\nwhile True:\n    if k % 2 == 0:\n        levels = day\n    else:\n        levels = night\n    mon.write(levels[0])\n    k = k + 1\n    sleep(1)\n",
    "branch-bound-list-alias-three-arms": "a1 = [1]\na2 = [2, 2]\na3 = [3, 3, 3]\nk = 0\nwhile True:\n    if k % 3 == 0:\n        cur = a1\n    elif k % 3 == 1:\n        cur = a2\n    else:\n        cur = a3\n    mon.write(cur[0])\n    k = k + 1\n    sleep(1)\n",
    "branch-bound-list-alias-in-helper": "day = [1, 2]\nnight = [4, 5]\ndef pick(k):\n    if k % 2 == 0:\n        sel = day\n    else:\n        sel = night\n    return sel[0]\nk = 0\nwhile True:\n    v = pick(k)\n    mon.write(v)\n    k = k + 1\n    sleep(1)\n",
    "remove-falsy-values-then-last-element": "xs = [0, 1, 2, 0, 3]\nxs.remove(0)\nmon.write(xs[len(xs) - 1])\nmon.write(xs[0])\nys = [5, 0, 6]\nz = 0\nys.remove(z)\nmon.write(ys[len(ys) - 1])\nfor i in range(len(ys)):\n    mon.write(ys[i])\n",
    "remove-duplicates-removes-first-only": "xs = [1, 2, 1, 3, 1]\nxs.remove(1)\nmon.write(xs[0])\nmon.write(xs[1])\nmon.write(xs[3])\nwhile True:\n    xs.append(1)\n    xs.remove(1)\n    mon.write(xs[0] + xs[3])\n    sleep(1)\n",
    "parameter-shadows-global-list": "data = [1, 2, 3, 4]\ndef last(data):\n    return data[len(data) - 1]\nfew = [7, 8]\nwhile True:\n    v = last(few)\n    mon.write(v)\n    w = last(data)\n    mon.write(w)\n    sleep(1)\n",
    "rebind-list-in-branch-then-folded-len": "a = [1, 2, 3]\nc = 1\nif c > 0:\n    a = [4, 5]\nmon.write(a[len(a) - 1])\n",
    "rebind-list-after-use-in-main-loop": "a = [1, 2, 3]\nwhile True:\n    mon.write(a[len(a) - 1])\n    a = [9, 8]\n    sleep(1)\n",
    "reassign-string-list-from-other-list-then-mutate": "names = ['a', 'b']\nshown = ['x', 'y']\nshown = names\nc = 'c'\nshown.append(c)\nmon.write(names[0])\nwhile True:\n    names.append(c)\n    names.remove(c)\n    shown.append('d')\n    shown.remove('d')\n    mon.write(shown[0])\n    mon.write(names[1])\n    sleep(1)\n",
    "reassign-string-list-each-pass": "names = ['a', 'b']\nshown = ['x', 'y']\nwhile True:\n    shown = names\n    mon.write(shown[1])\n    names.append('q')\n    names.remove('q')\n    sleep(1)\n",
    "reassign-float-list-from-other-list": "ws = [0.5, 1.5]\nvs = [9.5, 8.5]\nvs = ws\nvs.append(2.5)\nwhile True:\n    ws.append(3.5)\n    ws.remove(3.5)\n    mon.write(vs[0])\n    sleep(1)\n",
    "reassign-from-call-returning-global-list": "a = [1, 2, 3]\nb = [0]\ndef current():\n    return a\nb = current()\nb.append(4)\nmon.write(a[0])\nwhile True:\n    b.append(7)\n    b.remove(7)\n    mon.write(a[2])\n    a.append(5)\n    a.remove(5)\n    sleep(1)\n",
    "reassign-from-call-returning-parameter-list": "a = [1, 2, 3]\nb = [0]\ndef pick(xs):\n    return xs\nb = pick(a)\nb.remove(1)\nmon.write(a[0])\nwhile True:\n    b.append(7)\n    b.remove(7)\n    mon.write(a[1])\n    sleep(1)\n",
    "reassign-then-append-then-index-by-len-of-the-other-name": "a = [1, 2, 3]\nb = [0, 0, 0]\nb = a\nb.append(4)\nmon.write(a[len(a) - 1])\nmon.write(b[len(b) - 1])\nwhile True:\n    mon.write(a[len(a) - 1])\n    sleep(1)\n",
    "reassign-then-append-source-then-index-clone-by-len": "a = [1, 2, 3]\nb = [0, 0, 0]\nb = a\na.append(4)\nmon.write(b[len(b) - 1])\nmon.write(a[len(a) - 1])\n",
    "reassign-from-conditional-with-itself-as-an-arm": "night = [1, 2, 3]\nactive = [7, 8, 9]\nn = 0\nwhile True:\n    active = night if n % 3 == 0 else active\n    active.append(n)\n    active.remove(n)\n    mon.write(active[0])\n    n = n + 1\n    sleep(1)\n",
    "reassign-string-list-from-conditional-with-itself": "a = ['x', 'y']\nb = ['p', 'q']\nn = 0\nwhile True:\n    b = b if n % 2 == 0 else a\n    mon.write(b[1])\n    n = n + 1\n    sleep(1)\n",
    "modulo-index-with-negative-dividend": "ring = [10, 20, 30, 40]\nhead = 0\nwhile True:\n    mon.write(ring[(head - 1) % 4])\n    mon.write(ring[(head - 3) % len(ring)])\n    mon.write(ring[(0 - head) % 4])\n    head = (head + 1) % 4\n    sleep(1)\n",
    "reassign-free-append-of-a-wider-value-with-matching-remove": "hist = [1, 2, 3]\nk = 9\nwhile True:\n    hist.append(k / 4)\n    hist.remove(hist[0])\n    mon.write(len(hist))\n    k = k + 1\n    sleep(1)\n",
    "conditional-rebind-with-itself-as-an-arm-keeps-the-values": "night = [1, 2, 3]\nactive = [7, 8, 9]\nnames = ['a', 'b']\nshown = ['x', 'y']\nn = 0\nwhile True:\n    active = night if n % 3 == 0 else active\n    shown = shown if n % 2 == 0 else names\n    mon.write(active[0] + active[2])\n    mon.write(shown[1])\n    n = n + 1\n    sleep(1)\n",
    "len-of-a-short-list-in-signed-arithmetic": "def mk(v):\n    return [v]\nxs = mk(7)\nt = 0\nwhile True:\n    if len(xs) - 2 >= 0:\n        t = t + xs[-1] - xs[-2]\n    mon.write(1 if len(xs) - 2 >= 0 else 0)\n    mon.write(len(xs) - 3)\n    i = 0\n    while i < len(xs) - 1:\n        t = t + xs[i + 1]\n        i = i + 1\n    mon.write(t)\n    sleep(5)\n",
    "nested-continue-then-balancing-list-work": "xs = [1, 2, 3]\nn = 0\nwhile True:\n    xs.append(n)\n    for i in range(3):\n        if i == 1:\n            continue\n        mon.write(i)\n    k = 0\n    while k < 2:\n        k = k + 1\n        if k == 1:\n            continue\n        mon.write(k)\n    xs.remove(n)\n    mon.write(len(xs))\n    mon.write(xs[2])\n    n = n + 1\n    sleep(1)\n",
    "reassign-from-literal-and-comprehension-each-pass": "b = [0]\nwhile True:\n    b = [1, 2]\n    b.append(3)\n    mon.write(b[2])\n    sleep(1)\n",
    "comprehension-then-index": "while True:\n    sq = [i * i for i in range(5)]\n    mon.write(sq[4])\n    mon.write(sq[-1])\n    sleep(1)\n",
    "list-passed-through-helper-index": "xs = [4, 5, 6]\ndef at(k):\n    return xs[k]\nj = 0\nwhile True:\n    v = at(j % 3)\n    mon.write(v)\n    j = j + 1\n    sleep(1)\n",
    "remove-until-short": "xs = [1, 2, 3, 4, 5, 6, 7]\nwhile True:\n    xs.remove(xs[0])\n    mon.write(xs[0])\n    mon.write(xs[-1])\n    sleep(1)\n",
    "float-and-string-lists": "ws = [0.5, 1.5, 2.5]\nnames = ['a', 'bb', 'ccc']\nk = 0\nwhile True:\n    ws.append(ws[k % 3] * 2)\n    mon.write(ws[-1])\n    mon.write(names[k % 3])\n    mon.write(names[-1])\n    k = k + 1\n    sleep(1)\n",
}


def _exec_one(args):
    name, src = args
    import os
    from progs.diff import host_events, transpile, observable, compare, _strip_empty_passes
    from fwsim.run import run_sketch
    passes = 5
    host = host_events(src, passes)
    if host["status"].startswith(("crash", "timeout")):
        return name, "harness-" + host["status"].split(":")[0], host["status"], src
    if host["status"] != "ok":
        return name, "python-undefined", host["status"], src
    cpp, err = transpile(src)
    if cpp is None:
        return name, "rejected", err, src
    r = run_sketch(cpp, passes=passes, sanitize=True, env={"ASAN_OPTIONS": "detect_leaks=0:abort_on_error=0", "UBSAN_OPTIONS": "halt_on_error=1"})
    if not r.get("compiled"):
        return name, "does-not-compile", r.get("errors", "")[-300:], src
    err = r.get("stderr", "")
    if r.get("timeout") or r.get("rc", 0) != 0 or "AddressSanitizer" in err or "runtime error" in err:
        first = next((l for l in err.splitlines() if "ERROR: AddressSanitizer" in l or "runtime error" in l), err[-200:])
        return name, "memory-error", first[:300], src
    # constant live data in Python => constant number of live heap blocks per pass on the device (the per-pass leak of lists created
    # inside the main loop is a recorded finding: comprehension-* scripts are exempt)
    hs = [int(e[2:]) for e in r["events"] if e.startswith("H:")]
    if not name.startswith("comprehension-") and len(set(hs[1:])) > 1:
        return name, "leaks", f"live heap blocks after each loop() pass: {hs}", src
    # `b = a` aliases in Python and copies on the device (value semantics): where a script observes that, only memory safety is judged here
    if not name.startswith("reassign-"):
        d = compare(_strip_empty_passes(observable(host["events"])), _strip_empty_passes(observable(r["events"])))
        if d is not None:
            return name, "differs", d, src
    return name, "ok", None, src


def exec_obligations():
    import multiprocessing as mp
    import time
    from progs.corpus import HEAD
    t0 = time.time()
    with mp.Pool(14) as pool:
        res = pool.map(_exec_one, [(n, HEAD + s) for n, s in sorted(EXEC_SCRIPTS.items())], chunksize=1)
    per = round((time.time() - t0) / max(1, len(res)), 3)
    out = []
    for name, verdict, detail, src in res:
        ok = verdict in ("ok", "rejected", "python-undefined")
        status = "discharged" if ok else ("unknown" if verdict.startswith("harness") else "sat")
        out.append({"name": f"C09/exec/{name}", "status": status, "backend": "asan+fwsim", "bounded": True,
                    "where": f"list program '{name}': no memory error under ASan/UBSan in setup() + 5 passes, constant live heap blocks per pass, printed values are CPython's [{verdict}]",
                    "time": per, "replay": {"script": src, "verdict": verdict, "detail": detail}, "replay_confirmed": status == "sat"})
    PROPERTY["bounded"] = [{"check": "executed list programs under ASan/UBSan", "bound": f"{len(EXEC_SCRIPTS)} scripts x setup() + 5 passes; leak detection off"}]
    return out


def extra_evidence():
    return {"device_snippet_sha256": _B.get("sha"), "device_functions": _B.get("functions"), "bounded": PROPERTY.get("bounded", [])}
