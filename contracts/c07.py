"""C07 - every line is accounted for and stays in the block Python assigns it to."""
import itertools
import re
import time

from pyvc.contracts import Registry

PARSER = "Reduino/transpile/parser.py"

PROPERTY = {
    "level": "other",
    "expect_min_obligations": 60,
    "explanation": "Proved (pyvc on the real text): _indent_of computes the recursive indentation measure (blank = 1, tab = 4, stop at "
                   "the first other character); _collect_block returns exactly Python's block - the lines after the header up to the "
                   "first LOGICAL line (neither blank nor comment-only) indented no more than the header - for line lists of any "
                   "length. Finite back end on the real parser: every block-header kind at top level and nested, with and without a "
                   "trailing comment and extra spacing, gives the same IR as its canonical form; the fall-through of the statement "
                   "dispatcher is probed with one representative of every statement kind that is not in the allow-list (a statement "
                   "must be translated or rejected). Bounded: _strip_inline_comment against Python's own tokenizer on all strings "
                   "up to a stated length over a quote/escape/hash alphabet; re-layout differential over a corpus. Whole-language "
                   "'no statement ever vanishes' is refutable here, not provable.",
    "trusted_base": ["pyvc", "CPython tokenize as the definition of where a comment starts", "the real parser run under python3-vt"],
    "assumptions": [
        "str.strip() is a function symbol (blank(line) := strip(line) == '', comment_only(line) := strip(line) starts with '#')",
        "consistent indentation (the order of indents, not their absolute width, decides block membership: _indent_of is monotone in "
        "the number of leading blanks/tabs by its recursive definition)",
        "the silent-drop probes are representatives of statement kinds, not all statements",
    ],
    "bounded": [],
}


def engine_setup(eng):
    import z3
    from pyvc.sym import V, vint, vbool, as_int_term
    from pyvc.engine import py_strip
    S = z3.StringSort()
    if "ind" not in _REC:
        f = z3.RecFunction("indent_rec", S, z3.IntSort(), z3.IntSort())
        s, k = z3.Const("s", S), z3.Int("k")
        ch = z3.SubString(s, k, 1)
        z3.RecAddDefinition(f, [s, k], z3.If(z3.Or(k < 0, k >= z3.Length(s)), 0,
                                             z3.If(ch == z3.StringVal(" "), 1 + f(s, k + 1),
                                                   z3.If(ch == z3.StringVal("\t"), 4 + f(s, k + 1), 0))))
        _REC["ind"] = f

    def indent_rec(e, st, s, k):
        return vint(_REC["ind"](s.t, as_int_term(k)))

    def blank(e, st, s):
        return vbool(py_strip(None, s.t) == z3.StringVal(""))

    def comment_only(e, st, s):
        return vbool(z3.PrefixOf(z3.StringVal("#"), py_strip(None, s.t)))

    eng.spec_funcs.update(indent_rec=indent_rec, blank=blank, comment_only=comment_only)


_REC = {}


def build():
    reg = Registry()
    reg.unit("_indent_of", PARSER, params={"line": "str"}, returns="int",
             loops={0: {"index_name": "pos", "inv": ["i >= 0", "i + indent_rec(line, pos) == indent_rec(line, 0)"]}},
             ensures=["result == indent_rec(line, 0)", "result >= 0"])
    SKIP = lambda j: f"(blank(lines[{j}]) or comment_only(lines[{j}]) or indent_rec(lines[{j}], 0) > indent_rec(lines[start], 0))"
    reg.unit("_collect_block", PARSER, params={"lines": "alist[str]", "start": "int"}, returns="(list[str],int)",
             requires=["0 <= start < len(lines)"],
             loops={0: {"list_kinds": {"block": "alist:str"},
                        "inv": ["start < i <= len(lines)", "len(block) == i - start - 1", "base == indent_rec(lines[start], 0)",
                                "forall(lambda j: implies(0 <= j and j < len(block), block[j] == lines[start + 1 + j]))",
                                f"forall(lambda j: implies(start < j and j < i, {SKIP('j')}))"]}},
             ensures=["start < result[1] <= len(lines)", "len(result[0]) == result[1] - start - 1",
                      "forall(lambda j: implies(0 <= j and j < len(result[0]), result[0][j] == lines[start + 1 + j]))",
                      # Python's block rule: everything up to the first logical line that is not indented deeper than the header
                      f"forall(lambda j: implies(start < j and j < result[1], {SKIP('j')}))",
                      f"result[1] == len(lines) or not {SKIP('result[1]')}"],
             note="block extent = Python's: blank and comment-only lines never end a block")
    return reg


# ---------------------------------------------------------------------------- finite back end / bounded stand-ins
BASE_SCRIPTS = {
    "main-loop": "from Reduino.Actuators import Led\nled = Led(13)\nx = 0\nwhile True:\n    led.toggle()\n    x = x + 1\n",
    "while-cond": "x = 0\nwhile x < 3:\n    x = x + 1\ny = x\n",
    "for-range": "t = 0\nfor i in range(4):\n    t = t + i\nz = t\n",
    "if-elif-else": "x = 5\nif x > 3:\n    y = 1\nelif x > 1:\n    y = 2\nelse:\n    y = 3\nz = y\n",
    "try-except": "x = 1\ntry:\n    y = x + 1\nexcept Exception:\n    y = 0\nz = y\n",
    "def": "def f(a, b):\n    if a > b:\n        return a\n    return b\nr = f(1, 2)\n",
    "else-starting-with-if": ("from Reduino.Actuators import Led\nled = Led(13)\na = 1\nb = 2\nif a > 5:\n    led.on()\nelse:\n    if b > 1:\n        led.off()\n    else:\n        led.toggle()\n"
                              "    led.set_brightness(7)\n    a = a + 3\n    for i in range(2):\n        led.toggle()\nz = a\n"),
    "nested": ("from Reduino.Actuators import Led\nled = Led(13)\nn = 0\nwhile True:\n    for i in range(3):\n        if i > 1:\n"
               "            led.on()\n        else:\n            led.off()\n    n = n + 1\n    while n > 5:\n        n = n - 1\n"),
}


def relayouts(src, rnd):
    """meaning-preserving re-layouts of a script (each keeps Python's AST)"""
    lines = src.rstrip("\n").split("\n")
    out = {}
    out["trailing-comment-on-every-line"] = "\n".join(l + "  # note" if l.strip() else l for l in lines) + "\n"
    out["trailing-comment-on-headers"] = "\n".join(l + "  # hdr" if l.rstrip().endswith(":") else l for l in lines) + "\n"
    out["trailing-whitespace"] = "\n".join(l + "   " for l in lines) + "\n"
    out["trailing-tab"] = "\n".join(l + "\t" if l.strip() else l for l in lines) + "\n"
    out["tab-before-trailing-comment"] = "\n".join(l + "\t# note" if l.strip() else l for l in lines) + "\n"
    out["tab-before-trailing-comment-on-headers"] = "\n".join(l + "\t\t# hdr" if l.rstrip().endswith(":") else l for l in lines) + "\n"
    for col, tag in ((0, "col0"), (2, "col2"), (12, "col12")):
        acc = []
        for l in lines:
            acc.append(l)
            if l.strip():
                acc.append(" " * col + "# comment line")
        out[f"comment-lines-{tag}"] = "\n".join(acc) + "\n"
    out["blank-lines"] = "\n\n".join(lines) + "\n"
    out["whitespace-only-lines"] = "\n   \n".join(lines) + "\n"
    for unit, tag in (("  ", "2"), (" ", "1"), ("        ", "8"), ("\t", "tab"), ("   ", "3")):
        acc = []
        for l in lines:
            n = (len(l) - len(l.lstrip(" "))) // 4
            acc.append(unit * n + l.lstrip(" "))
        out[f"indent-unit-{tag}"] = "\n".join(acc) + "\n"
    # keywords written tight against a parenthesised operand: `if(x > 3):`, `while(n < 5):`, `return(a)` (same AST)
    import re as _re
    acc = []
    for l in lines:
        m = _re.match(r"^(\s*)(if|elif|while) (.+):$", l)
        r = _re.match(r"^(\s*)return (.+)$", l)
        if m and m.group(3) != "True":
            acc.append(f"{m.group(1)}{m.group(2)}({m.group(3)}):")
        elif r:
            acc.append(f"{r.group(1)}return({r.group(2)})")
        else:
            acc.append(l)
    out["keyword-tight-against-parenthesis"] = "\n".join(acc) + "\n"
    out["spaces-before-colon"] = "\n".join((l.rstrip()[:-1] + " :") if l.rstrip().endswith(":") else l for l in lines) + "\n"
    return out


# statements outside the allow-list: each must be translated (something about it reaches the IR) or rejected with an error
DROP_PROBES = {
    "continue": ("x = 0\nfor i in range(3):\n    if i == 1:\n        continue\n    x = x + 1\n", "continue"),
    "subscript-assignment": ("vals = [1, 2, 3]\nvals[0] = 5\ny = vals[0]\n", "5"),
    "while-with-pass-body": ("from Reduino.Sensors import Potentiometer\npot = Potentiometer('A0')\nwhile pot.read() < 512:\n    pass\n", "while ("),
    "for-with-pass-body": ("for i in range(3):\n    pass\n", "for ("),
    "while-with-comment-only-body": ("from Reduino.Sensors import Button\nb = Button(4)\nwhile not b.is_pressed():\n    # wait\n    pass\n", "while ("),
    "if-with-pass-body-keeps-else": ("x = 1\nif x > 5:\n    pass\nelse:\n    x = 7\n", "else"),
    "assignment-to-name-starting-with-from": ("from_level = 3\ny = from_level + 1\n", "from_level"),
    "call-of-helper-starting-with-import": ("def important_blink():\n    return 1\nimportant_blink()\nz = 2\n", "important_blink()"),
    "augmented-assignment-to-name-starting-with-import": ("imported = 1\nimported += 2\n", "imported + 2"),
    "inner-else-of-if-nested-in-else-less-if": ("c = 1\nif c > 0:\n    fresh = 2\n    if c > 5:\n        w = 1\n    else:\n        w = 77\n", "77"),
    "del": ("x = 1\ndel x\n", "x"),
    "unknown-method-on-device": ("from Reduino.Actuators import Led\nled = Led(13)\nled.explode(3)\n", "explode"),
    "augmented-attribute": ("from Reduino.Actuators import Led\nled = Led(13)\nled.brightness += 1\n", "brightness"),
    "one-line-if": ("x = 1\nif x > 0: x = 2\ny = x\n", "2"),
    "with": ("x = 1\nwith open('f') as fh:\n    x = 2\n", "2"),
    "for-over-list": ("t = 0\nfor v in [1, 2, 3]:\n    t = t + v\n", "t + v"),
    "assert": ("x = 1\nassert x > 0\n", "assert"),
    "while-else": ("x = 0\nwhile x < 2:\n    x = x + 1\nelse:\n    x = 9\n", "9"),
    "call-of-unknown-function": ("x = frobnicate(3)\n", "frobnicate"),
    "attribute-call-on-non-device": ("s = 'a'\ns.upper()\n", "upper"),
    "annotated-assignment": ("x: int = 4\ny = x\n", "4"),
    "return-at-top-level": ("x = 1\nreturn x\n", "return"),
    "break-in-plain-loop": ("x = 0\nwhile x < 9:\n    x = x + 1\n    if x > 3:\n        break\n", "break"),
    "pass": ("x = 1\nif x > 0:\n    pass\n", None),
    "statements-after-an-if-that-starts-an-else-block": ("from Reduino.Actuators import Led\nled = Led(13)\na = 1\nif a > 5:\n    led.on()\nelse:\n    if a > 0:\n        led.off()\n    led.set_brightness(77)\n", "77"),
    "statements-after-an-if-that-starts-an-elif-block": ("from Reduino.Actuators import Led\nled = Led(13)\na = 1\nif a > 5:\n    led.on()\nelif a > 3:\n    if a > 4:\n        led.off()\n    led.set_brightness(78)\nelse:\n    led.off()\n", "78"),
    "led-call-in-helper-defined-above-the-declaration": ("from Reduino.Actuators import Led\ndef pulse():\n    led.on()\n    led.off()\n    led.toggle()\nled = Led(13)\npulse()\n", "digitalWrite(13, HIGH)"),
    "statements-of-the-second-except-clause-stay-in-their-handler": ("from Reduino.Actuators import Led\nled = Led(13)\ntry:\n    led.on()\nexcept Exception:\n    led.off()\nexcept ValueError:\n    led.set_brightness(91)\nled.set_brightness(92)\n", "catch (ValueError"),
    "melody-name-in-mixed-case": ("from Reduino.Actuators import Buzzer\nbz = Buzzer(8)\nbz.melody('Success')\n", "tone("),
    "melody-name-in-upper-case-in-a-helper": ("from Reduino.Actuators import Buzzer\nbz = Buzzer(8)\ndef play():\n    bz.melody(name='SIREN')\nplay()\n", "tone("),
    "return-tight-against-parenthesis": ("def ten():\n    return(10)\nr = ten()\n", "return"),
    "return-tight-against-minus": ("def minus():\n    return-1\nr = minus()\n", "return"),
    "return-tight-against-string": ("def word():\n    return'ab'\nr = word()\n", "return"),
    "return-followed-by-tab": ("def seven():\n    return\t7\nr = seven()\n", "return"),
}
ALLOW_LIST = {"pass"}


def extra_obligations(mods, tier, seed):
    import io
    import random
    import tokenize
    from contracts.c08 import real
    P, E = real("Reduino.transpile.parser"), real("Reduino.transpile.emitter")
    rnd = random.Random(seed)
    out = []
    # (1) layout independence: every block-header kind x every re-layout gives the same firmware
    t0 = time.time()
    for name, src in BASE_SCRIPTS.items():
        try:
            ref = E.emit(P.parse(src))
        except Exception as ex:
            out.append({"name": f"C07/layout/{name}", "status": "sat", "backend": "enum", "where": "base script transpiles",
                        "time": 0.0, "replay": {"error": str(ex)}, "replay_confirmed": True})
            continue
        bad = []
        for tag, variant in relayouts(src, rnd).items():
            try:
                got = E.emit(P.parse(variant))
            except Exception as ex:
                got = f"<{type(ex).__name__}: {ex}>"
            if got != ref:
                bad.append({"relayout": tag, "script": variant[:400], "first_difference": next(
                    (f"{a!r} vs {b!r}" for a, b in zip(ref.splitlines(), got.splitlines()) if a != b), "length differs")})
        out.append({"name": f"C07/layout/{name}", "status": "discharged" if not bad else "sat", "backend": "enum",
                    "where": f"'{name}': firmware identical under {len(relayouts(src, rnd))} re-layouts (trailing comments, comment lines at "
                             "any column, blank lines, indent unit 1-8/tab, trailing blanks, space before ':')",
                    "time": round(time.time() - t0, 3), "replay": {"failing": bad[:3]}, "replay_confirmed": bool(bad)})
    # (1b) the same re-layouts on seeded generated programs (helpers, nested loops, branches, comprehension, lists; fixed seeds)
    from progs.gen import programs as _gen_programs
    t0g = time.time()
    gbad, gn = [], 0
    for gname, gsrc in sorted(_gen_programs(10 if tier != "thorough" else 60, seed=0).items()):
        try:
            ref = E.emit(P.parse(gsrc))
        except (ValueError, SyntaxError):
            continue
        for tag, variant in relayouts(gsrc, rnd).items():
            gn += 1
            try:
                got = E.emit(P.parse(variant))
            except Exception as ex:
                got = f"<{type(ex).__name__}: {ex}>"
            if got != ref:
                gbad.append({"program": gname, "relayout": tag, "first_difference": next((f"{a!r} vs {b!r}" for a, b in zip(ref.splitlines(), got.splitlines()) if a != b), "length differs"),
                             "script": variant[:600]})
    out.append({"name": "C07/layout/generated-programs", "status": "discharged" if not gbad else "sat", "backend": "enum", "bounded": True,
                "where": f"{gn} (generated program, re-layout) pairs: the firmware text is identical to that of the plainly laid out program",
                "time": round(time.time() - t0g, 3), "replay": {"failing": gbad[:3]}, "replay_confirmed": bool(gbad)})
    # (2) fall-through of the dispatcher: nothing outside the allow-list may vanish silently
    for name, (src, marker) in DROP_PROBES.items():
        t1 = time.time()
        try:
            prog = P.parse(src)
            cpp = E.emit(prog)
            verdict = "translated" if (marker is None or marker.replace(" ", "") in cpp.replace(" ", "")) else "vanished"
        except (ValueError, SyntaxError) as ex:
            verdict, cpp = "rejected", str(ex)
        except Exception as ex:
            verdict, cpp = "crashed", f"{type(ex).__name__}: {ex}"
        ok = verdict in ("translated", "rejected") or name in ALLOW_LIST
        out.append({"name": f"C07/no-silent-drop/{name}", "status": "discharged" if ok else "sat", "backend": "enum",
                    "where": f"statement kind '{name}' is translated or rejected with an error (observed: {verdict})",
                    "time": round(time.time() - t1, 3), "replay": {"script": src, "observed": verdict, "output_tail": cpp[-300:]},
                    "replay_confirmed": not ok})
    # (2a) marker scripts: every marked statement is in the firmware text (or the script is rejected)
    import re as _re
    from contracts.c07_markers import MARKER_SCRIPTS
    for mname, msrc in MARKER_SCRIPTS.items():
        t1 = time.time()
        want = sorted(set(_re.findall(r"'(m\d+)'", msrc))) + sorted(set(_re.findall(r"sleep\((\d+)\)", msrc)))
        try:
            cpp = E.emit(P.parse(msrc))
            missing = [w for w in want if (f'"{w}"' not in cpp if w.startswith("m") else f"delay({w})" not in cpp)]
            verdict = "all-present" if not missing else "vanished"
        except (ValueError, SyntaxError) as ex:
            verdict, cpp, missing = "rejected", str(ex), []
        except Exception as ex:
            verdict, cpp, missing = "crashed", f"{type(ex).__name__}: {ex}", []
        ok = verdict in ("all-present", "rejected")
        out.append({"name": f"C07/no-silent-drop/marked-statements/{mname}", "status": "discharged" if ok else "sat", "backend": "enum",
                    "where": f"script '{mname}': each of its {len(want)} marked statements is in the firmware text, or the script is rejected (observed: {verdict})",
                    "time": round(time.time() - t1, 3), "replay": {"script": msrc, "observed": verdict, "missing_markers": missing, "output_tail": cpp[-300:]},
                    "replay_confirmed": not ok})
    # (2b) every statement-form device method / Core helper of the host API, at every nesting the dispatcher distinguishes: the call
    #      line is translated (the firmware text changes when the line is removed) or rejected - it never vanishes
    import inspect
    import contracts.c08 as c8
    t1 = time.time()
    vanished, n_calls = [], 0
    for cls, meth, sig, kind in c8.host_callables():
        if kind not in ("stmt", "corestmt"):
            continue
        skip = c8.HOST_ONLY_PARAMS.get((cls, meth), set())
        params = [p for p in sig.parameters.values() if p.name not in skip]
        names = [p.name for p in params]
        args = []
        for p in params:
            if p.default is not inspect._empty:
                continue
            lit = c8.LITERAL_PROBES.get((cls, meth, p.name), (None,))[0]
            if lit is None:
                v = c8.HOST_VALUES.get(p.name, 2 + names.index(p.name))
                lit = repr(v) if isinstance(v, (str, list)) else str(v)
                if cls == "Core" and p.name == "mode":
                    lit = "OUTPUT"
            args.append(lit if p.kind == p.POSITIONAL_ONLY else f"{p.name}={lit}")
        call = (f"dev.{meth}(" if cls != "Core" else f"{meth}(") + ", ".join(args) + ")"
        decl = "" if cls == "Core" else c8.DEVICES[cls] + "\n"
        # the same call with argument expressions that contain parentheses / calls, and with the first argument positional and the rest by keyword
        variants = [call]
        num = [a for a in args if re.fullmatch(r"(\w+=)?\d+", a)]
        if num:
            a0 = num[0]
            k, _, v = a0.rpartition("=")
            variants.append(call.replace(a0, (k + "=" if k else "") + f"abs(({v} + 1) * 1)", 1))
            variants.append(call.replace(a0, (k + "=" if k else "") + f"max({v}, int(2.0))", 1))
        if args and "=" in args[0] and all(p.kind != p.KEYWORD_ONLY for p in params[:1]):
            variants.append((f"dev.{meth}(" if cls != "Core" else f"{meth}(") + ", ".join([args[0].split("=", 1)[1]] + args[1:]) + ")")
        for call in variants:
          for place, tmpl in ((("top-level", "{call}\n"), ("main-loop", "while True:\n    {call}\n    sleep(5)\n"),
                              ("branch", "c = 1\nif c > 0:\n    {call}\n"), ("function", "def act():\n    {call}\nact()\n"),
                              ("for-body", "for i in range(2):\n    {call}\n")) if call is variants[0] else (("top-level", "{call}\n"), ("main-loop", "while True:\n    {call}\n    sleep(5)\n"))):
              with_call = c8.PRELUDE + decl + tmpl.format(call=call)
              without = c8.PRELUDE + decl + tmpl.format(call="pass")
              n_calls += 1
              try:
                  a = repr(P.parse(with_call))
              except (ValueError, SyntaxError):
                  continue               # rejected with an error
              except Exception as ex:
                  vanished.append({"call": call, "place": place, "problem": f"{type(ex).__name__}: {ex}"})
                  continue
              try:
                  b = repr(P.parse(without))
              except Exception:
                  b = None
              if a == b:
                  vanished.append({"call": call, "place": place, "problem": "the IR is the same with and without the line"})
    out.append({"name": "C07/no-silent-drop/every-device-method-at-every-nesting", "status": "discharged" if not vanished else "sat", "backend": "enum",
                "where": f"{n_calls} (statement-form device method or Core helper, nesting) pairs: the call line contributes an IR node (the IR changes when it is removed), or the call is rejected",
                "time": round(time.time() - t1, 3), "replay": {"vanished": vanished[:6], "count": len(vanished)}, "replay_confirmed": bool(vanished)})
    # (2d) a statement written in the `while True:` body is executed in every pass: a first binding there (constant or not) is an assignment
    #      inside loop(), not only an initialiser of the global
    t1 = time.time()
    LOOP_STMTS = {"int-constant": ("x = 0", "x"), "tuple-of-constants": ("lo, hi = 2, 5", "lo"), "string-constant": ("s = 'a'", "s"), "float-constant": ("f = 1.5", "f"),
                  "bool-constant": ("b = True", "b"), "constant-expression": ("y = 3 + 4", "y"), "negative-constant": ("z = -1", "z"), "from-earlier-name": ("w = k + 1", "w")}
    bad = []
    for sname, (stmt, var) in LOOP_STMTS.items():
        for pos in ("first", "after-a-call", "second-binding"):
            body = {"first": [stmt, f"{var} = {var} + 1" if sname not in ("string-constant", "bool-constant") else "mon.write(1)", "mon.write(2)"],
                    "after-a-call": ["mon.write(1)", stmt, "mon.write(2)"],
                    "second-binding": [stmt, "mon.write(1)", stmt.replace("= 0", "= 9") if sname == "int-constant" else stmt]}[pos]
            src = ("from Reduino.Communication import SerialMonitor\nmon = SerialMonitor(9600)\nk = 4\nwhile True:\n" + "".join("    " + l + "\n" for l in body))
            try:
                cpp = E.emit(P.parse(src))
            except (ValueError, SyntaxError):
                continue
            except Exception as ex:
                bad.append({"statement": stmt, "position": pos, "problem": f"{type(ex).__name__}: {ex}"})
                continue
            loop_txt = cpp[cpp.index("void loop()"):] if "void loop()" in cpp else ""
            import re as _re2
            n_assign = len(_re2.findall(rf"(?<![\w.]){var} = ", loop_txt))
            want = sum(1 for l in body if l.split("=")[0].replace(" ", "").split(",")[0] == var and "=" in l)
            if n_assign < want:
                bad.append({"statement": stmt, "position": pos, "script": src, "problem": f"{want} assignment(s) to `{var}` in the loop body, {n_assign} in loop()"})
    out.append({"name": "C07/structure/main-loop-statements-stay-in-the-loop", "status": "discharged" if not bad else "sat", "backend": "enum",
                "where": f"{len(LOOP_STMTS)} first-binding statements x 3 positions in the `while True:` body: each assignment written in the body is an assignment inside loop()",
                "time": round(time.time() - t1, 3), "replay": {"failing": bad[:4]}, "replay_confirmed": bool(bad)})
    # (2e) a statement that occurs several times occurs as many times in the firmware: the same device / Core call written twice (both arms
    #      of an if, twice in the loop body around another call, in setup and in the loop) is emitted twice
    t1 = time.time()
    REPEAT = {"pin_mode": ("from Reduino.Core import pin_mode, digital_write, OUTPUT, INPUT, HIGH\n", "pin_mode(7, OUTPUT)", "pin_mode(7, INPUT)", "pinMode(7, OUTPUT)"),
              "digital_write": ("from Reduino.Core import pin_mode, digital_write, OUTPUT, HIGH, LOW\npin_mode(7, OUTPUT)\n", "digital_write(7, HIGH)", "digital_write(7, LOW)", "digitalWrite(7, HIGH)"),
              "analog_write": ("from Reduino.Core import pin_mode, analog_write, OUTPUT\npin_mode(6, OUTPUT)\n", "analog_write(6, 10)", "analog_write(6, 20)", "analogWrite(6, 10)"),
              "led.on": ("from Reduino.Actuators import Led\nled = Led(13)\n", "led.on()", "led.off()", "digitalWrite(13, HIGH)"),
              "servo.write": ("from Reduino.Actuators import Servo\nsv = Servo(9)\n", "sv.write(30)", "sv.write(60)", "30"),
              "sleep": ("from Reduino.Utils import sleep\n", "sleep(11)", "sleep(12)", "delay(11)"),
              "serial.write": ("from Reduino.Communication import SerialMonitor\nmon = SerialMonitor(9600)\n", "mon.write('x')", "mon.write('y')", 'println("x")')}
    bad = []
    for rname, (pre, stmt, other, marker) in REPEAT.items():
        shapes = {"twice-in-loop-body": (pre + "while True:\n    " + stmt + "\n    " + other + "\n    " + stmt + "\n", 2),
                  "both-arms-of-if": (pre + "c = 1\nwhile True:\n    if c > 0:\n        " + stmt + "\n    else:\n        " + stmt + "\n    c = 1 - c\n", 2),
                  "setup-and-loop": (pre + stmt + "\n" + other + "\nwhile True:\n    " + stmt + "\n    " + other + "\n", 2),
                  "three-times-straight-line": (pre + stmt + "\n" + other + "\n" + stmt + "\n" + other + "\n" + stmt + "\n", 3)}
        for shname, (src, want) in shapes.items():
            try:
                cpp = E.emit(P.parse(src))
            except (ValueError, SyntaxError):
                continue
            except Exception as ex:
                bad.append({"call": stmt, "shape": shname, "problem": f"{type(ex).__name__}: {ex}"})
                continue
            body_txt = cpp[cpp.index("void setup()"):] if "void setup()" in cpp else cpp
            got = body_txt.replace(" ", "").count(marker.replace(" ", ""))
            if got < want:
                bad.append({"call": stmt, "shape": shname, "script": src, "problem": f"written {want} times, `{marker}` occurs {got} time(s) in setup()/loop()"})
    out.append({"name": "C07/no-silent-drop/repeated-statements-are-all-emitted", "status": "discharged" if not bad else "sat", "backend": "enum",
                "where": f"{len(REPEAT)} calls x 4 placements of a repeated statement: every occurrence is in the firmware",
                "time": round(time.time() - t1, 3), "replay": {"failing": bad[:4]}, "replay_confirmed": bool(bad)})
    # (2c) every typed variant of a helper has the block structure of the one Python function it comes from: the IR bodies of all
    #      variants of a name have the same tree of statement kinds (types and expressions may differ, blocks may not), and that tree
    #      nests as deep as Python's AST of the def
    import ast as _ast
    import dataclasses as _dc
    t1 = time.time()

    def shape(nodes):
        out_ = []
        for n in nodes:
            subs = []
            if _dc.is_dataclass(n):
                for f in _dc.fields(n):
                    v = getattr(n, f.name)
                    if isinstance(v, list) and v and all(_dc.is_dataclass(x) for x in v):
                        subs.append((f.name, shape(v)))
                    elif isinstance(v, list) and v and all(isinstance(x, tuple) and len(x) == 2 and isinstance(x[1], list) for x in v):
                        subs.append((f.name, [shape(x[1]) for x in v]))
            out_.append((type(n).__name__, subs))
        return out_

    def depth(sh):
        d = 0
        for _, subs in sh:
            for _, sub in subs:
                if sub and isinstance(sub[0], list):
                    d = max([d] + [1 + depth(x) for x in sub])
                else:
                    d = max(d, 1 + depth(sub))
        return d

    def depth_stmt(sh):
        """nesting depth counted in statements: a branch / handler wrapper is not a level of its own"""
        d = 0
        for kind, subs in sh:
            for _, sub in subs:
                if sub and isinstance(sub[0], list):
                    d = max([d] + [1 + depth_stmt(x) for x in sub])
                else:
                    d = max(d, depth_stmt(sub) + (0 if kind in ("ConditionalBranch", "CatchClause") else 1))
        return d

    def py_depth(stmts):
        d = 0
        for st_ in stmts:
            for attr in ("body", "orelse", "handlers", "finalbody"):
                sub = getattr(st_, attr, None)
                if isinstance(sub, list) and sub and not isinstance(st_, (_ast.FunctionDef,)):
                    stm = [x for x in sub if isinstance(x, _ast.stmt)] or [y for h in sub if isinstance(h, _ast.ExceptHandler) for y in h.body]
                    if attr == "orelse" and len(stm) == 1 and isinstance(stm[0], _ast.If):
                        d = max(d, py_depth(stm))          # elif chain: same level
                    else:
                        d = max(d, 1 + py_depth(stm))
        return d
    VARIANT_SCRIPTS = {
        "if-else-in-for": "def count(v):\n    t = 0\n    for i in range(3):\n        if v > 1:\n            t = t + 2\n        else:\n            t = t + 1\n    return t\ng = 1.5\na = count(1)\nb = count(g)\n",
        "while-with-break": "def climb(v):\n    n = 0\n    while n < 10:\n        n = n + 1\n        if n > v:\n            break\n    return n\nh = 2.5\na = climb(4)\nb = climb(h)\n",
        "elif-chain": "def grade(v):\n    if v > 8:\n        r = 3\n    elif v > 4:\n        r = 2\n    else:\n        r = 1\n    return r\nq = 4.5\na = grade(9)\nb = grade(q)\n",
        "string-variant": "def mark(v):\n    n = 0\n    for i in range(2):\n        if i > 0:\n            n = n + 1\n    return n\nw = 'ab'\na = mark(1)\nb = mark(w)\n",
        "nested-for-for-if": "def grid(v):\n    t = 0\n    for i in range(2):\n        for j in range(2):\n            if i == j:\n                t = t + v\n        t = t + 1\n    return t\nz = 0.5\na = grid(1)\nb = grid(z)\n",
        "called-before-second-signature-from-helper": "def inner(v):\n    if v > 1:\n        return 1\n    return 0\ndef outer(x):\n    return inner(x) + inner(2)\ny = 1.5\na = outer(y)\n",
    }
    bad = []
    for vname, vsrc in VARIANT_SCRIPTS.items():
        try:
            prog = P.parse(vsrc)
        except Exception as ex:
            bad.append({"script": vname, "error": f"{type(ex).__name__}: {ex}"})
            continue
        by_name = {}
        for fn in prog.functions:
            by_name.setdefault(fn.name, []).append(fn)
        defs = {n.name: n for n in _ast.parse(vsrc).body if isinstance(n, _ast.FunctionDef)}
        if not any(len(v) > 1 for v in by_name.values()):
            bad.append({"script": vname, "error": "no helper has more than one variant (the probe no longer exercises re-specialisation)", "structural": True})
        for fname, variants in by_name.items():
            shapes = [shape(v.body) for v in variants]
            for k, sh in enumerate(shapes[1:], 1):
                if sh != shapes[0]:
                    bad.append({"script": vname, "helper": fname, "variant_signatures": [[t for _, t in v.params] for v in (variants[0], variants[k])],
                                "first_variant_shape": repr(shapes[0])[:300], "other_variant_shape": repr(sh)[:300]})
            if fname in defs and depth_stmt(shapes[0]) != py_depth(defs[fname].body):
                bad.append({"script": vname, "helper": fname, "python_nesting_depth": py_depth(defs[fname].body), "ir_nesting_depth": depth_stmt(shapes[0])})
    out.append({"name": "C07/structure/helper-variants-keep-python-blocks", "status": "discharged" if not bad else "sat", "backend": "enum",
                "where": f"{len(VARIANT_SCRIPTS)} helpers re-specialised for a second argument signature: every variant's IR has the same tree of statement kinds, nested as deep as Python's def",
                "time": round(time.time() - t1, 3), "replay": {"failing": bad[:4], "scripts": VARIANT_SCRIPTS if bad else None}, "replay_confirmed": bool(bad)})
    # (3) bounded: _strip_inline_comment against Python's tokenizer
    t2 = time.time()
    alphabet = ["a", "'", '"', "\\", "#", " "]
    maxlen = 7 if tier == "thorough" else 6
    bad, n = [], 0
    for L in range(0, maxlen + 1):
        for tup in itertools.product(alphabet, repeat=L):
            s = "x = " + "".join(tup)
            n += 1
            try:
                toks = list(tokenize.generate_tokens(io.StringIO(s + "\n").readline))
            except (tokenize.TokenError, SyntaxError, IndentationError):
                continue       # not a valid Python line: outside the property
            if any(t.type == tokenize.ERRORTOKEN for t in toks):
                continue
            com = [t for t in toks if t.type == tokenize.COMMENT]
            expect = s[:com[0].start[1]].rstrip() if com else s
            got = P._strip_inline_comment(s)
            if got != expect and got.rstrip() != expect.rstrip():
                bad.append({"line": s, "python_says": expect, "function_says": got})
    PROPERTY["bounded"] = [{"check": "_strip_inline_comment vs tokenize", "bound": f"all {n} lines 'x = ' + w, |w| <= {maxlen} over {alphabet}",
                            "mismatches": len(bad)}]
    out.append({"name": "C07/bounded/strip-inline-comment-vs-tokenize", "status": "discharged" if not bad else "sat", "backend": "bounded-native",
                "where": "comment start decided like Python's tokenizer on every valid line of the bounded alphabet", "time": round(time.time() - t2, 2),
                "bounded": True, "replay": {"mismatches": bad[:5]}, "replay_confirmed": bool(bad)})
    return out


def extra_evidence():
    return {"bounded": PROPERTY.get("bounded", []), "base_scripts": sorted(BASE_SCRIPTS), "drop_probes": sorted(DROP_PROBES)}
