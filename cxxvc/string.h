// mock of avr-libc <string.h>: only what the emitted helper snippets use (the real Arduino.h includes <string.h> itself)
#pragma once
typedef unsigned int size_t;
extern "C" size_t strlen(const char *s);
extern "C" void *memcpy(void *dest, const void *src, size_t n);
extern "C" void *memmove(void *dest, const void *src, size_t n);
extern "C" void *memset(void *dest, int c, size_t n);
extern "C" int strcmp(const char *a, const char *b);
