"""C04 - actuator commands: firmware drives pins exactly as the host simulation predicts.

One shared specification per operation (written once, as text over abstract names {B},{S},{P},...) is proved
 (a) of the host method, by pyvc on Reduino/Actuators/*.py, and
 (b) of the firmware fragment that the REAL emitter produces for the corresponding IR node, translated mechanically
     by cxx2py from clang's AVR-typed AST,
against the same ghost event trace E (pyvc.events): host == firmware follows by transitivity, for all in-range argument
values and all prior states.  Arduino core calls are assumed contracts (A-ARDUINO); firmware integer arithmetic carries
no-overflow obligations (rte)."""
from pyvc.contracts import Registry
from cxxvc import harvest as H

LED = "Reduino/Actuators/Led.py"
FW = "@gen/c04_fw.py"
N = H.node

PROPERTY = {
    "level": "proof",
    "expect_min_obligations": 800,
    "explanation": "For Led (on, off, toggle, set_brightness, blink, fade_in, fade_out), RGBLed (set_color, on, off), DCMotor "
                   "(set_speed, stop, coast, invert) and Servo (write, write_us) one shared specification per operation - state update "
                   "plus ghost event trace of pin levels and delays, with recursive trace functions for the loops - is proved of the "
                   "host method (pyvc on the real Python) and of the firmware fragment produced by the real emitter (cxx2py translation of "
                   "clang's AVR-typed AST, signed-overflow/division/float-to-int obligations included), for all in-range arguments "
                   "and all prior states: host == firmware by transitivity; the RGBLed.fade firmware fragment is proved against its interpolation "
                   "spec. Emission is context-free on the enumerated command sets (C04/compose/*), so the per-command contracts compose over "
                   "sequences. NOT under contract: Led.flash_pattern, RGBLed.blink, DCMotor backward/ramp/run_for, the getter expressions, "
                   "out-of-range clamping clauses - these are covered only by the bounded device differential (literal arguments through "
                   "the real parser, getters and delays against the host class).",
    "trusted_base": ["pyvc symbolic executor", "cxx2py translation of clang's AVR AST (mechanical; drops listed in cxx2py.py)",
                     "clang 14 AVR front end typing", "mock Arduino.h signatures", "z3"],
    "assumptions": [
        "A-REAL: floats are reals", "A-ARDUINO: digitalWrite(pin, v) sets the pin level to 255/0, analogWrite(pin, v) to v, "
        "delay(ms) waits ms; a write of the level a pin already has is not an event",
        "A-PARAM: the fragment for arbitrary argument expressions is the harvested fragment with the argument texts substituted "
        "(arguments are side-effect-free expressions of the declared C type)",
        "host observable = the sequence of brightness/colour values stored by set_brightness/set_color and the sleeps (one event "
        "per state write), pins are ints in 0..255",
        "integer-valued arguments (float durations are truncated by the device: < 1 ms per delay, not modelled)",
    ],
}


# ---------------------------------------------------------------------------- shared specifications (Led)
def led_specs(B, S, P):
    """operation -> dict(requires=[..], ensures=[..]) over brightness {B}, state {S}, pin {P}"""
    LT = lambda v: f"level_trace(old(E), old(cur), {P}, {v})"
    ST = lambda v: f"same_map(cur, stored(old(cur), {P}, {v}))"
    oB = f"old({B})"
    return {
        "on": dict(requires=[], ensures=[f"{B} == 255", f"{S} == True", f"E == {LT(255)}", ST(255)]),
        "off": dict(requires=[], ensures=[f"{B} == 0", f"{S} == False", f"E == {LT(0)}", ST(0)]),
        "toggle": dict(requires=[], ensures=[f"{S} == (not old({S}))", f"{B} == ite(old({S}), 0, 255)",
                                             f"E == {LT(f'ite(old({S}), 0, 255)')}", ST(f"ite(old({S}), 0, 255)")]),
        "set_brightness": dict(requires=["0 <= value <= 255"],
                               ensures=[f"{B} == value", f"{S} == (value > 0)", f"E == {LT('value')}", ST("value")]),
        "blink": dict(requires=["duration_ms >= 0", "times >= 1"],
                      ensures=[f"{B} == 0", f"{S} == False",
                               f"E == blink_trace({LT(255)}, {P}, duration_ms, times)", ST(0)]),
        "fade_in": dict(requires=["step >= 1", "step <= 32000", "delay_ms >= 0"],
                        ensures=[f"{B} == 255", f"{S} == True", ST(255),
                                 f"{oB} + loopk0 * step >= 255", f"loopk0 == 0 or {oB} + (loopk0 - 1) * step < 255",
                                 f"E == level_after(fade_trace(old(E), level_of(old(cur), {P}), {P}, {oB}, step, delay_ms, loopk0), "
                                 f"ite(loopk0 == 0, level_of(old(cur), {P}), {oB} + (loopk0 - 1) * step), {P}, 255)"]),
        "fade_out": dict(requires=["step >= 1", "step <= 32000", "delay_ms >= 0"],
                         ensures=[f"{B} == 0", f"{S} == False", ST(0),
                                  f"{oB} - loopk0 * step <= 0", f"loopk0 == 0 or {oB} - (loopk0 - 1) * step > 0",
                                  f"E == level_after(fade_trace(old(E), level_of(old(cur), {P}), {P}, {oB}, -step, delay_ms, loopk0), "
                                  f"ite(loopk0 == 0, level_of(old(cur), {P}), {oB} - (loopk0 - 1) * step), {P}, 0)"]),
    }


def engine_setup(eng):
    import z3
    from pyvc import events
    from pyvc.sym import V, vint, as_int_term, as_real_term
    from pyvc.specfuncs import _cell
    from pyvc.pyval import key_of
    events.install(eng)
    Ev = events.Event
    ES = z3.SeqSort(Ev)

    def lvl(p, v):
        return z3.Unit(Ev.Ev(z3.IntVal(1), p, z3.ToReal(v)))

    def dly(d):
        return z3.Unit(Ev.Ev(z3.IntVal(2), d, z3.RealVal(0)))

    if "blink" not in _REC:
        f = z3.RecFunction("blink_trace", ES, z3.RealSort(), z3.RealSort(), z3.IntSort(), ES)
        e1, p, d, n = z3.Const("e1", ES), z3.Real("p"), z3.Real("d"), z3.Int("n")
        # e1 = trace after the first ON; n = number of completed iterations (n >= 1)
        z3.RecAddDefinition(f, [e1, p, d, n], z3.If(
            n <= 1, z3.Concat(e1, dly(d), lvl(p, z3.IntVal(0)), dly(d)),
            z3.Concat(f(e1, p, d, n - 1), lvl(p, z3.IntVal(255)), dly(d), lvl(p, z3.IntVal(0)), dly(d))))
        _REC["blink"] = f
        g = z3.RecFunction("fade_trace", ES, z3.IntSort(), z3.RealSort(), z3.IntSort(), z3.IntSort(), z3.RealSort(), z3.IntSort(), ES)
        e0, l0, c0, s, k = z3.Const("e0", ES), z3.Int("l0"), z3.Int("c0"), z3.Int("s"), z3.Int("k")
        # k iterations: iteration j (0-based) writes level c0 + j*s (an event unless the pin already has it) then delays d
        prev_level = z3.If(k == 1, l0, c0 + (k - 2) * s)
        cur_level = c0 + (k - 1) * s
        z3.RecAddDefinition(g, [e0, l0, p, c0, s, d, k], z3.If(
            k <= 0, e0,
            z3.Concat(z3.If(prev_level == cur_level, g(e0, l0, p, c0, s, d, k - 1),
                            z3.Concat(g(e0, l0, p, c0, s, d, k - 1), lvl(p, cur_level))), dly(d))))
        _REC["fade"] = g

    def blink_trace(e, st, e1, p, d, n):
        return V("seq", _REC["blink"](e1.t, as_real_term(p), as_real_term(d), as_int_term(n)), "event")

    def fade_trace(e, st, e0, l0, p, c0, s, d, k):
        return V("seq", _REC["fade"](e0.t, as_int_term(l0), as_real_term(p), as_int_term(c0), as_int_term(s), as_real_term(d),
                                     as_int_term(k)), "event")

    def level_of(e, st, cur, p):
        c = _cell(st, cur)
        kk = key_of(p)
        return vint(z3.If(z3.Select(c.dom, kk), z3.Select(c.arr, kk), z3.IntVal(-1)))

    def level_after(e, st, E, l, p, v):
        return V("seq", z3.If(as_int_term(l) == as_int_term(v), E.t, z3.Concat(E.t, lvl(as_real_term(p), as_int_term(v)))), "event")

    def cdiv(a, b):
        return z3.If(b > 0, z3.If(a >= 0, a / b, -((-a) / b)), z3.If(a >= 0, -(a / (-b)), (-a) / (-b)))

    def fwfade(e, st, c, t, i, s):
        c, t, i, s = (as_int_term(x) for x in (c, t, i, s))
        num = (t - c) * i
        h = cdiv(s, z3.IntVal(2))
        return vint(c + cdiv(z3.If(num >= 0, num + h, num - h), s))

    def rha_div(e, st, n, d):
        """round-half-away-from-zero of n/d for d > 0"""
        n, d = as_int_term(n), as_int_term(d)
        q = z3.ToReal(n) / z3.ToReal(d)
        a = z3.If(q >= 0, q, -q)
        fl = z3.ToInt(a + z3.RealVal("1/2"))
        return vint(z3.If(q >= 0, fl, -fl))

    def rha(e, st, x):
        q = as_real_term(x)
        a = z3.If(q >= 0, q, -q)
        fl = z3.ToInt(a + z3.RealVal("1/2"))
        return vint(z3.If(q >= 0, fl, -fl))

    eng.spec_funcs.update(fwfade=fwfade, rha_div=rha_div, rha=rha)
    eng.spec_funcs.update(blink_trace=blink_trace, fade_trace=fade_trace, level_of=level_of, level_after=level_after)


_REC = {}


def fw_specs():
    led = [N("LedDecl", name="led", pin="__pin")]
    pin = {"__pin": "int"}
    return {
        "led_on": dict(decls=led, nodes=[N("LedOn", name="led")], opaque=dict(pin), op="on", args={}),
        "led_off": dict(decls=led, nodes=[N("LedOff", name="led")], opaque=dict(pin), op="off", args={}),
        "led_toggle": dict(decls=led, nodes=[N("LedToggle", name="led")], opaque=dict(pin), op="toggle", args={}),
        "led_set_brightness": dict(decls=led, nodes=[N("LedSetBrightness", name="led", value="value")],
                                   opaque=dict(pin, value="int"), op="set_brightness", args={}),
        "led_blink": dict(decls=led, nodes=[N("LedBlink", name="led", duration_ms="duration_ms", times="times")],
                          opaque=dict(pin, duration_ms="int", times="int"), op="blink", args={}),
        "led_fade_in": dict(decls=led, nodes=[N("LedFadeIn", name="led", step="step", delay_ms="delay_ms")],
                            opaque=dict(pin, step="int", delay_ms="int"), op="fade_in", args={}),
        "led_fade_out": dict(decls=led, nodes=[N("LedFadeOut", name="led", step="step", delay_ms="delay_ms")],
                             opaque=dict(pin, step="int", delay_ms="int"), op="fade_out", args={}),
    }


def fw_specs_more():
    rgb = [N("RGBLedDecl", name="rgb", red_pin="__pr", green_pin="__pg", blue_pin="__pb")]
    ro = {"__pr": "int", "__pg": "int", "__pb": "int"}
    mot = [N("DCMotorDecl", name="m", in1="__in1", in2="__in2", enable="__en")]
    mo = {"__in1": "int", "__in2": "int", "__en": "int"}
    srv = [N("ServoDecl", name="s", pin="__pin", min_angle="__mina", max_angle="__maxa", min_pulse_us="__minp", max_pulse_us="__maxp")]
    so = {"__pin": "int", "__mina": "float", "__maxa": "float", "__minp": "float", "__maxp": "float"}
    return {
        "rgb_set_color": dict(decls=rgb, nodes=[N("RGBLedSetColor", name="rgb", red="red", green="green", blue="blue")],
                              opaque=dict(ro, red="int", green="int", blue="int"), dev="rgb", op="set_color"),
        "rgb_on": dict(decls=rgb, nodes=[N("RGBLedOn", name="rgb", red="red", green="green", blue="blue")],
                       opaque=dict(ro, red="int", green="int", blue="int"), dev="rgb", op="on"),
        "rgb_off": dict(decls=rgb, nodes=[N("RGBLedOff", name="rgb")], opaque=dict(ro), dev="rgb", op="off"),
        "rgb_fade": dict(decls=rgb, nodes=[N("RGBLedFade", name="rgb", red="red", green="green", blue="blue", duration_ms="duration_ms",
                                             steps="steps")],
                         opaque=dict(ro, red="int", green="int", blue="int", duration_ms="int", steps="int"), dev="rgbfade", op="fade"),
        "dc_set_speed": dict(decls=mot, nodes=[N("DCMotorSetSpeed", name="m", speed="value")], opaque=dict(mo, value="float"), dev="dc", op="set_speed"),
        "dc_backward": dict(decls=mot, nodes=[N("DCMotorBackward", name="m", speed="value")], opaque=dict(mo, value="float"), dev="dc", op="backward"),
        "dc_stop": dict(decls=mot, nodes=[N("DCMotorStop", name="m")], opaque=dict(mo), dev="dc", op="stop"),
        "dc_coast": dict(decls=mot, nodes=[N("DCMotorCoast", name="m")], opaque=dict(mo), dev="dc", op="coast"),
        "dc_invert": dict(decls=mot, nodes=[N("DCMotorInvert", name="m")], opaque=dict(mo), dev="dc", op="invert"),
        "srv_write": dict(decls=srv, nodes=[N("ServoWrite", name="s", angle="angle")], opaque=dict(so, angle="float"), dev="srv", op="write"),
        "srv_write_us": dict(decls=srv, nodes=[N("ServoWriteMicroseconds", name="s", pulse_us="pulse")], opaque=dict(so, pulse="float"),
                             dev="srv", op="write_us"),
    }


FW_LOOPS = {
    "led_blink": {0: {"inv": ["0 <= __redu_i <= __redu_times", "__redu_times == times", "k == __redu_i",
                              "implies(k == 0, E == old(E) and same_map(cur, old(cur)))",
                              "implies(k > 0, E == blink_trace(level_trace(old(E), old(cur), __pin, 255), __pin, duration_ms, k) "
                              "and same_map(cur, stored(old(cur), __pin, 0)) and __brightness_led == 0 and __state_led == False)"]}},
    "led_fade_in": {0: {"inv": ["__redu_step == step", "__redu_value == min(255, old(__brightness_led) + k * step)",
                                "implies(__redu_value < 255, __redu_value == old(__brightness_led) + k * step)",
                                "implies(k > 0, old(__brightness_led) + (k - 1) * step < 255)",
                                "E == fade_trace(old(E), level_of(old(cur), __pin), __pin, old(__brightness_led), step, delay_ms, k)",
                                "implies(k == 0, same_map(cur, old(cur)))",
                                "implies(k > 0, same_map(cur, stored(old(cur), __pin, old(__brightness_led) + (k - 1) * step)))"]}},
    "led_fade_out": {0: {"inv": ["__redu_step == step", "__redu_value == max(0, old(__brightness_led) - k * step)",
                                 "implies(k > 0, old(__brightness_led) - (k - 1) * step > 0)",
                                 "E == fade_trace(old(E), level_of(old(cur), __pin), __pin, old(__brightness_led), -step, delay_ms, k)",
                                 "implies(k == 0, same_map(cur, old(cur)))",
                                 "implies(k > 0, same_map(cur, stored(old(cur), __pin, old(__brightness_led) - (k - 1) * step)))"]}},
}

HOST_LOOPS = {
    "blink": {0: {"inv": ["inv(self)", "implies(k == 0, E == old(E) and same_map(cur, old(cur)) and self.brightness == old(self.brightness))",
                          "implies(k > 0, E == blink_trace(level_trace(old(E), old(cur), self.pin, 255), self.pin, duration_ms, k) "
                          "and same_map(cur, stored(old(cur), self.pin, 0)) and self.brightness == 0)"]}},
    "fade_in": {0: {"inv": ["inv(self)", "current == min(255, old(self.brightness) + k * step)",
                            "implies(k > 0, old(self.brightness) + (k - 1) * step < 255)",
                            "E == fade_trace(old(E), level_of(old(cur), self.pin), self.pin, old(self.brightness), step, delay_ms, k)",
                            "implies(k == 0, same_map(cur, old(cur)))",
                            "implies(k > 0, same_map(cur, stored(old(cur), self.pin, old(self.brightness) + (k - 1) * step)))"]}},
    "fade_out": {0: {"inv": ["inv(self)", "current == max(0, old(self.brightness) - k * step)",
                             "implies(k > 0, old(self.brightness) - (k - 1) * step > 0)",
                             "E == fade_trace(old(E), level_of(old(cur), self.pin), self.pin, old(self.brightness), -step, delay_ms, k)",
                             "implies(k == 0, same_map(cur, old(cur)))",
                             "implies(k > 0, same_map(cur, stored(old(cur), self.pin, old(self.brightness) - (k - 1) * step)))"]}},
}

# ---------------------------------------------------------------------------- shared specifications (RGB, DCMotor, Servo)
def chain3(p, v):
    """trace and pin-level map after writing v[0] to pin p[0], then v[1] to p[1], then v[2] to p[2]"""
    e1, c1 = f"level_trace(old(E), old(cur), {p[0]}, {v[0]})", f"stored(old(cur), {p[0]}, {v[0]})"
    e2, c2 = f"level_trace({e1}, {c1}, {p[1]}, {v[1]})", f"stored({c1}, {p[1]}, {v[1]})"
    e3, c3 = f"level_trace({e2}, {c2}, {p[2]}, {v[2]})", f"stored({c2}, {p[2]}, {v[2]})"
    return e3, c3


def rgb_specs(R, G, B, S, pins):
    def setc(r, g, b):
        e, cm = chain3(pins, (r, g, b))
        return [f"{R} == {r}", f"{G} == {g}", f"{B} == {b}", f"{S} == ({r} > 0 or {g} > 0 or {b} > 0)", f"E == {e}", f"same_map(cur, {cm})"]
    rng = ["0 <= red <= 255", "0 <= green <= 255", "0 <= blue <= 255"]
    return {"set_color": dict(requires=rng, ensures=setc("red", "green", "blue")),
            "on": dict(requires=rng, ensures=setc("red", "green", "blue")),
            "off": dict(requires=[], ensures=setc("0", "0", "0"))}


PWM = lambda a: f"trunc(abs({a}) * 255 + 0.5)"


def dc_specs(SP, INV, MODE, pins):
    """drive pins as a function of the applied speed a: pwm = floor(|a|*255 + 0.5); (in1,in2) = (0,0) if pwm == 0,
    (255,0) if a > 0, (0,255) if a < 0; enable = pwm."""
    def drive(a):
        pwm = PWM(a)
        return chain3(pins, (f"ite({pwm} == 0, 0, ite({a} > 0, 255, 0))", f"ite({pwm} == 0, 0, ite({a} > 0, 0, 255))", pwm))
    clamp = lambda x: f"ite({x} > 1, 1.0, ite({x} < -1, -1.0, real({x})))"
    applied = lambda s, inv: f"ite({inv}, -({s}), {s})"
    out = {}
    s1 = clamp("value")
    e, cm = drive(applied(s1, f"old({INV})"))
    out["set_speed"] = dict(requires=[], ensures=[f"{SP} == {s1}", f"{INV} == old({INV})", f"E == {e}", f"same_map(cur, {cm})"],
                            mode=f"{MODE} == ite({applied(s1, f'old({INV})')} == 0, 'coast', 'drive')",
                            tiny=f"{s1} != 0 and abs({s1}) * 255 + 0.5 < 1")
    sb = clamp("(-abs(value))")
    e, cm = drive(applied(sb, f"old({INV})"))
    out["backward"] = dict(requires=[], ensures=[f"{SP} == {sb}", f"{INV} == old({INV})", f"E == {e}", f"same_map(cur, {cm})"],
                           mode=f"{MODE} == ite({applied(sb, f'old({INV})')} == 0, 'coast', 'drive')",
                           tiny=f"{sb} != 0 and abs({sb}) * 255 + 0.5 < 1")
    e, cm = chain3(pins, ("255", "255", "0"))
    out["stop"] = dict(requires=[], ensures=[f"{SP} == 0", f"{INV} == old({INV})", f"{MODE} == 'brake'", f"E == {e}", f"same_map(cur, {cm})"])
    e, cm = chain3(pins, ("0", "0", "0"))
    out["coast"] = dict(requires=[], ensures=[f"{SP} == 0", f"{INV} == old({INV})", f"{MODE} == 'coast'", f"E == {e}", f"same_map(cur, {cm})"])
    a2 = applied(f"old({SP})", f"(not old({INV}))")
    e, cm = drive(a2)
    out["invert"] = dict(requires=[], ensures=[f"{SP} == old({SP})", f"{INV} == (not old({INV}))", f"E == {e}", f"same_map(cur, {cm})"],
                         mode=f"{MODE} == ite({a2} == 0, 'coast', 'drive')", tiny=f"old({SP}) != 0 and abs(old({SP})) * 255 + 0.5 < 1")
    return out


RGBF = "Reduino/Actuators/RGBLed.py"
DCF = "Reduino/Actuators/DCMotor.py"
SRVF = "Reduino/Actuators/Servo.py"

_BUILD = {}


def build_more(reg, specs, info_needed):
    """host contracts for RGBLed / DCMotor / Servo (loop-free operations)"""
    # ---- RGBLed
    reg.cls("RGBLed", RGBF, fields={"_pins": "(int,int,int)", "_color": "(int,int,int)", "_state": "bool"},
            inv=["0 <= self._color[0] <= 255", "0 <= self._color[1] <= 255", "0 <= self._color[2] <= 255",
                 "self._state == (self._color[0] > 0 or self._color[1] > 0 or self._color[2] > 0)",
                 "0 <= self._pins[0] <= 255", "0 <= self._pins[1] <= 255", "0 <= self._pins[2] <= 255",
                 "self._pins[0] != self._pins[1] and self._pins[0] != self._pins[2] and self._pins[1] != self._pins[2]"])
    hp = ("self._pins[0]", "self._pins[1]", "self._pins[2]")
    hs = rgb_specs("self._color[0]", "self._color[1]", "self._color[2]", "self._state", hp)
    e, cm = chain3(hp, ("self._color[0]", "self._color[1]", "self._color[2]"))
    reg.unit("RGBLed._validate_component", RGBF, public=False, params={"value": "int", "name": "str"},
             raises={"ValueError": "not (0 <= value <= 255)"}, returns="int", ensures=["result == value"])
    reg.unit("RGBLed._update_state", RGBF, public=False, inline=True)
    gu = {"ghost.E": e, "ghost.cur": cm}
    for op in ("set_color", "on"):
        reg.unit(f"RGBLed.{op}", RGBF, params={"red": "int", "green": "int", "blue": "int"}, requires=hs[op]["requires"],
                 raises={"ValueError": "not (0 <= red <= 255 and 0 <= green <= 255 and 0 <= blue <= 255)"},
                 modifies=["self._color", "self._state"] + ([] if op == "set_color" else ["ghost.E", "ghost.cur"]),
                 ghost_update=gu if op == "set_color" else {}, ensures=hs[op]["ensures"],
                 note="host observable: a colour write is three level events (red, green, blue pin)")
    reg.unit("RGBLed.off", RGBF, modifies=["self._color", "self._state", "ghost.E", "ghost.cur"], ensures=hs["off"]["ensures"])
    # ---- DCMotor
    reg.cls("DCMotor", DCF, fields={"pins": "(int,int,int)", "_speed": "real", "_inverted": "bool", "_mode": "str", "_applied_speed": "real"},
            inv=["-1 <= self._speed <= 1", "self._applied_speed == ite(self._inverted, -self._speed, self._speed)",
                 "0 <= self.pins[0] <= 255", "0 <= self.pins[1] <= 255", "0 <= self.pins[2] <= 255",
                 "self.pins[0] != self.pins[1] and self.pins[0] != self.pins[2] and self.pins[1] != self.pins[2]"])
    dp = ("self.pins[0]", "self.pins[1]", "self.pins[2]")
    ds = dc_specs("self._speed", "self._inverted", "self._mode", dp)
    reg.unit("DCMotor._clamp_speed", DCF, public=False, params={"value": "int|real"}, returns="real",
             ensures=["result == ite(value > 1, 1.0, ite(value < -1, -1.0, real(value)))"])
    reg.unit("DCMotor._apply_speed", DCF, public=False, inline=True)
    DM = ["self._speed", "self._mode", "self._applied_speed"]
    for op, params in (("set_speed", {"value": "int|real"}), ("stop", {}), ("coast", {}), ("invert", {}), ("backward", {"speed": "int|real"})):
        sp = ds[op]
        if op == "backward":
            # the host parameter is called `speed`; the shared specification is written over `value`
            sp = {k: ([c.replace("value", "speed") for c in v] if isinstance(v, list) else v.replace("value", "speed")) for k, v in sp.items()}
        ens = list(sp["ensures"]) + ([sp["mode"]] if "mode" in sp else [])
        tr = [x for x in ens if x.startswith("E == ")][0][5:]
        cmx = [x for x in ens if x.startswith("same_map(cur, ")][0][len("same_map(cur, "):-1]
        reg.unit(f"DCMotor.{op}", DCF, params=params, modifies=DM + (["self._inverted"] if op == "invert" else []),
                 ghost_update={"ghost.E": tr, "ghost.cur": cmx}, ensures=ens,
                 note="host observable: the H-bridge pins are DEFINED from the applied speed by the shared drive() specification "
                      "(the host class has no pin model); what is proved of the host is the state part")
    # ---- Servo
    reg.cls("Servo", SRVF, fields={"pin": "int", "_min_angle": "real", "_max_angle": "real", "_min_pulse": "real", "_max_pulse": "real",
                                   "_current_angle": "real", "_current_pulse": "real"},
            inv=["self._min_angle < self._max_angle", "self._min_pulse < self._max_pulse"])
    reg.unit("Servo._angle_to_pulse", SRVF, public=False, inline=True)
    reg.unit("Servo._pulse_to_angle", SRVF, public=False, inline=True)
    amap = lambda a, o: (f"{o}_min_pulse + (({a} - {o}_min_angle) / ({o}_max_angle - {o}_min_angle)) * ({o}_max_pulse - {o}_min_pulse)")
    pmap = lambda p, o: (f"{o}_min_angle + (({p} - {o}_min_pulse) / ({o}_max_pulse - {o}_min_pulse)) * ({o}_max_angle - {o}_min_angle)")
    reg.unit("Servo.write", SRVF, params={"angle": "int|real"}, requires=["self._min_angle <= angle <= self._max_angle"],
             raises={"ValueError": "not (self._min_angle <= angle <= self._max_angle)"},
             modifies=["self._current_angle", "self._current_pulse"],
             ensures=["self._current_angle == angle", f"self._current_pulse == {amap('angle', 'self.')}"])
    reg.unit("Servo.write_us", SRVF, params={"pulse": "int|real"}, requires=["self._min_pulse <= pulse <= self._max_pulse"],
             raises={"ValueError": "not (self._min_pulse <= pulse <= self._max_pulse)"},
             modifies=["self._current_angle", "self._current_pulse"],
             ensures=["self._current_pulse == pulse", f"self._current_angle == {pmap('pulse', 'self.')}"])
    return dict(rgb=rgb_specs, dc=dc_specs, amap=amap, pmap=pmap)


def build():
    reg = Registry()
    reg.ghost("E", "seq:event")
    reg.ghost("cur", "map:int")
    PIN_OK = "0 <= {P} <= 255"
    # ------------------------------------------------------------------ host side
    reg.cls("Led", LED, fields={"pin": "int", "state": "bool", "brightness": "int"},
            inv=["0 <= self.brightness <= 255", "self.state == (self.brightness > 0)", "0 <= self.pin <= 255"])
    hs = led_specs("self.brightness", "self.state", "self.pin")
    reg.unit("_sleep", LED, extern=True, public=False, params={"duration": "int"},
             raises={"ValueError": "duration < 0"}, modifies=["ghost.E"], ensures=["E == old(E) + [ev(2, duration, 0)]"],
             note="ASSUMED: proxy to Utils.sleep (C20); one delay event")
    MOD = ["self.brightness", "self.state", "ghost.E", "ghost.cur"]
    reg.unit("Led.set_brightness", LED, params={"value": "int"}, requires=hs["set_brightness"]["requires"],
             raises={"ValueError": "not (0 <= value <= 255)"}, modifies=["self.brightness", "self.state"],
             ghost_update={"ghost.E": "level_trace(old(E), old(cur), self.pin, self.brightness)",
                           "ghost.cur": "stored(old(cur), self.pin, self.brightness)"},
             ensures=hs["set_brightness"]["ensures"],
             note="host observable: every state write is a level event on the LED's pin")
    for op in ("on", "off", "toggle"):
        reg.unit(f"Led.{op}", LED, modifies=MOD, ensures=hs[op]["ensures"])
    reg.unit("Led.blink", LED, params={"duration_ms": "int", "times": "int"}, requires=hs["blink"]["requires"],
             raises={"ValueError": "duration_ms < 0 or times <= 0"}, modifies=MOD, loops=HOST_LOOPS["blink"],
             ensures=hs["blink"]["ensures"])
    for op in ("fade_in", "fade_out"):
        reg.unit(f"Led.{op}", LED, params={"step": "int", "delay_ms": "int"}, requires=hs[op]["requires"],
                 raises={"ValueError": "step <= 0 or delay_ms < 0"}, modifies=MOD, loops=HOST_LOOPS[op], ensures=hs[op]["ensures"])
    # ------------------------------------------------------------------ firmware side
    specs = fw_specs()
    emitted = H.emit_all(specs)
    texts, info = [], {}
    for name, sp in specs.items():
        if "error" in emitted[name]:
            raise RuntimeError(f"emitter failed on fragment {name}: {emitted[name]['error']}")
        tr = H.translate_fragment(name, emitted[name]["cpp"], sp["opaque"])
        texts.append(tr["py"])
        info[name] = tr
    key = H.register_module("c04_fw.py", texts)
    assert key == FW
    for g, kind in {"__state_led": "bool", "__brightness_led": "int"}.items():
        reg.globs[(FW, g)] = kind
    reg.unit("digitalWrite", FW, extern=True, public=False, params={"pin": "int", "val": "int"},
             modifies=["ghost.E", "ghost.cur"],
             ensures=["E == level_trace(old(E), old(cur), pin, ite(val != 0, 255, 0))",
                      "same_map(cur, stored(old(cur), pin, ite(val != 0, 255, 0)))"], note="ASSUMED (A-ARDUINO)")
    reg.unit("analogWrite", FW, extern=True, public=False, params={"pin": "int", "val": "int"},
             modifies=["ghost.E", "ghost.cur"],
             ensures=["E == level_trace(old(E), old(cur), pin, val)", "same_map(cur, stored(old(cur), pin, val))"],
             note="ASSUMED (A-ARDUINO)")
    reg.unit("delay", FW, extern=True, public=False, params={"ms": "int"}, modifies=["ghost.E"],
             ensures=["E == old(E) + [ev(2, ms, 0)]"], note="ASSUMED (A-ARDUINO)")
    fs = led_specs("__brightness_led", "__state_led", "__pin")
    FWINV = ["0 <= __brightness_led <= 255", "__state_led == (__brightness_led > 0)", "0 <= __pin <= 255"]
    for name, sp in specs.items():
        op = sp["op"]
        tr = info[name]
        ranges = [f"-32768 <= {p} <= 32767" for p, k in tr["params"] if k == "int"]   # C type of the opaque arguments (AVR int)
        reg.unit(tr["pyname"], FW, params={p: k for p, k in tr["params"]}, public=False,
                 requires=FWINV + ranges + fs[op]["requires"], modifies=["glob.__brightness_led", "glob.__state_led", "ghost.E", "ghost.cur"],
                 loops=FW_LOOPS.get(name, {}), ensures=fs[op]["ensures"] + FWINV[:2],
                 note=f"firmware fragment of {sp['nodes'][0]['$node']}; emitted C++ sha256 {tr['sha'][:16]}")
    # ------------------------------------------------------------------ RGB / DCMotor / Servo
    sf = build_more(reg, None, None)
    more = fw_specs_more()
    emitted2 = H.emit_all(more)
    texts2 = []
    for name, sp in more.items():
        if "error" in emitted2[name]:
            raise RuntimeError(f"emitter failed on fragment {name}: {emitted2[name]['error']}")
        tr = H.translate_fragment(name, emitted2[name]["cpp"], sp["opaque"])
        texts2.append(tr["py"])
        if sp["dev"] == "dc" and sp["op"] in ("set_speed", "invert", "backward"):
            # the same translated text under a second name, for the unrestricted mode clause (known finding)
            texts2.append(tr["py"].replace(f"def {tr['pyname']}(", f"def {tr['pyname']}__mode_all("))
        info[name] = tr
    FW2 = H.register_module("c04_fw2.py", texts2)
    for nm in ("digitalWrite", "analogWrite", "delay"):
        cc = reg.lookup(FW, nm)
        reg.contracts[(FW2, nm)] = cc
    reg.unit("Servo.write", "<extern>", extern=True, public=False, params={"value": "int"}, modifies=["ghost.E"],
             ensures=["E == old(E) + [ev(5, 0, value)]"], note="ASSUMED (Servo library): command angle in degrees")
    reg.unit("Servo.writeMicroseconds", "<extern>", extern=True, public=False, params={"value": "int"}, modifies=["ghost.E"],
             ensures=["E == old(E) + [ev(6, 0, value)]"], note="ASSUMED (Servo library): command pulse width")
    gk = {}
    for name in more:
        gk.update(info[name]["globals"])
    for g, kind in gk.items():
        reg.globs[(FW2, g)] = "ext:Servo" if kind == "obj" else kind
    rp = ("__pr", "__pg", "__pb")
    rs = sf["rgb"]("__rgb_red_rgb", "__rgb_green_rgb", "__rgb_blue_rgb", "__rgb_state_rgb", rp)
    mp = ("__in1", "__in2", "__en")
    ms = sf["dc"]("__dc_speed_m", "__dc_inverted_m", "__dc_mode_m", mp)
    distinct = lambda p: [f"0 <= {x} <= 255" for x in p] + [f"{p[0]} != {p[1]} and {p[0]} != {p[2]} and {p[1]} != {p[2]}"]
    for name, sp in more.items():
        tr = info[name]
        ranges = [f"-32768 <= {p} <= 32767" for p, k in tr["params"] if k == "int"]
        if sp["dev"] == "rgbfade":
            FWV = lambda cc, tt, ii: f"fwfade({cc}, {tt}, {ii}, steps)"
            ch = [("red", "__rgb_red_rgb", "__redu_start_red", "__redu_target_red"), ("green", "__rgb_green_rgb", "__redu_start_green", "__redu_target_green"),
                  ("blue", "__rgb_blue_rgb", "__redu_start_blue", "__redu_target_blue")]
            inv = ["0 <= __rgb_red_rgb <= 255", "0 <= __rgb_green_rgb <= 255", "0 <= __rgb_blue_rgb <= 255"]
            linv = ["1 <= __redu_i <= steps + 1", "k == __redu_i - 1", "__redu_steps == steps",
                    "implies(k > 0, __rgb_state_rgb == (__rgb_red_rgb > 0 or __rgb_green_rgb > 0 or __rgb_blue_rgb > 0))"]
            for n, g, s0, t0 in ch:
                linv += [f"{s0} == old({g})", f"{t0} == {n}", f"{g} == ite(k == 0, old({g}), {FWV(f'old({g})', n, 'k')})", f"0 <= {g} <= 255"]
            V4 = {"c": "int", "t": "int", "i": "int", "s": "int"}
            HY = "0 <= c <= 255 and 0 <= t <= 255 and 1 <= s and s <= 32766 and 1 <= i <= s"
            lem = [("fwfade-in-range", V4, f"implies({HY}, 0 <= fwfade(c, t, i, s) <= 255)"),
                   ("fwfade-ends-on-target", V4, f"implies({HY} and i == s, fwfade(c, t, i, s) == t)"),
                   ("fwfade-is-round-half-away", V4, f"implies({HY}, fwfade(c, t, i, s) == c + rha_div((t - c) * i, s))"),
                   # host rounds half-even, firmware half-away: the two agree except on exact ties (2x an odd integer)
                   ("round-half-away-equals-half-even-off-ties", {"x": "real"},
                    "implies(x - floor(x) != 0.5, rha(x) == rhe(x))")]
            uses = [("fwfade-in-range", {"c": f"old({g})", "t": n, "i": "__redu_i", "s": "steps"}) for n, g, _, _ in ch]
            uexit = [("fwfade-ends-on-target", {"c": f"old({g})", "t": n, "i": "steps", "s": "steps"}) for n, g, _, _ in ch]
            reg.unit(tr["pyname"], FW2, params=dict(tr["params"]), public=False,
                     requires=distinct(rp) + ranges + inv + ["0 <= red <= 255", "0 <= green <= 255", "0 <= blue <= 255",
                                                             "1 <= steps <= 32766", "duration_ms >= 0"],
                     modifies=["glob.__rgb_red_rgb", "glob.__rgb_green_rgb", "glob.__rgb_blue_rgb", "glob.__rgb_state_rgb", "ghost.E", "ghost.cur"],
                     loops={0: {"inv": linv, "use": uses, "use_exit": uexit}}, lemmas=lem, feas_timeout_ms=300,
                     ensures=["__rgb_red_rgb == red", "__rgb_green_rgb == green", "__rgb_blue_rgb == blue",
                              "__rgb_state_rgb == (red > 0 or green > 0 or blue > 0)"],
                     note=f"firmware fade: per-step value is round-half-away(delta*i/steps) in integer arithmetic; host rounds half-even "
                          f"(differs only on exact ties: lemma); C++ sha256 {tr['sha'][:16]}")
        elif sp["dev"] == "rgb":
            s = rs[sp["op"]]
            inv = ["0 <= __rgb_red_rgb <= 255", "0 <= __rgb_green_rgb <= 255", "0 <= __rgb_blue_rgb <= 255"]
            reg.unit(tr["pyname"], FW2, params=dict(tr["params"]), public=False, requires=distinct(rp) + ranges + inv + s["requires"],
                     modifies=["glob.__rgb_red_rgb", "glob.__rgb_green_rgb", "glob.__rgb_blue_rgb", "glob.__rgb_state_rgb", "ghost.E", "ghost.cur"],
                     ensures=s["ensures"], note=f"firmware fragment; C++ sha256 {tr['sha'][:16]}")
        elif sp["dev"] == "dc":
            s = ms[sp["op"]]
            ens = list(s["ensures"])
            reg.unit(tr["pyname"], FW2, params=dict(tr["params"]), public=False,
                     requires=distinct(mp) + ranges + ["-1 <= __dc_speed_m <= 1"],
                     modifies=["glob.__dc_speed_m", "glob.__dc_inverted_m", "glob.__dc_mode_m", "ghost.E", "ghost.cur"],
                     ensures=ens + ([f"implies(not ({s['tiny']}), {s['mode']})"] if "mode" in s else []),
                     note=f"firmware fragment; C++ sha256 {tr['sha'][:16]}")
            if "mode" in s:
                # the unrestricted mode clause: known to fail for 0 < |speed| < 1/510 (reported as a known finding)
                reg.unit(tr["pyname"] + "__mode_all", FW2, params=dict(tr["params"]), public=False,
                         requires=distinct(mp) + ranges + ["-1 <= __dc_speed_m <= 1"],
                         modifies=["glob.__dc_speed_m", "glob.__dc_inverted_m", "glob.__dc_mode_m", "ghost.E", "ghost.cur"],
                         ensures=[s["mode"]], probe=True, note="same fragment, mode clause without the tiny-speed carve-out")
        else:
            o = "__servo_"
            cfg = ["__servo_min_angle_s < __servo_max_angle_s", "__servo_min_pulse_s < __servo_max_pulse_s"]
            mod = ["glob.__servo_angle_s", "glob.__servo_pulse_s", "ghost.E"]
            if sp["op"] == "write":
                reg.unit(tr["pyname"], FW2, params=dict(tr["params"]), public=False,
                         requires=cfg + ["__servo_min_angle_s <= angle <= __servo_max_angle_s", "-32000 <= angle <= 32000"],
                         modifies=mod, ensures=["__servo_angle_s == angle",
                                                "__servo_pulse_s == " + sf["amap"]("angle", "__servo").replace("_min_pulse", "_min_pulse_s").replace("_max_pulse", "_max_pulse_s").replace("_min_angle", "_min_angle_s").replace("_max_angle", "_max_angle_s"),
                                                "E == old(E) + [ev(5, 0, trunc(angle + 0.5))]"])
            else:
                reg.unit(tr["pyname"], FW2, params=dict(tr["params"]), public=False,
                         requires=cfg + ["__servo_min_pulse_s <= pulse <= __servo_max_pulse_s", "-32000 <= pulse <= 32000"],
                         modifies=mod, ensures=["__servo_pulse_s == pulse",
                                                "__servo_angle_s == " + sf["pmap"]("pulse", "__servo").replace("_min_pulse", "_min_pulse_s").replace("_max_pulse", "_max_pulse_s").replace("_min_angle", "_min_angle_s").replace("_max_angle", "_max_angle_s"),
                                                "E == old(E) + [ev(6, 0, trunc(pulse + 0.5))]"])
    _BUILD["info"] = {k: {"sha": v["sha"], "prims": v["prims"], "externs": v["externs"]} for k, v in info.items()}
    _BUILD["replay"] = {}
    for k, v in info.items():
        sp = specs.get(k) or more.get(k)
        _BUILD["replay"][v["pyname"]] = (v, sp["opaque"], sp.get("where", "setup"), FW if k in specs else FW2)
    return reg


def replay_model(o):
    """replay a counterexample of a fragment contract on the really emitted C++ (globals at the end of the fragment; the level-change
    trace of this property's event vocabulary is not compared, only plain events are)"""
    from cxxvc import fwreplay
    from pyvc import loader
    unit = o["name"].split("/")[1].split("[")[0]
    base = unit[:-len("__mode_all")] if unit.endswith("__mode_all") else unit
    if base not in _BUILD.get("replay", {}):
        return None
    tr, opaque, where, file = _BUILD["replay"][base]
    reg = build()
    mods = loader.load(sorted({f for (f, _) in reg.contracts if f != "<extern>"}))
    return fwreplay.replay(reg, mods, file, unit, tr, opaque, where, o.get("model") or {}, o["name"], engine_setup=engine_setup, compare_events=False)


def extra_obligations(mods, tier, seed):
    """end-to-end complement of the fragment contracts: literal arguments through the real parser, host getters vs firmware getters
    and delays (BOUNDED; the fragment proofs bypass the parser's argument resolution by construction)"""
    from progs import devdiff
    out = devdiff.obligations("C04/diff", devdiff.actuator_scripts(), what="getter values and delays equal the host class's under CPython")
    # arguments that NAME a variable whose value changed in a nested body (the parser must not bake the variable's first value in)
    VARARG = {
        "motor-speed-accumulated-in-for": "m = DCMotor(5, 6, 9)\nspeed = 0.25\nfor i in range(2):\n    speed = speed + 0.25\nm.set_speed(speed)\nmon.write(m.get_speed())\nmon.write(m.get_applied_speed())\n",
        "motor-speed-changed-in-main-loop": "m = DCMotor(5, 6, 9)\nb = 0.125\nwhile True:\n    b += 0.125\n    m.set_speed(b)\n    mon.write(m.get_speed())\n    sleep(5)\n",
        "motor-backward-after-branch": "m = DCMotor(5, 6, 9)\nv = 0.5\nc = 1\nif c > 0:\n    v = 0.75\nm.backward(v)\nmon.write(m.get_speed())\n",
        "motor-ramp-target-changed-in-for": "m = DCMotor(5, 6, 9)\nt = 0.25\nfor i in range(2):\n    t = t + 0.25\nm.ramp(t, 40, 4)\nmon.write(m.get_speed())\n",
        "motor-run-for-duration-changed-in-while": "m = DCMotor(5, 6, 9)\nd = 10\nk = 0\nwhile k < 2:\n    d = d + 15\n    k = k + 1\nm.run_for(d, 0.5)\nmon.write(m.get_speed())\n",
        "servo-angle-changed-in-while": "s = Servo(9)\nangle = 10\nk = 0\nwhile k < 3:\n    angle = angle + 20\n    k = k + 1\ns.write(angle)\nmon.write(s.read())\n",
        "led-brightness-changed-in-for": "led = Led(9)\nlevel = 10\nfor i in range(3):\n    level = level + 40\nled.set_brightness(level)\nmon.write(led.get_brightness())\n",
        "led-blink-duration-changed-in-branch": "led = Led(9)\nd = 10\nc = 1\nif c > 0:\n    d = 35\nled.blink(d, 2)\nmon.write(led.get_state())\n",
        "rgb-colour-changed-in-for": "rgb = RGBLed(9, 10, 11)\nr = 10\nfor i in range(2):\n    r = r + 50\nrgb.set_color(r, 20, 30)\nmon.write(r)\n",
    }
    out += devdiff.obligations("C04/diff/variable-argument", {k: devdiff.IMPORTS + v for k, v in VARARG.items()},
                               what="an argument naming a variable changed in a nested body has its run-time value: getters and delays equal the host class's")
    # seeded generated device programs (fixed seeds): random command sequences with literal / variable / expression arguments, positional or
    # keyword, under branches, loops, a helper and the main loop
    import time as _time
    from progs import gen_dev
    t_gen = _time.time()
    gen_progs = {}
    for gs, count in ((0, 60),) if tier != "thorough" else ((0, 150), (1, 150), (2, 150), (3, 150)):
        gen_progs.update(gen_dev.programs(count, seed=gs))
    gres = devdiff.run(gen_progs)
    gbad = [r for r in gres if r["verdict"] not in ("same", "rejected", "python-undefined") and not r["verdict"].startswith("harness")]
    gharness = [r for r in gres if r["verdict"].startswith("harness")]
    out.append({"name": "C04/diff/generated-device-programs", "status": "discharged" if not gbad and not gharness else ("sat" if gbad else "unknown"), "backend": "bounded-differential", "bounded": True,
                "where": f"{len(gen_progs)} generated device programs (fixed seeds): getter values and delays equal the host class's under CPython "
                         f"[{sum(1 for r in gres if r['verdict'] == 'same')} same, {sum(1 for r in gres if r['verdict'] in ('rejected', 'python-undefined'))} outside the comparison]",
                "time": round(_time.time() - t_gen, 2), "replay": {"failing": [{k: r.get(k) for k in ("name", "verdict", "first_difference", "script")} for r in gbad[:3]]},
                "replay_confirmed": bool(gbad)})
    from progs.concat import concat_obligations
    out += concat_obligations("C04", {
        "Led": ("d = Led(9)", ["d.on()", "d.off()", "d.toggle()", "d.set_brightness(77)", "d.blink(20, 2)", "d.fade_in(50, 3)", "d.flash_pattern([1, 0], 10)"]),
        "RGBLed": ("d = RGBLed(9, 10, 11)", ["d.set_color(1, 2, 3)", "d.on()", "d.off()", "d.blink(9, 9, 9, 2, 10)", "d.fade(10, 20, 30, 100, 4)"]),
        "Servo": ("d = Servo(6)", ["d.write(90)", "d.write_us(1500)", "d.write(10.5)"]),
        "DCMotor": ("d = DCMotor(2, 3, 5)", ["d.set_speed(0.5)", "d.backward()", "d.stop()", "d.coast()", "d.invert()", "d.ramp(1.0, 100)", "d.run_for(50, 0.5)"])})
    from progs.concat import scope_obligations
    out += scope_obligations("C04", {
        "Led": ("d = Led(9)", ["d.on()", "d.off()", "d.toggle()", "d.set_brightness(77)", "d.blink(20, 2)", "d.fade_in(50, 3)", "d.flash_pattern([1, 0], 10)"]),
        "RGBLed": ("d = RGBLed(9, 10, 11)", ["d.set_color(1, 2, 3)", "d.on()", "d.off()", "d.blink(9, 9, 9, 2, 10)", "d.fade(10, 20, 30, 100, 4)"]),
        "Servo": ("d = Servo(6)", ["d.write(90)", "d.write_us(1500)", "d.write(10.5)"]),
        "DCMotor": ("d = DCMotor(2, 3, 5)", ["d.set_speed(0.5)", "d.backward()", "d.stop()", "d.coast()", "d.invert()", "d.ramp(1.0, 100)", "d.run_for(50, 0.5)"])})
    PROPERTY.setdefault("bounded", [])
    PROPERTY["bounded"] = [b for b in PROPERTY["bounded"] if b.get("check") != "device differential"] + [
        {"check": "device differential", "bound": f"{len(out)} scripts (Led, RGBLed, Servo, DCMotor commands with literal positional/keyword arguments), setup() + 2 passes"}]
    return out


def extra_evidence():
    return {"firmware_fragments": _BUILD.get("info"), "translation_drops": "see cxxvc/cxx2py.py docstring", "bounded": PROPERTY.get("bounded", [])}
