"""C20 - Core pin memory, Utils, sensors, SerialMonitor (sidecar contracts; /repo untouched)."""
from pyvc.contracts import Registry
from pyvc import sampler

NUM = "int|real|bool"
PIN = "int|str"
CORE = "Reduino/Core/__init__.py"
UTILS = "Reduino/Utils/__init__.py"
BUTTON = "Reduino/Sensors/Button.py"
POT = "Reduino/Sensors/Potentiometer.py"
ULTRA = "Reduino/Sensors/Ultrasonic.py"
SERIAL = "Reduino/Communication/SerialMonitor.py"
LAWS = "@verif/lemmas/c20_laws.py"
X = "<extern>"

PROPERTY = {
    "level": "proof",
    "expect_min_obligations": 800,
    "explanation": "Core pin functions are proved to implement a memory over the three module dictionaries (whole-view "
                   "postconditions: the touched key gets the stated value, every other key and both other dictionaries are "
                   "unchanged), with keys normalised so that 7 and '7' coincide; read-your-writes, non-interference and "
                   "pull-up laws are then lemmas over those contracts (client programs in /verif/lemmas verified modularly). "
                   "Utils.map/sleep, Button.is_pressed/set_pressed, Potentiometer.read, UltrasonicSensor.measure_distance and "
                   "SerialMonitor.write/close are proved against exact raise conditions and posts with ghost call logs for the "
                   "injected callables and the serial backend.",
    "trusted_base": ["pyvc symbolic executor and its encoding of Python (dict as array+domain, str via z3 strings)",
                     "z3/cvc5 unsat answers", "CPython ast module"],
    "assumptions": [
        "A-REAL: floats are reals; NaN/inf excluded",
        "A-ASCII: str.isdigit() is modelled as 'non-empty, all ASCII 0-9' and int() of such a string as its decimal value "
        "(Unicode digit strings such as '²' are excluded inputs)",
        "pin names are int or str, modes are str, numeric arguments are int/float/bool",
        "injected callables (sleep_func, on_click, state/value/distance providers) and the pyserial object are external: "
        "ASSUMED contracts (they return a value, do not raise, touch only their own ghost log)",
        "format(v, '') == str(v) for the builtin scalar written to SerialMonitor; str() of a float/opaque value is an uninterpreted function (same on both sides)",
        "Button rising-edge count over a whole signal follows by induction over calls; the step (one is_pressed call) is what is proved",
        "HCSR04UltrasonicSensor inherits measure_distance unchanged (checked syntactically each run)",
        "SerialMonitor.read/connect and the Ultrasonic() factory are not under contract (not part of the property statement)",
    ],
}


# ---------------------------------------------------------------------------- spec functions (symbolic side)
def engine_setup(eng):
    import z3
    from pyvc.sym import V, INT, STR, BOOL, REF, vbool, vint, as_int_term, SpecError
    from pyvc.state import Map
    from pyvc.pyval import PyKey, key_of

    def cell(st, m):
        if m.k == "cell":
            return m.t
        return st.heap[m.t]

    def pinkey(e, st, pin):
        if pin.k == STR:
            dig = z3.InRe(pin.t, z3.Plus(z3.Range("0", "9")))
            return V("pykey", z3.If(dig, PyKey.IntKey(z3.StrToInt(pin.t)), PyKey.StrKey(pin.t)))
        return V("pykey", key_of(pin))

    def has(e, st, m, k):
        return vbool(z3.Select(cell(st, m).dom, k.t))

    def at(e, st, m, k):
        c = cell(st, m)
        return V(c.vk, z3.Select(c.arr, k.t))

    def is_store(e, st, new, old, k, v):
        cn, co = cell(st, new), cell(st, old)
        val = as_int_term(v) if co.vk == INT else v.t
        return vbool(z3.And(cn.arr == z3.Store(co.arr, k.t, val), cn.dom == z3.Store(co.dom, k.t, z3.BoolVal(True))))

    def same_map(e, st, a, b):
        ca, cb = cell(st, a), cell(st, b)
        return vbool(z3.And(ca.arr == cb.arr, ca.dom == cb.dom))

    def same_entry(e, st, a, b, k):
        ca, cb = cell(st, a), cell(st, b)
        return vbool(z3.And(z3.Select(ca.dom, k.t) == z3.Select(cb.dom, k.t),
                            z3.Implies(z3.Select(ca.dom, k.t), z3.Select(ca.arr, k.t) == z3.Select(cb.arr, k.t))))

    def same_key(e, st, a, b):
        return vbool(a.t == b.t)

    def truthy(e, st, v):
        return vbool(list(e.truth(v, st))[0][1])

    eng.spec_funcs.update(pinkey=pinkey, has=has, at=at, is_store=is_store, same_map=same_map,
                          same_entry=same_entry, same_key=same_key, truthy=truthy)
    eng.extern_names["time"] = V("module", "time")
    eng.module_attrs["time.sleep"] = V("fn", ("extfn", "time.sleep"))
    eng.ext_attrs["serial.is_open"] = lambda st, base: st.ghost["serial_open"]


def build():
    reg = Registry()
    # ghosts: logs of the external callables
    for g, k in (("time_calls", "int"), ("time_last", "real"), ("inj_calls", "int"), ("inj_last", "real"),
                 ("clicks", "int"), ("provider_calls", "int"), ("next_state", "bool"), ("next_pot", "real"),
                 ("next_dist", "real"), ("serial_open", "bool"), ("wire", "str"), ("serial_closes", "int")):
        reg.ghost(g, k)

    # ------------------------------------------------------------------ Core
    for name, vk in (("_pin_modes", "str"), ("_digital_values", "int"), ("_analog_values", "int")):
        reg.globs[(CORE, name)] = "map:" + vk
        reg.globs[(LAWS, name)] = "map:" + vk
    reg.unit("_normalise_pin", CORE, inline=True, public=False)
    K = "pinkey(pin)"
    D, A, M = "_digital_values", "_analog_values", "_pin_modes"
    reg.unit("pin_mode", CORE, params={"pin": PIN, "mode": "str"},
             modifies=["glob._pin_modes"],
             ensures=[f"is_store({M}, old({M}), {K}, mode)"],
             note="the property treats pin_mode as configuration only: it never stores a level")
    reg.unit("digital_write", CORE, params={"pin": PIN, "value": NUM},
             modifies=["glob._digital_values"],
             ensures=[f"is_store({D}, old({D}), {K}, ite(truthy(value), 1, 0))"])
    reg.unit("analog_write", CORE, params={"pin": PIN, "value": NUM},
             modifies=["glob._analog_values"],
             ensures=[f"is_store({A}, old({A}), {K}, max(0, min(255, rhe(real(value)))))"])
    reg.unit("digital_read", CORE, params={"pin": PIN}, returns="int",
             ensures=[f"result == ite(has({D}, {K}), at({D}, {K}), ite(has({M}, {K}) and at({M}, {K}) == 'INPUT_PULLUP', 1, 0))"])
    reg.unit("analog_read", CORE, params={"pin": PIN}, returns="int",
             ensures=[f"result == ite(has({A}, {K}), at({A}, {K}), 0)"])

    # laws over the contracts (client programs; calls are resolved to the contracts above)
    wf = [f"implies(has({A}, pinkey(q)), 0 <= at({A}, pinkey(q)) <= 255)"]
    reg.unit("law_digital_write_then_read", LAWS, params={"p": PIN, "q": PIN, "v": NUM}, returns="int",
             requires=["same_key(pinkey(p), pinkey(q))"],
             modifies=["glob._digital_values"], ensures=["result == ite(truthy(v), 1, 0)"])
    reg.unit("law_analog_write_then_read", LAWS, params={"p": PIN, "q": PIN, "v": NUM}, returns="int",
             requires=["same_key(pinkey(p), pinkey(q))"],
             modifies=["glob._analog_values"],
             ensures=["result == max(0, min(255, rhe(real(v))))", "0 <= result <= 255"])
    reg.unit("law_other_pin_untouched_digital", LAWS, params={"p": PIN, "q": PIN, "v": NUM}, returns="(int,int)",
             requires=["not same_key(pinkey(p), pinkey(q))"],
             modifies=["glob._digital_values", "glob._analog_values"], ensures=["result[0] == result[1]"])
    reg.unit("law_other_pin_untouched_analog", LAWS, params={"p": PIN, "q": PIN, "v": NUM}, returns="(int,int)",
             requires=["not same_key(pinkey(p), pinkey(q))"],
             modifies=["glob._digital_values", "glob._analog_values"], ensures=["result[0] == result[1]"])
    reg.unit("law_pin_mode_is_not_a_write", LAWS, params={"p": PIN, "q": PIN, "m": "str", "v": NUM}, returns="int",
             modifies=["glob._digital_values", "glob._pin_modes"], ensures=["result == ite(truthy(v), 1, 0)"])
    reg.unit("law_unwritten_pullup_reads_high", LAWS, params={"p": PIN, "m1": "str", "m2": "str"}, returns="int",
             requires=[f"not has({D}, pinkey(p))"],
             modifies=["glob._digital_values", "glob._pin_modes"],
             ensures=["result == ite(m2 == 'INPUT_PULLUP', 1, 0)"])

    # ------------------------------------------------------------------ Utils
    reg.unit("time.sleep", X, extern=True, params={"seconds": NUM}, public=False,
             modifies=["ghost.time_calls", "ghost.time_last"],
             ensures=["time_calls == old(time_calls) + 1", "time_last == seconds"], returns="none")
    reg.unit("sleep_func", X, extern=True, params={"seconds": NUM}, public=False,
             modifies=["ghost.inj_calls", "ghost.inj_last"],
             ensures=["inj_calls == old(inj_calls) + 1", "inj_last == seconds"], returns="none")
    reg.unit("sleep", UTILS, params={"duration": NUM, "sleep_func": "fn:sleep_func|none"},
             raises={"ValueError": "duration < 0"},
             modifies=["ghost.time_calls", "ghost.time_last", "ghost.inj_calls", "ghost.inj_last"],
             ensures=["implies(is_none(sleep_func), time_calls == old(time_calls) + 1 and time_last == real(duration) / 1000 "
                      "and inj_calls == old(inj_calls) and inj_last == old(inj_last))",
                      "implies(not is_none(sleep_func), inj_calls == old(inj_calls) + 1 and inj_last == real(duration) / 1000 "
                      "and time_calls == old(time_calls) and time_last == old(time_last))"])
    reg.unit("map", UTILS, params={p: NUM for p in ("value", "from_low", "from_high", "to_low", "to_high")},
             raises={"ValueError": "from_low == from_high"}, returns="real",
             ensures=["(result - to_low) * (from_high - from_low) == (value - from_low) * (to_high - to_low)",
                      "implies(value == from_low, result == to_low)", "implies(value == from_high, result == to_high)"])

    # ------------------------------------------------------------------ Button
    reg.cls("Button", BUTTON, fields={"pin": "int|bool", "_on_click": "fn:on_click|none",
                                      "_state_provider": "fn:state_provider|none",
                                      "_pressed": "bool", "_was_pressed": "bool"}, inv=[])
    reg.unit("on_click", X, extern=True, public=False, modifies=["ghost.clicks"],
             ensures=["clicks == old(clicks) + 1"], returns="none")
    reg.unit("state_provider", X, extern=True, public=False,
             modifies=["ghost.provider_calls", "ghost.next_state"], returns="bool|int",
             ensures=["provider_calls == old(provider_calls) + 1", "truthy(result) == old(next_state)"])
    reg.unit("Button.__init__", BUTTON, is_init=True,
             params={"pin": NUM, "on_click": "fn:on_click|none", "state_provider": "fn:state_provider|none"},
             raises={"TypeError": "not is_int(pin)"},
             ensures=["self._pressed == False", "self._was_pressed == False"])
    reg.unit("Button.set_pressed", BUTTON, params={"pressed": NUM}, modifies=["self._pressed"],
             ensures=["self._pressed == truthy(pressed)"])
    PRESSED = "ite(is_none(self._state_provider), old(self._pressed), old(next_state))"
    reg.unit("Button.is_pressed", BUTTON, returns="int",
             modifies=["self._was_pressed", "ghost.clicks", "ghost.provider_calls", "ghost.next_state"],
             ensures=[f"result == ite({PRESSED}, 1, 0)", f"self._was_pressed == {PRESSED}",
                      f"clicks == old(clicks) + ite({PRESSED} and not old(self._was_pressed) and not is_none(self._on_click), 1, 0)",
                      "provider_calls == old(provider_calls) + ite(is_none(self._state_provider), 0, 1)"])

    # ------------------------------------------------------------------ Potentiometer / Ultrasonic
    reg.cls("Potentiometer", POT, fields={"pin": "str", "_value_provider": "fn:value_provider|none"}, inv=[])
    reg.unit("value_provider", X, extern=True, public=False, modifies=["ghost.next_pot"], returns=NUM,
             ensures=["real(result) == old(next_pot)"])
    reg.unit("Potentiometer.read", POT, returns="int",
             raises={"ValueError": "not is_none(self._value_provider) and (trunc(next_pot) < 0 or trunc(next_pot) > 1023)"},
             atomic=False, modifies=["ghost.next_pot"],
             ensures=["result == ite(is_none(self._value_provider), 0, trunc(old(next_pot)))", "0 <= result <= 1023"])
    reg.cls("UltrasonicSensor", ULTRA, fields={"trig": "int|bool", "echo": "int|bool",
                                               "_distance_provider": "fn:distance_provider|none",
                                               "_default_distance": "real"}, inv=[])
    reg.unit("distance_provider", X, extern=True, public=False, modifies=["ghost.next_dist"], returns=NUM,
             ensures=["real(result) == old(next_dist)"])
    reg.unit("UltrasonicSensor.measure_distance", ULTRA, returns="real",
             raises={"ValueError": "ite(is_none(self._distance_provider), self._default_distance, next_dist) < 0"},
             atomic=False, modifies=["ghost.next_dist"],
             ensures=["result == ite(is_none(self._distance_provider), self._default_distance, old(next_dist))",
                      "result >= 0"])

    # ------------------------------------------------------------------ SerialMonitor
    reg.cls("SerialMonitor", SERIAL, fields={"baud_rate": "int", "port": "str|none", "timeout": "real|int",
                                             "newline": "str", "_serial": "ext:serial|none"}, inv=[])
    reg.unit("serial.write", X, extern=True, public=False, params={"data": "str"},
             modifies=["ghost.wire"], ensures=["wire == old(wire) + data"], returns="int")
    reg.unit("serial.close", X, extern=True, public=False,
             modifies=["ghost.serial_open", "ghost.serial_closes"],
             ensures=["serial_open == False", "serial_closes == old(serial_closes) + 1"], returns="none")
    # the constructor without a port (with a port it calls connect(), which is not under contract): the monitor keeps exactly what it was given -
    # in particular the terminator that write() appends, also when it is the empty string
    reg.unit("SerialMonitor.__init__", SERIAL, is_init=True,
             params={"baud_rate": "int", "port": "none", "timeout": "real|int", "newline": "str"},
             raises={"ValueError": "baud_rate <= 0"},
             ensures=["self.baud_rate == baud_rate", "is_none(self.port)", "self.timeout == timeout", "self.newline == newline", "is_none(self._serial)"])
    reg.unit("SerialMonitor.write", SERIAL, params={"value": "int|real|bool|str|none|any"}, returns="str",
             modifies=["ghost.wire"],
             ensures=["result == str(value)",
                      "wire == ite(not is_none(self._serial) and serial_open, old(wire) + str(value) + self.newline, old(wire))"])
    reg.unit("SerialMonitor.close", SERIAL, modifies=["self._serial", "ghost.serial_open", "ghost.serial_closes"],
             ensures=["is_none(self._serial)",
                      "serial_closes == old(serial_closes) + ite(not is_none(old(self._serial)) and old(serial_open), 1, 0)",
                      "implies(not is_none(old(self._serial)), serial_open == False)"])
    return reg


# ---------------------------------------------------------------------------- native side (CPython, real code)
def _pinkey(pin):
    if isinstance(pin, str) and pin.isdigit():
        return int(pin)
    return pin


def _make_fn(desc, ghost):
    name = desc["$fn"]
    if name == "sleep_func":
        def f(seconds):
            ghost.inj_calls += 1
            ghost.inj_last = seconds
        return f
    if name == "on_click":
        def f():
            ghost.clicks += 1
        return f
    if name == "state_provider":
        def f():
            ghost.provider_calls += 1
            v = ghost.next_state
            ghost.next_state = not v
            return v
        return f
    if name == "value_provider":
        def f():
            v = ghost.next_pot
            ghost.next_pot = v + 1
            return int(v) if float(v).is_integer() else v
        return f
    if name == "distance_provider":
        def f():
            v = ghost.next_dist
            ghost.next_dist = v + 1
            return v
        return f
    raise KeyError(name)


class _FakeSerial:
    def __init__(self, ghost):
        self.g = ghost

    @property
    def is_open(self):
        return self.g.serial_open

    def write(self, data):
        self.g.wire = self.g.wire + data.decode("utf-8")
        return len(data)

    def close(self):
        self.g.serial_open = False
        self.g.serial_closes += 1


_MAPS = ("_pin_modes", "_digital_values", "_analog_values")


def _setup(mod, job, ghost, env):
    if hasattr(mod, "_pin_modes"):
        for n in _MAPS:
            d = getattr(mod, n)
            d.clear()
            for k, v in (job.get("globs") or {}).get(n, []) or []:
                d[k] = v
    elif mod.__name__.endswith("c20_laws") or job["file"].startswith("@verif"):
        import Reduino.Core as core
        for n in _MAPS:
            d = getattr(core, n)
            d.clear()
            for k, v in (job.get("globs") or {}).get(n, []) or []:
                d[k] = v


def _core():
    import Reduino.Core as core
    return core


def _snapshot(mod, ghost):
    core = _core()
    return {"__old_" + n: dict(getattr(core, n)) for n in _MAPS}


def _snapshot_cur(mod, ghost):
    core = _core()
    return {n: getattr(core, n) for n in _MAPS}


def _frame(mod, c, old, ghost, failed, checked, label, everything=False):
    core = _core()
    for n in _MAPS:
        if not everything and f"glob.{n}" in c.modifies:
            continue
        checked.append(f"{label}/glob.{n}")
        if dict(getattr(core, n)) != old["__old_" + n]:
            failed.append({"clause": f"{label}/glob.{n}"})


def _on_time_sleep(ghost, seconds):
    ghost.time_calls += 1
    ghost.time_last = seconds


NATIVE_HOOKS = {
    "make_fn": _make_fn,
    "make_ext": lambda desc, ghost: _FakeSerial(ghost),
    "setup": _setup, "snapshot": _snapshot, "snapshot_cur": _snapshot_cur, "frame": _frame,
    "on_time_sleep": _on_time_sleep,
    "spec_env": {
        "pinkey": _pinkey,
        "has": lambda m, k: k in m,
        "at": lambda m, k: m.get(k),
        "is_store": lambda new, old, k, v: dict(new) == {**old, k: v},
        "same_map": lambda a, b: dict(a) == dict(b),
        "same_entry": lambda a, b, k: (k in a) == (k in b) and (k not in a or a[k] == b[k]),
        "same_key": lambda a, b: a == b and type(a) is type(b) or (isinstance(a, int) and isinstance(b, int) and a == b),
        "truthy": bool,
    },
}


def native_samples(reg, rnd, n):
    pins = [7, "7", 0, "0", "A0", "13", 13, 2, "x", ""]
    modes = ["INPUT", "OUTPUT", "INPUT_PULLUP"]

    def globs():
        g = {}
        for name, vals in (("_pin_modes", modes), ("_digital_values", [0, 1]), ("_analog_values", [0, 17, 255])):
            g[name] = [[_pinkey(rnd.choice(pins)), rnd.choice(vals)] for _ in range(rnd.randint(0, 3))]
        return g
    pools = {q: {"pin": pins, "p": pins, "q": pins, "mode": modes, "m": modes, "m1": modes, "m2": modes}
             for q in ("pin_mode", "digital_write", "analog_write", "digital_read", "analog_read",
                       "law_digital_write_then_read", "law_analog_write_then_read", "law_other_pin_untouched_digital",
                       "law_other_pin_untouched_analog", "law_pin_mode_is_not_a_write", "law_unwritten_pullup_reads_high")}

    def fn_or_none(name):
        return rnd.choice([None, {"$fn": name}])
    samplers = {
        "Button": lambda r: {"pin": 3, "_on_click": fn_or_none("on_click"), "_state_provider": fn_or_none("state_provider"),
                             "_pressed": r.random() < 0.5, "_was_pressed": r.random() < 0.5},
        "Potentiometer": lambda r: {"pin": "A0", "_value_provider": fn_or_none("value_provider")},
        "UltrasonicSensor": lambda r: {"trig": 2, "echo": 3, "_distance_provider": fn_or_none("distance_provider"),
                                       "_default_distance": {"real": r.choice(["0", "5/2", "400"])}},
        "SerialMonitor": lambda r: {"baud_rate": 9600, "port": r.choice([None, "COM3"]), "timeout": 1,
                                    "newline": r.choice(["\n", "\r\n", ""]),
                                    "_serial": r.choice([None, {"$ext": "serial"}])},
    }
    jobs = sampler.jobs_for(reg, rnd, n, state_samplers=samplers, pools=pools)
    for j in jobs:
        j["globs"] = globs()
        j["ghost"] = {"next_state": rnd.random() < 0.5, "next_pot": rnd.choice([-1.0, 0.0, 512.0, 1023.0, 1023.5, 1024.0]),
                      "next_dist": rnd.choice([-0.5, 0.0, 12.25]), "serial_open": rnd.random() < 0.6,
                      "wire": rnd.choice(["", "abc\n"]), "clicks": rnd.choice([0, 4])}
        if j["unit"] == "SerialMonitor.write":
            j["params"]["value"] = rnd.choice([0, 17, -3, True, "ping", "line\n", None, {"real": "5/2"}, "\u00e9" * 32, "x" * 60 + "\u00b0\u00b0\u00b0", "\u6e29\u5ea6" * 12, "a" * 200,
                                               "\u00e9" * 33 + "tail", "", "\u20ac" * 22])
        if j["unit"] == "sleep":
            j["params"]["sleep_func"] = fn_or_none("sleep_func")
        if j["unit"] == "Button.__init__":
            j["params"]["on_click"] = fn_or_none("on_click")
            j["params"]["state_provider"] = fn_or_none("state_provider")
    # map(): narrow windows at large offsets, reversed and negative ranges, equal bounds (corner cases of the affine law)
    tmpl = next((j for j in jobs if j["unit"] == "map"), None)
    if tmpl is not None:
        import copy
        # integer corners only: the native clause evaluator compares floats with a relative tolerance, which would itself blur narrow windows
        corner = [(10**9 + 1, 10**9, 10**9 + 2, 0, 10), (2**31, 2**31 - 1, 2**31 + 1, -1, 1), (5, 10, 0, 0, 100), (-3, -10, -2, 1, 2),
                  (7, 7, 7, 0, 1), (1700000000, 1700000000, 1700000001, 0, 255), (-10**12, -10**12 - 1, -10**12 + 1, 5, 6), (10**15 + 1, 10**15, 10**15 + 4, 0, 4)]
        for k, (v, a, b, c, d) in enumerate(corner):
            j2 = copy.deepcopy(tmpl)
            j2["id"] = f"xmap{k}"
            for name, val in zip(("value", "from_low", "from_high", "to_low", "to_high"), (v, a, b, c, d)):
                j2["params"][name] = val
            jobs.append(j2)
    return jobs


def extra_obligations(mods, tier, seed):
    """what the contracts above prove for the base classes must also hold for the objects the public factories actually return (subclasses
    may override a proved method): executed on the real host classes (BOUNDED enumeration of factory spellings x provider values)"""
    import time
    from contracts.c08 import real
    S = real("Reduino.Sensors")
    out = []
    t0 = time.time()
    bad, n = [], 0
    values = [0, 0.0, 12.25, 399.5, 400, 400.5, 1000, 123456.75]
    makers = {"Ultrasonic(7, 8)": lambda **k: S.Ultrasonic(7, 8, **k), "Ultrasonic(7, 8, sensor='HC-SR04')": lambda **k: S.Ultrasonic(7, 8, sensor="HC-SR04", **k),
              "Ultrasonic(7, 8, model='HC-SR04')": lambda **k: S.Ultrasonic(7, 8, model="HC-SR04", **k)}
    for cname in ("HCSR04UltrasonicSensor", "UltrasonicSensor"):
        import sys as _sys
        mod = _sys.modules.get("Reduino.Sensors.Ultrasonic")
        if mod is not None and hasattr(mod, cname):
            cls = getattr(mod, cname)
            makers[f"{cname}(7, 8)"] = (lambda cls: (lambda **k: cls(7, 8, **k)))(cls)
    for mname, mk in makers.items():
        for v in values:
            n += 1
            calls = []
            try:
                got = mk(distance_provider=lambda v=v: (calls.append(1), v)[1]).measure_distance()
                if got != float(v) or not isinstance(got, float) or len(calls) != 1:
                    bad.append({"factory": mname, "provider_value": v, "measure_distance": got, "provider_calls": len(calls)})
                got2 = mk(default_distance=v).measure_distance()
                if got2 != float(v):
                    bad.append({"factory": mname, "default_distance": v, "measure_distance": got2})
            except Exception as ex:
                bad.append({"factory": mname, "value": v, "error": f"{type(ex).__name__}: {ex}"})
        for v in (-0.5, -1):
            n += 1
            try:
                mk(distance_provider=lambda v=v: v).measure_distance()
                bad.append({"factory": mname, "provider_value": v, "problem": "a negative reading was not refused"})
            except ValueError:
                pass
            except Exception as ex:
                bad.append({"factory": mname, "value": v, "error": f"{type(ex).__name__}: {ex}"})
    # SerialMonitor histories (BOUNDED, executed on the real class with a recording pyserial stand-in): after any sequence of
    # connect(port) / close() / write(value), a write sends str(value)+newline once, to an open connection on the port last connected to
    # (nothing when closed), and returns str(value)
    import random as _random
    import types as _types
    C = real("Reduino.Communication")
    t1 = time.time()
    badh, nh = [], 0

    class _Fake:
        opened = []

        def __init__(self, *, port, baudrate, timeout):
            self.port, self.baudrate, self.timeout, self.is_open, self.writes = port, baudrate, timeout, True, []
            _Fake.opened.append(self)

        def write(self, payload):
            if not self.is_open:
                raise RuntimeError("write on a closed port")
            self.writes.append(payload)
            return len(payload)

        def readline(self):
            return b""

        def close(self):
            self.is_open = False

    saved = getattr(C, "serial", None)
    C.serial = _types.SimpleNamespace(Serial=_Fake)
    try:
        rh = _random.Random(seed)
        for trial in range(300):
            nh += 1
            del _Fake.opened[:]
            newline = rh.choice(["\n", "\r\n"])
            first = rh.choice([None, "P0", "P1"])
            hist = [f"SerialMonitor(port={first!r}, newline={newline!r})"]
            try:
                mon = C.SerialMonitor(9600, port=first, newline=newline)
                attached = first
                for step in range(rh.randint(2, 8)):
                    op = rh.choice(["connect", "connect", "close", "write", "write", "write"])
                    if op == "connect":
                        attached = rh.choice(["P0", "P1", "P2"])
                        hist.append(f"connect({attached!r})")
                        mon.connect(attached)
                    elif op == "close":
                        attached = None
                        hist.append("close()")
                        mon.close()
                    else:
                        v = rh.choice([0, 7, -3, 2.5, True, None, "text", "", "é", (7,), (1, 2), (), [1, 2], {"a": 1}, b"raw", "100%", "%s %d", "{0} {}", 1e300, -0.0])
                        hist.append(f"write({v!r})")
                        before = {id(c): len(c.writes) for c in _Fake.opened}
                        ret = mon.write(v)
                        new = [(c.port, c.is_open, w) for c in _Fake.opened for w in c.writes[before.get(id(c), 0):]]
                        want = [] if attached is None else [(attached, True, (str(v) + newline).encode("utf-8"))]
                        if ret != str(v) or new != want:
                            badh.append({"history": hist[:], "returned": ret, "sent (port, open, payload)": [list(map(str, x)) for x in new], "expected": [list(map(str, x)) for x in want]})
                            break
                still = [c.port for c in _Fake.opened if c.is_open]
                if not badh and still not in ([], [attached]):
                    badh.append({"history": hist[:], "problem": f"connections left open: {still}, the monitor is attached to {attached!r}"})
            except Exception as ex:
                badh.append({"history": hist[:], "error": f"{type(ex).__name__}: {ex}"})
            if len(badh) >= 4:
                break
    finally:
        C.serial = saved
    out.append({"name": "C20/host/serial-monitor-histories", "status": "discharged" if not badh else "sat", "backend": "bounded-native", "bounded": True,
                "where": f"{nh} random histories of connect/close/write on the real SerialMonitor over a recording serial stand-in: each write sends str(value)+newline once to the open "
                         "connection on the port last connected to (nothing when closed) and returns str(value)",
                "time": round(time.time() - t1, 3), "replay": {"bad": badh[:3]}, "replay_confirmed": bool(badh)})
    out.append({"name": "C20/factories/ultrasonic-objects-obey-the-base-contract", "status": "discharged" if not bad else "sat", "backend": "bounded-native", "bounded": True,
                "where": f"{n} (factory spelling, value) runs: measure_distance() returns exactly the provider's / default value once, negatives are refused",
                "time": round(time.time() - t0, 3), "replay": {"bad": bad[:4]}, "replay_confirmed": bool(bad)})
    return out
