"""z3-free helpers for type specs (importable by the native harness)."""


def alternatives(spec):
    out, depth, cur = [], 0, ""
    for ch in spec:
        if ch in "([":
            depth += 1
        if ch in ")]":
            depth -= 1
        if ch == "|" and depth == 0:
            out.append(cur.strip())
            cur = ""
        else:
            cur += ch
    out.append(cur.strip())
    return [o for o in out if o]


def split_tuple(spec):
    inner = spec[1:-1]
    out, depth, cur = [], 0, ""
    for ch in inner:
        if ch in "([":
            depth += 1
        if ch in ")]":
            depth -= 1
        if ch == "," and depth == 0:
            out.append(cur.strip())
            cur = ""
        else:
            cur += ch
    if cur.strip():
        out.append(cur.strip())
    return out


