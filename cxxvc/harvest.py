"""Harvest firmware text from the REAL emitter of the working tree and hand it to cxx2py.

A fragment is the C++ that Reduino.transpile.emitter.emit produces for one IR node whose argument fields are opaque C
identifiers, cut out between two sentinel statements.  Templates are the emitter's own string constants, instantiated
by a small driver function.  Everything is regenerated on every run; the evidence records sha256 of every text."""
from __future__ import annotations

import hashlib
import json
import os
import subprocess

from . import cxx2py
from pyvc import loader

EMIT_PROG = r'''
import sys, json
sys.path.insert(0, sys.argv[1])
import Reduino.transpile.ast as A
from Reduino.transpile.emitter import emit
spec = json.loads(sys.argv[2])
def build(d):
    if isinstance(d, dict) and "$node" in d:
        cls = getattr(A, d["$node"])
        return cls(**{k: build(v) for k, v in d.items() if k != "$node"})
    if isinstance(d, list):
        return [build(x) for x in d]
    return d
out = {}
for name, s in spec.items():
    body = [build(x) for x in s.get("decls", [])] + [A.ExprStmt("__VERIF_BEGIN()")] + [build(x) for x in s["nodes"]] + [A.ExprStmt("__VERIF_END()")]
    kw = {"setup_body": body} if s.get("where", "setup") == "setup" else {"setup_body": [build(x) for x in s.get("decls", [])], "loop_body": body[len(s.get("decls", [])):]}
    prog = A.Program(**kw, **{k: build(v) if not isinstance(v, list) or k != "ultrasonic_measurements" else set(v) for k, v in s.get("program", {}).items()})
    try:
        out[name] = {"cpp": emit(prog)}
    except Exception as ex:
        out[name] = {"error": type(ex).__name__ + ": " + str(ex)}
print(json.dumps(out))
'''


def node(cls, **fields):
    d = {"$node": cls}
    d.update(fields)
    return d


CACHE = os.path.join(os.path.dirname(os.path.dirname(os.path.abspath(__file__))), ".cache")


def _cache_get(key):
    p = os.path.join(CACHE, key + ".json")
    if os.path.exists(p):
        try:
            return json.load(open(p))
        except Exception:
            return None
    return None


def _cache_put(key, val):
    os.makedirs(CACHE, exist_ok=True)
    tmp = os.path.join(CACHE, f"{key}.{os.getpid()}.tmp")
    json.dump(val, open(tmp, "w"))
    os.replace(tmp, os.path.join(CACHE, key + ".json"))


def source_key(repo):
    h = hashlib.sha256()
    for rel in ("src/Reduino/transpile/emitter.py", "src/Reduino/transpile/ast.py"):
        h.update(open(os.path.join(repo, rel), "rb").read())
    for f in ("cxx2py.py", "harvest.py", "Arduino.h", "Servo.h", "LiquidCrystal.h", "LiquidCrystal_I2C.h"):
        h.update(open(os.path.join(os.path.dirname(os.path.abspath(__file__)), f), "rb").read())
    return h.hexdigest()


def emit_all(specs, repo=None):
    """specs: name -> {decls:[node..], nodes:[node..], where: 'setup'|'loop', opaque: {ident: ctype}}
    (cached under /verif/.cache keyed by the sha256 of the emitter sources and of the request: the cache only avoids
    re-running identical work in the 16 worker processes of one check run)"""
    repo = repo or os.environ.get("REDUINO_REPO", "/repo")
    src = os.path.join(repo, "src")
    payload = {k: {kk: vv for kk, vv in v.items() if kk in ("decls", "nodes", "where", "program")} for k, v in specs.items()}
    ck = "emit-" + hashlib.sha256((source_key(repo) + json.dumps(payload, sort_keys=True)).encode()).hexdigest()[:24]
    hit = _cache_get(ck)
    if hit is not None:
        return hit
    out = _emit_all(payload, src)
    _cache_put(ck, out)
    return out


def _emit_all(payload, src):
    r = subprocess.run(["/venv/bin/python", "-c", EMIT_PROG, src, json.dumps(payload)], capture_output=True, text=True, timeout=300)
    if r.returncode != 0:
        raise RuntimeError("emitter subprocess failed: " + r.stderr[-1500:])
    return json.loads(r.stdout)


def translate_fragment(name, cpp, opaque, where="setup"):
    """returns dict(py=<python text>, globals={name: kind}, inits={..}, sha=.., cpp=..) - cached by content"""
    here = os.path.dirname(os.path.abspath(__file__))
    tk = hashlib.sha256((cpp + json.dumps(opaque, sort_keys=True) + where + name +
                         open(os.path.join(here, "cxx2py.py")).read() + open(os.path.join(here, "Arduino.h")).read()).encode()).hexdigest()[:24]
    hit = _cache_get("tr-" + tk)
    if hit is not None:
        hit["params"] = [tuple(x) for x in hit["params"]]
        return hit
    out = _translate_fragment(name, cpp, opaque, where)
    _cache_put("tr-" + tk, {k: v for k, v in out.items() if k != "translator"})
    return out


def _translate_fragment(name, cpp, opaque, where="setup"):
    decls = "".join((f"{ctype[:-2]} {ident}();\n" if ctype.endswith("()") else f"extern {ctype} {ident};\n") for ident, ctype in opaque.items())
    lines = cpp.split("\n")
    # opaque identifiers are declared right after the includes
    k = max([i for i, l in enumerate(lines) if l.startswith("#include")] + [0]) + 1
    text = "\n".join(lines[:k]) + "\n" + decls + "\n".join(lines[k:])
    tu, key = cxx2py.run_clang(text)
    T = cxx2py.Translator(tu)
    pyname = "frag_" + name
    params = [(i, t) for i, t in opaque.items() if not t.endswith("()")]
    src = T.fragment("setup" if where == "setup" else "loop", pyname=pyname, params=params)
    extra = {}
    for fname in T.functions:
        if fname not in ("setup", "loop"):
            extra[fname] = T.function(fname)
    if where == "loop" or True:
        try:
            extra["whole_setup"] = T.function("setup").replace("def setup(", f"def setup_{name}(")
        except Exception:
            pass
    gk = {g: k for g, k in T.global_kinds().items() if g not in opaque}
    return {"py": src, "pyname": pyname, "globals": gk, "inits": T.global_inits(), "sha": hashlib.sha256(cpp.encode()).hexdigest(),
            "cpp": cpp, "prims": sorted(T.used_prims), "externs": sorted(T.externs_called), "translator": T,
            "params": [(i, cxx2py.kind_of_type(t)) for i, t in params], "used_globals": T.out_funcs[pyname]["globals"],
            "functions": extra, "opaque_kinds": {i: cxx2py.kind_of_type(t) for i, t in params}}


def register_module(relkey, texts):
    """make the generated python text visible to the pyvc loader under '@gen/<relkey>'"""
    key = "@gen/" + relkey
    loader.GENERATED[key] = "\n\n".join(texts) + "\n"
    return key
