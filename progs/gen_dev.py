"""Seeded generator of device scripts for the device differential (bounded back end of C04): one actuator, a random sequence of its
commands whose arguments are literals, variables or small expressions (positional or keyword), placed at top level, in taken / untaken
branches, counted loops, a helper function and the main loop; after every command the device's getters are printed.  Argument values
stay inside the ranges the host classes accept; variables are re-bound in nested bodies on purpose (an argument that NAMES a variable
has the variable's run-time value).  Observed: serial lines (getter values) and delays, host class under CPython vs firmware mock."""
import random

from progs.devdiff import IMPORTS, GETTERS, DECL

# method -> [(parameter, kind, lo, hi)]; kind: i = int, f = float
SPEC = {
    "Led": {"on": [], "off": [], "toggle": [], "set_brightness": [("value", "i", 0, 255)], "blink": [("duration_ms", "i", 1, 40), ("times", "i", 1, 3)],
            "fade_in": [("step", "i", 20, 100), ("delay_ms", "i", 0, 3)], "fade_out": [("step", "i", 20, 100), ("delay_ms", "i", 0, 3)]},
    "RGBLed": {"set_color": [("red", "i", 0, 255), ("green", "i", 0, 255), ("blue", "i", 0, 255)], "off": [], "on": [],
               "blink": [("red", "i", 0, 255), ("green", "i", 0, 255), ("blue", "i", 0, 255), ("times", "i", 1, 3), ("delay_ms", "i", 1, 20)],
               "fade": [("red", "i", 0, 255), ("green", "i", 0, 255), ("blue", "i", 0, 255), ("duration_ms", "i", 20, 200), ("steps", "i", 1, 5)]},
    "Servo": {"write": [("angle", "f", 0, 180)], "write_us": [("pulse", "f", 544, 2400)]},
    "DCMotor": {"set_speed": [("value", "f", -1.5, 1.5)], "backward": [("speed", "f", 0, 1)], "stop": [], "coast": [], "invert": [],
                "ramp": [("target_speed", "f", -1, 1), ("duration_ms", "i", 20, 200)], "run_for": [("duration_ms", "i", 10, 60), ("speed", "f", -1, 1)]},
}
N_DEFAULTS = {("Led", "blink"): 1, ("Led", "fade_in"): 0, ("Led", "fade_out"): 0, ("RGBLed", "blink"): 3, ("RGBLed", "fade"): 3, ("DCMotor", "backward"): 0}


class DevGen:
    def __init__(self, seed):
        self.r = random.Random(seed)
        self.ivars = {}      # name -> current python value (tracked so that arguments stay in range)
        self.fvars = {}
        self.lines = []

    def value(self, kind, lo, hi):
        r = self.r
        if kind == "i":
            return r.choice([lo, hi, r.randint(lo, hi), r.randint(lo, hi)])
        v = r.choice([lo, hi, round(r.uniform(lo, hi), 2), round(r.uniform(lo, hi) * 4) / 4])
        return float(v)

    def arg(self, kind, lo, hi, allow_var=True):
        """(source text, python value)"""
        r = self.r
        v = self.value(kind, lo, hi)
        c = r.random()
        if not allow_var or c < 0.45:
            return (repr(int(v)) if kind == "i" else repr(v)), v
        pool = self.ivars if kind == "i" else self.fvars
        name = r.choice(sorted(pool))
        cur = pool[name]
        if c < 0.75 and lo <= cur <= hi:
            return name, cur
        # an expression around the variable that lands on v
        if kind == "i":
            d = int(v) - cur
            return (f"{name} + {d}" if d >= 0 else f"{name} - {-d}"), v
        d = round(v - cur, 4)
        return (f"{name} + {d!r}" if d >= 0 else f"{name} - {-d!r}"), round(cur + d, 4)

    def call(self, kind):
        r = self.r
        meth = r.choice(sorted(SPEC[kind]))
        params = SPEC[kind][meth]
        n_req = N_DEFAULTS.get((kind, meth), len(params))
        n = r.randint(n_req, len(params)) if params else 0
        use = params[:n]
        kw_from = r.randint(0, len(use))          # positional up to here, keywords after
        parts = []
        for k, (pname, pk, lo, hi) in enumerate(use):
            src, _ = self.arg(pk, lo, hi)
            parts.append(src if k < kw_from else f"{pname}={src}")
        if kw_from < len(use) and r.random() < 0.3:
            tail = parts[kw_from:]
            r.shuffle(tail)
            parts = parts[:kw_from] + tail
        return f"d.{meth}(" + ", ".join(parts) + ")"

    def rebind(self):
        """re-bind a variable (keeps the tracked value exact: constant steps only)"""
        r = self.r
        if r.random() < 0.5:
            name = r.choice(sorted(self.ivars))
            d = r.randint(1, 9)
            self.ivars[name] += d
            return f"{name} = {name} + {d}"
        name = r.choice(sorted(self.fvars))
        d = r.choice([0.25, 0.5, -0.25])
        self.fvars[name] = round(self.fvars[name] + d, 4)
        return f"{name} = {name} + {d!r}" if d >= 0 else f"{name} = {name} - {-d!r}"

    def observed(self, kind, ind=""):
        return [ind + f"mon.write({g})" for g in GETTERS[kind]] + [ind + "mon.write('--')"]

    def program(self):
        r = self.r
        kind = r.choice(sorted(SPEC))
        self.ivars = {"n1": r.randint(1, 30), "n2": r.randint(0, 200)}
        self.fvars = {"f1": r.choice([0.25, 0.5, 1.0]), "f2": r.choice([10.0, 45.5, 90.0])}
        L = [DECL[kind]] + [f"{k} = {v}" for k, v in self.ivars.items()] + [f"{k} = {v!r}" for k, v in self.fvars.items()] + ["c = 1"]
        helper_body = None
        if r.random() < 0.5:
            helper_body = [self.call(kind)]
            L += ["def act():"] + ["    " + l for l in helper_body + self.observed(kind)]
        for _ in range(r.randint(3, 6)):
            shape = r.random()
            if shape < 0.40:
                L += [self.call(kind)] + self.observed(kind)
            elif shape < 0.55:
                L += ["if c > 0:", "    " + self.rebind(), "    " + self.call(kind)] + self.observed(kind, "    ")
            elif shape < 0.65:
                # a branch that is not taken: its re-binding and its command must have no effect
                saved = (dict(self.ivars), dict(self.fvars))
                L += ["if c > 5:", "    " + self.rebind(), "    " + self.call(kind)]
                self.ivars, self.fvars = saved
                L += [self.call(kind)] + self.observed(kind)
            elif shape < 0.80:
                k = r.randint(1, 2)
                steps = [self.rebind() for _ in range(1)]
                # the loop body runs k times: replay the constant step k - 1 more times on the tracked values
                L += [f"for i in range({k}):"] + ["    " + s for s in steps]
                for s in steps * (k - 1):
                    name, _, rest = s.partition(" = ")
                    delta = rest.replace(name, "").strip()
                    val = float(delta.replace("+ ", "").replace("- ", "-")) if "." in delta else int(delta.replace("+ ", "").replace("- ", "-"))
                    if name in self.ivars:
                        self.ivars[name] += val
                    else:
                        self.fvars[name] = round(self.fvars[name] + val, 4)
                L += [self.call(kind)] + self.observed(kind)
            elif helper_body is not None:
                L += ["act()"]
            else:
                L += [self.rebind(), self.call(kind)] + self.observed(kind)
        if r.random() < 0.6:
            body = []
            for _ in range(r.randint(1, 3)):
                body += [self.call(kind)] + self.observed(kind)
            L += ["while True:"] + ["    " + l for l in body] + ["    sleep(1)"]
        return IMPORTS + "\n".join(L) + "\n"


def programs(n, seed=0):
    return {f"dev-{seed}-{k}": DevGen(seed * 7919 + k).program() for k in range(n)}


if __name__ == "__main__":
    import sys
    print(DevGen(int(sys.argv[1]) if len(sys.argv) > 1 else 1).program())
