"""C19 - host actuator models: class invariants + per-method contracts (sidecar; /repo untouched)."""
from pyvc.contracts import Registry

from fractions import Fraction
from pyvc import sampler

NUM = "int|real|bool"

PROPERTY = {
    "level": "proof",
    "expect_min_obligations": 8000,
    "explanation": "Every public method of Led, RGBLed, Servo and DCMotor is proved, from an arbitrary state satisfying the "
                   "class invariant and for arguments of every kind int/float/bool, to re-establish the invariant on normal "
                   "exit, to raise exactly under the stated condition and then leave every field and the sleep ghosts "
                   "unchanged, and to satisfy the per-method posts of the property (blink/run_for sleep totals, fade ends on "
                   "target, ramp ends on clamped target, invert involution fields, mode/last-command rule). Induction over "
                   "call histories is the usual one step per method from an arbitrary invariant state.",
    "trusted_base": ["pyvc symbolic executor (/verif/pyvc) and its encoding of Python semantics",
                     "z3 4.x / cvc5 unsat answers", "CPython ast module"],
    "assumptions": [
        "A-REAL: Python floats are treated as mathematical reals (NaN/inf arguments excluded)",
        "arguments are int, float or bool (other types are outside the property's quantifier)",
        "`_sleep` proxies resolve to Reduino.Utils.sleep (contract: ValueError iff duration<0, else one sleep of duration ms) - assumed here, proved under C20",
        "A-NOALIAS: distinct host objects do not alias",
        "termination of the while loops in Led.fade_in/fade_out is not proved (partial correctness)",
        "Led.flash_pattern: pattern is a list of ints or of floats; atomicity is not claimed for it (non-scalar argument)",
    ],
}


def _servo_state(rnd):
    lo = Fraction(rnd.choice([0, -90, 10]))
    hi = lo + rnd.choice([180, 90, 1])
    pl = Fraction(rnd.choice([544, 500, 1000]))
    ph = pl + rnd.choice([1856, 1000, 10])
    frac = Fraction(rnd.randint(0, 8), 8)
    ang = lo + (hi - lo) * frac
    pul = pl + (ang - lo) / (hi - lo) * (ph - pl)
    r = lambda x: {"real": str(x)}
    return {"pin": "<any>", "_min_angle": r(lo), "_max_angle": r(hi), "_min_pulse": r(pl), "_max_pulse": r(ph),
            "_current_angle": r(ang), "_current_pulse": r(pul)}


def _dc_state(rnd):
    s = Fraction(rnd.choice([-8, -4, -1, 0, 0, 1, 3, 8]), 8)
    inv = rnd.random() < 0.5
    ap = -s if inv else s
    last = rnd.choice(["stop", "run_for", "set_speed", "coast", "invert", "ramp", "__init__", "backward"])
    mode = "drive" if ap != 0 else ("brake" if last in ("stop", "run_for") else "coast")
    r = lambda x: {"real": str(x)}
    return {"pins": ["<any>", "<any>", "<any>"], "_speed": r(s), "_inverted": inv, "_mode": mode,
            "_applied_speed": r(ap), "last_cmd": last}


def _led_state(rnd):
    b = rnd.choice([0, 0, 1, 100, 254, 255])
    return {"pin": "<any>", "state": b > 0, "brightness": b}


def _rgb_state(rnd):
    col = [rnd.choice([0, 0, 1, 3, 128, 255]) for _ in range(3)]
    return {"_pins": ["<any>", "<any>", "<any>"], "_color": col, "_state": any(c > 0 for c in col)}


# speeds of the motor include magnitudes far below any tolerance: "drive exactly when the applied speed is non-zero" has no dead band
_TINY = [{"real": t} for t in ("1/1000000000000", "-1/1000000000000", "1/1048576", "-1/1073741824", "0", "1/2", "-1/4", "1", "-1", "3/2", "-3")]


def native_samples(reg, rnd, n):
    jobs = sampler.jobs_for(reg, rnd, n, state_samplers={"Servo": _servo_state, "DCMotor": _dc_state,
                                                         "Led": _led_state, "RGBLed": _rgb_state},
                            skip=("RGBLed._update_state",))
    extra = sampler.jobs_for(reg, rnd, max(2, n // 2), state_samplers={"DCMotor": _dc_state}, skip=tuple(q for (_f, q) in reg.contracts if not q.startswith("DCMotor.")),
                             pools={q: {p: _TINY for p in ("value", "speed", "target_speed")} for (_f, q) in reg.contracts if q.startswith("DCMotor.")})
    for k, j in enumerate(extra):
        j["id"] = f"t{k}"
    return jobs + extra
LED = "Reduino/Actuators/Led.py"
RGB = "Reduino/Actuators/RGBLed.py"
SERVO = "Reduino/Actuators/Servo.py"
DC = "Reduino/Actuators/DCMotor.py"


def sleep_proxy(reg, file):
    # `_sleep` forwards to the package-level `sleep` (= Reduino.Utils.sleep, verified under C20:
    # raises ValueError iff duration < 0, otherwise waits duration ms exactly once).  ASSUMED link.
    reg.unit("_sleep", file, extern=True, params={"duration": NUM},
             raises={"ValueError": "duration < 0"},
             modifies=["ghost.slept", "ghost.sleeps"],
             ensures=["slept == old(slept) + duration", "sleeps == old(sleeps) + 1"],
             returns="none", public=False,
             note="ASSUMED: proxy to Reduino.Utils.sleep (contract proved under C20)")


def build():
    reg = Registry()
    reg.ghost("slept", "real")     # total milliseconds passed to sleep
    reg.ghost("sleeps", "int")     # number of sleep calls

    # ------------------------------------------------------------------ Led
    reg.cls("Led", LED, fields={"pin": "any", "state": "bool", "brightness": "int"},
            inv=["0 <= self.brightness <= 255", "self.state == (self.brightness > 0)"])
    sleep_proxy(reg, LED)
    reg.unit("Led.__init__", LED, is_init=True, params={"pin": "any"},
             ensures=["self.brightness == 0", "self.state == False", "same(self.pin, pin)"])
    reg.unit("Led.set_brightness", LED, params={"value": NUM},
             raises={"ValueError": "not (0 <= value <= 255)"},
             modifies=["self.brightness", "self.state"],
             ensures=["self.brightness == trunc(value)"])
    reg.unit("Led.on", LED, modifies=["self.brightness", "self.state"],
             ensures=["self.brightness == 255", "self.state == True"])
    reg.unit("Led.off", LED, modifies=["self.brightness", "self.state"],
             ensures=["self.brightness == 0", "self.state == False"])
    reg.unit("Led.get_state", LED, returns="bool", ensures=["result == self.state"])
    reg.unit("Led.get_brightness", LED, returns="int", ensures=["result == self.brightness"])
    reg.unit("Led.toggle", LED, modifies=["self.brightness", "self.state"],
             ensures=["self.state == (not old(self.state))",
                      "self.brightness == ite(old(self.state), 0, 255)"])
    reg.unit("Led.blink", LED, params={"duration_ms": NUM, "times": "int|bool"},
             raises={"ValueError": "duration_ms < 0 or times <= 0"},
             modifies=["self.brightness", "self.state", "ghost.slept", "ghost.sleeps"],
             loops={0: {"inv": ["inv(self)", "slept == old(slept) + 2 * k * duration_ms",
                                "sleeps == old(sleeps) + 2 * k",
                                "implies(k > 0, self.brightness == 0)"]}},
             ensures=["self.brightness == 0", "self.state == False",
                      "slept == old(slept) + 2 * times * duration_ms",
                      "sleeps == old(sleeps) + 2 * times"])
    fade_common = dict(params={"step": NUM, "delay_ms": NUM},
                       raises={"ValueError": "step <= 0 or delay_ms < 0"},
                       modifies=["self.brightness", "self.state", "ghost.slept", "ghost.sleeps"])
    reg.unit("Led.fade_in", LED, **fade_common,
             loops={0: {"inv": ["inv(self)", "0 <= current <= 255", "slept == old(slept) + k * delay_ms",
                                "sleeps == old(sleeps) + k",
                                "current >= old(self.brightness)"],
                        "widen": {"current": "real"}}},
             ensures=["self.brightness == 255", "self.state == True", "slept >= old(slept)"])
    reg.unit("Led.fade_out", LED, **fade_common,
             loops={0: {"inv": ["inv(self)", "0 <= current <= 255", "slept == old(slept) + k * delay_ms",
                                "sleeps == old(sleeps) + k",
                                "current <= old(self.brightness)"],
                        "widen": {"current": "real"}}},
             ensures=["self.brightness == 0", "self.state == False", "slept >= old(slept)"])
    reg.unit("Led.flash_pattern", LED, params={"pattern": "list[int]|list[real]", "delay_ms": NUM},
             may_raise_other=["ValueError"], atomic=False,
             on_raise=["implies(delay_ms < 0, self.brightness == old(self.brightness) and self.state == old(self.state) and slept == old(slept) and sleeps == old(sleeps))"],
             modifies=["self.brightness", "self.state", "ghost.slept", "ghost.sleeps"],
             loops={0: {"inv": ["inv(self)", "slept >= old(slept)"]}},
             ensures=["slept >= old(slept)", "delay_ms >= 0"])

    # ------------------------------------------------------------------ RGBLed
    def ok(n):
        return f"(is_int({n}) and 0 <= {n} <= 255)"

    def seq_type_error(names):
        alts, prefix = [], []
        for n in names:
            alts.append(" and ".join(prefix + [f"not is_int({n})"]))
            prefix.append(ok(n))
        return "(" + ") or (".join(alts) + ")"

    def seq_value_error(names):
        alts, prefix = [], []
        for n in names:
            alts.append(" and ".join(prefix + [f"is_int({n})", f"not (0 <= {n} <= 255)"]))
            prefix.append(ok(n))
        return "(" + ") or (".join(alts) + ")"
    rgb3 = ["red", "green", "blue"]
    all_ok = " and ".join(ok(n) for n in rgb3)
    RGBF = ["self._color", "self._state"]
    reg.cls("RGBLed", RGB, fields={"_pins": "(any,any,any)", "_color": "(int,int,int)", "_state": "bool"},
            inv=["0 <= self._color[0] <= 255", "0 <= self._color[1] <= 255", "0 <= self._color[2] <= 255",
                 "self._state == (self._color[0] > 0 or self._color[1] > 0 or self._color[2] > 0)"])
    sleep_proxy(reg, RGB)
    reg.unit("RGBLed._validate_component", RGB, public=False, params={"value": NUM, "name": "str"},
             raises={"TypeError": "not is_int(value)", "ValueError": "is_int(value) and not (0 <= value <= 255)"},
             returns="int", ensures=["result == value"])
    reg.unit("RGBLed._validate_pin", RGB, public=False, params={"pin": NUM, "name": "str"},
             raises={"TypeError": "not is_int(pin)", "ValueError": "is_int(pin) and pin < 0"},
             returns=lambda b, st: b["pin"].k, ensures=["same(result, pin)"])
    reg.unit("RGBLed._update_state", RGB, public=False, inline=True)
    reg.unit("RGBLed.__init__", RGB, is_init=True, params={"red_pin": NUM, "green_pin": NUM, "blue_pin": NUM},
             may_raise_other=["TypeError", "ValueError"],
             ensures=["self._color == (0, 0, 0)", "self._state == False"])
    setc = dict(params={n: NUM for n in rgb3},
                raises={"TypeError": seq_type_error(rgb3), "ValueError": seq_value_error(rgb3)},
                modifies=RGBF,
                ensures=["self._color[0] == red and self._color[1] == green and self._color[2] == blue"])
    reg.unit("RGBLed.set_color", RGB, **setc)
    reg.unit("RGBLed.on", RGB, **setc)
    reg.unit("RGBLed.off", RGB, modifies=RGBF, ensures=["self._color == (0, 0, 0)", "self._state == False"])
    reg.unit("RGBLed.get_color", RGB, returns="(int,int,int)", ensures=["result == self._color"])
    reg.unit("RGBLed.get_state", RGB, returns="bool", ensures=["result == self._state"])
    early = "(duration_ms == 0 or (self._color[0] == red and self._color[1] == green and self._color[2] == blue))"

    def interp(j, n, kk):
        c0 = f"old(self._color[{j}])"
        return f"rhe({c0} + real(({n} - {c0}) * ({kk})) / steps)"
    F = lambda ii: f"rhe(c + real((t - c) * ({ii})) / s)"
    CT = "0 <= c <= 255 and 0 <= t <= 255 and s >= 1"
    V4 = {"c": "int", "t": "int", "i": "int", "s": "int"}
    FADE_LEMMAS = [
        ("fade-in-range", V4, f"implies({CT} and 1 <= i <= s, 0 <= {F('i')} <= 255)"),
        ("fade-ends-on-target", V4, f"implies(s >= 1, {F('s')} == t)"),
        ("fade-monotone-up", V4, f"implies({CT} and 1 <= i and i < s and t >= c, {F('i')} <= {F('i + 1')})"),
        ("fade-monotone-down", V4, f"implies({CT} and 1 <= i and i < s and t <= c, {F('i')} >= {F('i + 1')})"),
    ]

    def uses(lemma, ii):
        return [(lemma, {"c": f"old(self._color[{j}])", "t": n, "i": ii, "s": "steps"}) for j, n in enumerate(rgb3)]
    reg.unit("RGBLed.fade", RGB,
             params={"red": NUM, "green": NUM, "blue": NUM, "duration_ms": NUM, "steps": NUM},
             raises={"ValueError": f"duration_ms < 0 or steps <= 0 or {seq_value_error(rgb3)}",
                     "TypeError": f"not (duration_ms < 0 or steps <= 0) and ({seq_type_error(rgb3)} or "
                                  f"({all_ok} and is_float(steps) and not {early}))"},
             modifies=RGBF + ["ghost.slept", "ghost.sleeps"],
             loops={0: {"inv": ["inv(self)", "1 <= i <= steps + 1", "not " + early.replace("self._color", "old(self._color)"),
                                "implies(k == 0, self._color == old(self._color))"]
                               + [f"implies(k > 0, self._color[{j}] == {interp(j, n, 'k')})" for j, n in enumerate(rgb3)]
                               + ["sleeps == old(sleeps) + ite(k < steps, k, steps - 1)",
                                  "slept == old(slept) + ite(k < steps, k, steps - 1) * (real(duration_ms) / steps)"],
                        "use": uses("fade-in-range", "i"), "use_exit": uses("fade-ends-on-target", "i")}},
             ensures=["self._color[0] == red and self._color[1] == green and self._color[2] == blue",
                      "slept - old(slept) <= duration_ms", "slept >= old(slept)",
                      f"sleeps - old(sleeps) == ite({early.replace('self._color', 'old(self._color)')}, 0, steps - 1)"],
             lemmas=FADE_LEMMAS)
    reg.unit("RGBLed.blink", RGB,
             params={"red": NUM, "green": NUM, "blue": NUM, "times": NUM, "delay_ms": NUM},
             raises={"ValueError": f"times <= 0 or delay_ms < 0 or {seq_value_error(rgb3)}",
                     "TypeError": f"not (times <= 0 or delay_ms < 0) and ({seq_type_error(rgb3)} or ({all_ok} and is_float(times)))"},
             modifies=RGBF + ["ghost.slept", "ghost.sleeps"],
             loops={0: {"inv": ["inv(self)", "slept == old(slept) + 2 * k * delay_ms", "sleeps == old(sleeps) + 2 * k"]}},
             ensures=["self._color == old(self._color)", "self._state == old(self._state)",
                      "slept == old(slept) + 2 * times * delay_ms", "sleeps == old(sleeps) + 2 * times"])

    # ------------------------------------------------------------------ Servo
    SF = {"pin": "any", "_min_angle": "real", "_max_angle": "real", "_min_pulse": "real", "_max_pulse": "real",
          "_current_angle": "real", "_current_pulse": "real"}
    amap = ("self._min_pulse + ((self._current_angle - self._min_angle) / (self._max_angle - self._min_angle))"
            " * (self._max_pulse - self._min_pulse)")
    pmap = ("self._min_angle + ((self._current_pulse - self._min_pulse) / (self._max_pulse - self._min_pulse))"
            " * (self._max_angle - self._min_angle)")
    reg.cls("Servo", SERVO, fields=SF,
            inv=["self._min_angle < self._max_angle", "self._min_pulse < self._max_pulse",
                 "self._min_angle <= self._current_angle <= self._max_angle",
                 "self._min_pulse <= self._current_pulse <= self._max_pulse",
                 f"self._current_pulse == {amap}", f"self._current_angle == {pmap}"])
    reg.unit("Servo.__init__", SERVO, is_init=True,
             params={"pin": "any", "min_angle": NUM, "max_angle": NUM, "min_pulse_us": NUM, "max_pulse_us": NUM},
             raises={"ValueError": "min_angle >= max_angle or min_pulse_us >= max_pulse_us"},
             ensures=["self._min_angle == min_angle", "self._max_angle == max_angle",
                      "self._min_pulse == min_pulse_us", "self._max_pulse == max_pulse_us",
                      "self._current_angle == min_angle", "self._current_pulse == min_pulse_us"])
    reg.unit("Servo._angle_to_pulse", SERVO, public=False, inline=True)
    reg.unit("Servo._pulse_to_angle", SERVO, public=False, inline=True)
    reg.unit("Servo.write", SERVO, params={"angle": NUM},
             raises={"ValueError": "not (self._min_angle <= angle <= self._max_angle)"},
             modifies=["self._current_angle", "self._current_pulse"],
             ensures=["self._current_angle == angle"])
    reg.unit("Servo.write_us", SERVO, params={"pulse": NUM},
             raises={"ValueError": "not (self._min_pulse <= pulse <= self._max_pulse)"},
             modifies=["self._current_angle", "self._current_pulse"],
             ensures=["self._current_pulse == pulse"])
    reg.unit("Servo.read", SERVO, returns="real", ensures=["result == self._current_angle"])
    reg.unit("Servo.read_us", SERVO, returns="real", ensures=["result == self._current_pulse"])

    # ------------------------------------------------------------------ DCMotor
    clamp = lambda x: f"ite({x} > 1, 1.0, ite({x} < -1, -1.0, real({x})))"
    DF = ["self._speed", "self._mode", "self._applied_speed"]
    reg.cls("DCMotor", DC,
            fields={"pins": "(any,any,any)", "_speed": "real", "_inverted": "bool", "_mode": "str",
                    "_applied_speed": "real"},
            ghost_fields={"last_cmd": "str"},
            inv=["-1 <= self._speed <= 1",
                 "self._applied_speed == ite(self._inverted, -self._speed, self._speed)",
                 "(self._mode == 'drive') == (self._applied_speed != 0)",
                 "implies(self._applied_speed == 0, self._mode == "
                 "ite(self.last_cmd == 'stop' or self.last_cmd == 'run_for', 'brake', 'coast'))"])
    sleep_proxy(reg, DC)

    def cmd(name):
        return {"self.last_cmd": repr(name)}
    reg.unit("DCMotor.__init__", DC, is_init=True, params={"in1": NUM, "in2": NUM, "enable": NUM},
             raises={"TypeError": "not (is_int(in1) and is_int(in2) and is_int(enable))",
                     "ValueError": "is_int(in1) and is_int(in2) and is_int(enable) and "
                                   "(in1 == in2 or in1 == enable or in2 == enable)"},
             ghost_update=cmd("__init__"),
             ensures=["self._speed == 0", "self._applied_speed == 0", "self._inverted == False",
                      "self._mode == 'coast'"])
    reg.unit("DCMotor._clamp_speed", DC, public=False, params={"value": NUM}, returns="real",
             ensures=[f"result == {clamp('value')}"])
    reg.unit("DCMotor._apply_speed", DC, public=False, inline=True)
    for g, f, k in (("get_speed", "_speed", "real"), ("get_applied_speed", "_applied_speed", "real"),
                    ("is_inverted", "_inverted", "bool"), ("get_mode", "_mode", "str")):
        reg.unit(f"DCMotor.{g}", DC, returns=k, ensures=[f"result == self.{f}"])
    reg.unit("DCMotor.set_speed", DC, params={"value": NUM}, modifies=DF, ghost_update=cmd("set_speed"),
             ensures=[f"self._speed == {clamp('value')}"])
    reg.unit("DCMotor.backward", DC, params={"speed": NUM}, modifies=DF, ghost_update=cmd("backward"),
             ensures=[f"self._speed == -abs({clamp('speed')})"])
    reg.unit("DCMotor.stop", DC, modifies=DF, ghost_update=cmd("stop"),
             ensures=["self._speed == 0", "self._applied_speed == 0", "self._mode == 'brake'"])
    reg.unit("DCMotor.coast", DC, modifies=DF, ghost_update=cmd("coast"),
             ensures=["self._speed == 0", "self._applied_speed == 0", "self._mode == 'coast'"])
    reg.unit("DCMotor.invert", DC, modifies=DF + ["self._inverted"], ghost_update=cmd("invert"),
             ensures=["self._inverted == (not old(self._inverted))", "self._speed == old(self._speed)",
                      "self._applied_speed == -old(self._applied_speed)"])
    tgt = clamp("target_speed")
    reg.unit("DCMotor.ramp", DC, params={"target_speed": NUM, "duration_ms": NUM},
             raises={"ValueError": "duration_ms < 0"},
             modifies=DF + ["ghost.slept", "ghost.sleeps"], ghost_update=cmd("ramp"),
             loops={0: {"inv": ["inv(self)", "1 <= i <= 21", "implies(k > 0, self.last_cmd == 'set_speed')",
                                f"self._speed == old(self._speed) + (({tgt} - old(self._speed)) / 20) * k",
                                "slept == old(slept) + k * (real(duration_ms) / 20)",
                                "sleeps == old(sleeps) + ite(duration_ms > 0, k, 0)"]}},
             ensures=[f"self._speed == {tgt}", "slept == old(slept) + duration_ms",
                      "sleeps == old(sleeps) + ite(duration_ms > 0, 20, 0)"],
             lemmas=[("ramp-monotone", {"j": "int"},
                      f"implies(0 <= j and j < 20 and {tgt} >= self._speed, "
                      f"self._speed + (({tgt} - self._speed) / 20) * j <= self._speed + (({tgt} - self._speed) / 20) * (j + 1))"),
                     ("ramp-monotone-down", {"j": "int"},
                      f"implies(0 <= j and j < 20 and {tgt} <= self._speed, "
                      f"self._speed + (({tgt} - self._speed) / 20) * j >= self._speed + (({tgt} - self._speed) / 20) * (j + 1))")])
    reg.unit("DCMotor.run_for", DC, params={"duration_ms": NUM, "speed": NUM},
             raises={"ValueError": "duration_ms < 0"},
             modifies=DF + ["ghost.slept", "ghost.sleeps"], ghost_update=cmd("run_for"),
             ensures=["self._speed == 0", "self._applied_speed == 0", "self._mode == 'brake'",
                      "slept == old(slept) + duration_ms", "sleeps == old(sleeps) + 1"])
    return reg
