#!/usr/bin/env python3
"""Behaviour-preserving (benign) patches as a false-alarm control: each patch is applied in a scratch worktree of /repo's HEAD and every
registered quick check runs from a scratch copy of /verif with REDUINO_REPO pointing at it.  Neither /repo nor /verif is touched.
usage: tools_benign_scratch.py <patch.diff ...>      prints one line per check that does not exit 0"""
import json, os, subprocess, sys

WT, VC = "/tmp/bn_wt", "/tmp/bn_verif"
SRC = os.environ.get("SM_SRC", "/verif")
subprocess.run(f"git -C /repo worktree remove --force {WT}", shell=True, capture_output=True)
subprocess.run(f"git -C /repo worktree add -q --detach {WT} HEAD", shell=True, check=True)
subprocess.run(f"rm -rf {VC} && rsync -a --exclude .git --exclude replay --exclude seeded --exclude seeded_incoming {SRC}/ {VC}/", shell=True, check=True)
m = json.load(open("/verif/MANIFEST.json"))
only = os.environ.get("ONLY", "").split(",") if os.environ.get("ONLY") else None
try:
    for p in map(os.path.abspath, sys.argv[1:]):
        subprocess.run(f"git -C {WT} checkout -q -- . && git -C {WT} clean -fdq", shell=True)
        r = subprocess.run(["git", "-C", WT, "apply", p], capture_output=True, text=True)
        if r.returncode != 0:
            print(os.path.basename(p), "does not apply", flush=True)
            continue
        t = subprocess.run("/venv/bin/python -m pytest -q -x -p no:cacheprovider 2>&1 | tail -1", shell=True, cwd=WT, capture_output=True, text=True).stdout.strip()
        bad = []
        for c in m["checks"]:
            if only and c["property_id"] not in only:
                continue
            r = subprocess.run(c["quick_cmd"], shell=True, cwd=VC, capture_output=True, text=True, timeout=3600, env=dict(os.environ, REDUINO_REPO=WT))
            if r.returncode != 0:
                last = [l for l in r.stdout.splitlines() if l.startswith(("VIOLATION", "UNDECIDED", "CHECKER"))][:2]
                bad.append(f"{c['property_id']} exit={r.returncode} {' | '.join(x[:260] for x in last)}")
        print(f"== {os.path.basename(p)} [tests: {t}] " + ("all checks exit 0" if not bad else ""), flush=True)
        for b in bad:
            print("   " + b, flush=True)
finally:
    subprocess.run(f"git -C /repo worktree remove --force {WT}; rm -rf {VC}", shell=True)
    print("BENIGN-SCRATCH-DONE", flush=True)
