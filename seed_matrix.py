#!/usr/bin/env python3
"""Applies every confirmed seeded mutation to /repo in turn, runs the quick check of the property it targets (and reverts),
and records which check/obligation caught it in /verif/seeded/<id>/meta.json and /verif/seeded/RESULTS.md."""
import json, os, re, shutil, subprocess, sys

SEED = "/verif/seeded"
m = json.load(open("/verif/MANIFEST.json"))
cmds = {c["property_id"]: c["quick_cmd"] for c in m["checks"]}
rows = []
only = sys.argv[1:]
for d in sorted(os.listdir(SEED)):
    p = os.path.join(SEED, d)
    if not os.path.isdir(p) or not os.path.exists(os.path.join(p, "patch.diff")):
        continue
    pid = d.split("-")[0]
    if only and pid not in only and d not in only:
        continue
    meta = json.load(open(os.path.join(p, "meta.json")))
    if pid not in cmds:
        meta["detected"] = None
        meta["detected_by"] = "property not claimed (no check)"
        json.dump(meta, open(os.path.join(p, "meta.json"), "w"), indent=1)
        rows.append((d, "no check", ""))
        continue
    r = subprocess.run(["git", "-C", "/repo", "apply", "--check", os.path.join(p, "patch.diff")], capture_output=True, text=True)
    if r.returncode != 0:
        rows.append((d, "patch does not apply to the current /repo HEAD", ""))
        continue
    shutil.rmtree("/tmp/evidence.keep", ignore_errors=True)
    shutil.copytree("/verif/evidence", "/tmp/evidence.keep")
    subprocess.run(["git", "-C", "/repo", "apply", os.path.join(p, "patch.diff")], check=True)
    try:
        r = subprocess.run(cmds[pid], shell=True, cwd="/verif", capture_output=True, text=True, timeout=3600)
    finally:
        subprocess.run(["git", "-C", "/repo", "checkout", "--", "."], check=True)
        shutil.rmtree("/verif/evidence")
        shutil.move("/tmp/evidence.keep", "/verif/evidence")
    viol = [l for l in r.stdout.splitlines() if l.startswith("VIOLATION")]
    obs = sorted({re.sub(r"\[.*?\]", "", re.search(r"obligation=(\S+)", l).group(1)) for l in viol if "obligation=" in l})
    confirmed = any("no-failing-input-found" not in l for l in viol)
    verdict = "VIOLATION" if r.returncode == 1 and viol else {0: "MISSED (exit 0)", 2: "undecided (exit 2)", 3: "checker defect (exit 3)"}.get(r.returncode, f"exit {r.returncode}")
    meta["detected"] = bool(r.returncode == 1 and viol)
    meta["detected_by"] = {"check": cmds[pid], "exit": r.returncode, "obligations": obs[:6], "with_failing_input_replayed": confirmed}
    json.dump(meta, open(os.path.join(p, "meta.json"), "w"), indent=1)
    rows.append((d, verdict + ("" if not viol else (" (failing input replayed)" if confirmed else " (no-failing-input-found)")), ", ".join(obs[:3])))
    print(d, verdict, obs[:2], flush=True)
with open(os.path.join(SEED, "RESULTS.md"), "w") as f:
    f.write("# Seeded mutations vs. checks (quick tier, /repo HEAD + patch)\n\n| seed | verdict | obligations that fail |\n|---|---|---|\n")
    for d, v, o in rows:
        f.write(f"| {d} | {v} | {o} |\n")
