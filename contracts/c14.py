"""C14 - library deps, #includes and instantiated library classes always agree.

Decided by (1) slice obligations on the real text of emit() - the three `*_used` flags are written only by the two
`_ensure_*_globals` closures, the closures are called only from `isinstance(node, ServoDecl|LCDDecl)` arms of the
pass-1 loops, every header string is appended exactly once under exactly its flag, and library class names occur
in no other string constant - which make the flag/header/instantiation logic a function of the *presence* of
declaration kinds only; and (2) exhaustive evaluation (finite back end) of the real parse/emit/
_collect_required_libraries over all presence/multiplicity vectors of the declaration kinds, which by (1) is
complete for the program shapes of the property's quantifier.
"""
import ast
import itertools
import os
import re
import sys
import time

from pyvc.contracts import Registry
from contracts.c08 import real

EMITTER = "Reduino/transpile/emitter.py"
INIT = "Reduino/__init__.py"

PROPERTY = {
    "level": "other",
    "expect_min_obligations": 12,
    "explanation": "Slice obligations (syntactic, on the AST of the real emit()) reduce the three-way agreement to the presence of "
                   "declaration kinds; the finite space of presence/multiplicity vectors (0..2 servos before the loop, 0..2 at the "
                   "top of the loop body, 0..2 parallel LCDs, 0..2 I2C LCDs, with/without unrelated devices) is then evaluated "
                   "exhaustively on the real parse/emit/_collect_required_libraries. Not a symbolic proof of emit(): the "
                   "reduction from all programs to presence vectors rests on the slice obligations plus the assumption that "
                   "emit()'s treatment of a declaration does not depend on its argument values.",
    "trusted_base": ["CPython ast", "the real parser/emitter run under python3-vt"],
    "assumptions": [
        "program shape of the property's quantifier: LCDs declared before the main loop, servos before it or at the top of its body, "
        "distinct device names",
        "data independence of emit() in the declaration arguments (pins, sizes, addresses other than the documented i2c selector)",
        "multiplicities above 2 behave like 2 (the closures are idempotent per name: checked for 0,1,2)",
    ],
}

HEADERS = {"Servo": "Servo.h", "LiquidCrystal": "LiquidCrystal.h", "LiquidCrystal_I2C": "LiquidCrystal_I2C.h"}


def build():
    return Registry()


def _emit_fn(tree):
    return next(n for n in tree.body if isinstance(n, ast.FunctionDef) and n.name == "emit")


def slice_obligations(mods_unused):
    src_dir = os.path.join(os.environ.get("REDUINO_REPO", "/repo"), "src")
    text = open(os.path.join(src_dir, EMITTER), encoding="utf-8").read()
    tree = ast.parse(text)
    emit = _emit_fn(tree)
    out = []

    def ob(name, ok, where, detail=None):
        out.append({"name": f"C14/slice/{name}", "status": "discharged" if ok else "sat", "backend": "static",
                    "where": where, "time": 0.0, "replay": detail, "replay_confirmed": False, "structural": True})
    flags = {"servo_used": "_ensure_servo_globals", "lcd_parallel_used": "_ensure_lcd_globals", "lcd_i2c_used": "_ensure_lcd_globals"}
    closures = {n.name: n for n in ast.walk(emit) if isinstance(n, ast.FunctionDef) and n is not emit}
    # S1: each flag is initialised to False once at emit level and otherwise only set to True inside its closure
    for flag, owner in flags.items():
        stores = []
        for fn_name, fn in [("emit", emit)] + list(closures.items()):
            for n in ast.walk(fn):
                if isinstance(n, ast.Assign):
                    for t in n.targets:
                        if isinstance(t, ast.Name) and t.id == flag:
                            inner = [c for c in closures.values() if c is not fn and any(x is n for x in ast.walk(c))]
                            if fn is emit and inner:
                                continue
                            stores.append((fn_name, n.lineno, ast.unparse(n.value)))
                elif isinstance(n, (ast.AugAssign, ast.AnnAssign, ast.NamedExpr)) and isinstance(getattr(n, "target", None), ast.Name) and n.target.id == flag:
                    stores.append((fn_name, n.lineno, "aug/ann"))
        init = [s for s in stores if s[0] == "emit"]
        sets = [s for s in stores if s[0] != "emit"]
        ok = (len(init) == 1 and init[0][2] == "False" and sets and all(s[0] == owner and s[2] == "True" for s in sets))
        ob(f"S1/{flag}-written-only-by-{owner}", ok,
           f"{flag} is initialised False once and set True only inside {owner}", {"stores": stores})
    # S2: the closures are called only in arms guarded by isinstance(node, <Decl>) directly under the pass-1 loops
    want = {"_ensure_servo_globals": "ServoDecl", "_ensure_lcd_globals": "LCDDecl"}
    parents = {}
    for p in ast.walk(emit):
        for ch in ast.iter_child_nodes(p):
            parents[id(ch)] = p
    for cname, decl in want.items():
        sites, bad = [], []
        for n in ast.walk(emit):
            if isinstance(n, ast.Call) and isinstance(n.func, ast.Name) and n.func.id == cname:
                # climb to the nearest If and For
                cur, guard, loop = n, None, None
                while id(cur) in parents:
                    cur = parents[id(cur)]
                    if isinstance(cur, ast.If) and guard is None:
                        guard = ast.unparse(cur.test)
                    if isinstance(cur, ast.For) and loop is None:
                        loop = ast.unparse(cur.iter)
                    if isinstance(cur, ast.FunctionDef):
                        break
                site = {"line": n.lineno, "guard": guard, "loop": loop, "in": cur.name if isinstance(cur, ast.FunctionDef) else None}
                sites.append(site)
                if guard != f"isinstance(node, {decl})" or (loop or "").split(" or ")[0] not in ("setup_body", "loop_body") or site["in"] != "emit":
                    bad.append(site)
        ob(f"S2/{cname}-called-only-for-{decl}", bool(sites) and not bad,
           f"every call of {cname} sits in an `if isinstance(node, {decl})` arm of a loop over setup_body/loop_body", {"sites": sites})
    # S3: each header text is appended exactly once, directly under `if <its flag>:` at emit level
    hdr_flag = {"Servo.h": "servo_used", "LiquidCrystal.h": "lcd_parallel_used", "LiquidCrystal_I2C.h": "lcd_i2c_used"}
    consts = [(n, parents.get(id(n))) for n in ast.walk(tree) if isinstance(n, ast.Constant) and isinstance(n.value, str)]
    for hdr, flag in hdr_flag.items():
        hits = [n for n, _ in consts if f"#include <{hdr}>" in n.value]
        ok = len(hits) == 1
        guard = None
        if ok:
            cur = hits[0]
            while id(cur) in parents:
                cur = parents[id(cur)]
                if isinstance(cur, ast.If):
                    guard = ast.unparse(cur.test)
                    break
            ok = guard == flag
        ob(f"S3/include-{hdr}-iff-{flag}", ok, f"'#include <{hdr}>' occurs in exactly one string constant, appended under `if {flag}:`",
           {"occurrences": [n.lineno for n in hits], "guard": guard})
    # S4: library class names are instantiated nowhere else (only inside the closures)
    inst = re.compile(r"(?<![\w<])(Servo|LiquidCrystal_I2C|LiquidCrystal)\s+[\{\w]")
    stray = []
    for n, _ in consts:
        if inst.search(n.value):
            owner = None
            for cn, c in closures.items():
                if any(x is n for x in ast.walk(c)):
                    owner = cn
            m = inst.search(n.value).group(1)
            expected_owner = "_ensure_servo_globals" if m == "Servo" else "_ensure_lcd_globals"
            if owner != expected_owner:
                stray.append({"line": n.lineno, "text": n.value[:60], "owner": owner})
    # the Servo object definition may be assembled outside the closure from servo_state; accept definitions built from the
    # closure's own "object" entry
    ob("S4/library-classes-instantiated-only-via-closures", not stray,
       "string constants that define a Servo/LiquidCrystal/LiquidCrystal_I2C object occur only inside the _ensure_* closures",
       {"stray": stray})
    return out


def analyse(src, P, E, R):
    prog = P.parse(src)
    libs = R._collect_required_libraries(prog)
    cpp = E.emit(prog)
    includes = re.findall(r"^#include <(Servo|LiquidCrystal|LiquidCrystal_I2C)\.h>", cpp, re.M)
    classes = set(re.findall(r"^(Servo|LiquidCrystal_I2C|LiquidCrystal) \w+", cpp, re.M))
    return libs, includes, classes


def vector_src(ns, nl, npar, ni2c, other, same_name=False, lcd_order="parallel-first"):
    lines = ["from Reduino.Actuators import Servo, Led", "from Reduino.Displays import LCD", "from Reduino.Sensors import Button"]
    if other:
        lines += ["led = Led(13)", "btn = Button(2)"]
    for k in range(ns):
        lines.append(f"sa{k} = Servo({3 + k})" if not (lcd_order == "servo-default-pin" and k == 0) else "sa0 = Servo()")
    par = [(f"lp{k} = LCD(rs=12, en=11, d4=5, d5=4, d6=3, d7={2 + k})" if lcd_order != "with-rw-pin" else f"lp{k} = LCD(rs=12, en=11, d4=5, d5=4, d6=3, d7={2 + k}, rw=10)")
           for k in range(npar)]
    i2c = [f"li{k} = LCD(i2c_addr={39 + k})" for k in range(ni2c)]
    if lcd_order == "i2c-first":
        lcds = i2c + par
    elif lcd_order == "interleaved":
        lcds = [x for pair in itertools.zip_longest(i2c, par) for x in pair if x]
    else:
        lcds = par + i2c
    if lcd_order == "lcd-before-servo":
        lines = lines[:3 + (2 if other else 0)] + lcds + lines[3 + (2 if other else 0):]
    else:
        lines += lcds
    if lcd_order == "name-rebound-to-servo":
        lines += ["dev = Button(5)", "dev2 = LCD(i2c_addr=38)" if ni2c else "dev2 = Button(6)", "dev = Servo(10)", "dev2 = Servo(11)"]
    lines.append({"header-comment": "while True:  # main loop", "header-paren": "while (True):", "header-blank": "while True :   "}.get(lcd_order, "while True:"))
    if lcd_order == "comment-before-loop-declarations":
        lines += ["# a comment line at column 0 inside the loop body", "    # and an indented one"]
    for k in range(nl):
        lines.append(f"    sb{k} = Servo({6 + k})" if not (lcd_order == "servo-default-pin" and k == 0 and ns == 0) else ("    sb0 = Servo( )" if ni2c else "    sb0 = Servo()"))
    if other:
        lines.append("    led.toggle()")
    for k in range(ns):
        lines.append(f"    sa{k}.write(10)")
    for k in range(nl):
        lines.append(f"    sb{k}.write(20)")
    for k in range(npar):
        lines.append(f"    lp{k}.clear()")
    for k in range(ni2c):
        lines.append(f"    li{k}.clear()")
    lines.append("    pass")
    text = "\n".join(lines) + "\n"
    if lcd_order == "blank-before-parenthesis":
        # `Servo (9)`, `LCD (rs=...)`: a call written with a blank in front of its parenthesis is the same call
        text = text.replace("Servo(", "Servo (").replace("LCD(", "LCD (")
    elif lcd_order == "tab-before-parenthesis":
        text = text.replace("Servo(", "Servo\t(").replace("LCD(", "LCD  (")
    return text


def extra_obligations(mods, tier, seed):
    t0 = time.time()
    out = slice_obligations(mods)
    P, E, R = real("Reduino.transpile.parser"), real("Reduino.transpile.emitter"), real("Reduino")
    fails = {"requested-iff-declared": [], "included-iff-declared": [], "instantiated-iff-declared": [], "no-duplicates": [], "requested-in-platformio-ini-iff-declared": []}
    import configparser
    import shutil
    import tempfile
    from pathlib import Path
    PIO = real("Reduino.toolchain.pio")
    board = sorted(PIO.BOARD_TO_PLATFORM)[0]
    mega_board = next((b for b, pl in sorted(PIO.BOARD_TO_PLATFORM.items()) if pl == "atmelmegaavr"), board)
    scratch = Path(tempfile.mkdtemp(prefix="c14-ini-"))
    ini_cache = {}

    def libs_in_ini(libs, flavour=0):
        """what a PlatformIO-style reader finds under lib_deps after the real write_project rendered these libraries"""
        key = (tuple(libs), flavour)
        if key not in ini_cache:
            d = scratch / f"p{len(ini_cache)}"
            d.mkdir()
            # the two platform families render their own ini: alternate between an atmelavr and an atmelmegaavr board
            b_ = board if flavour == 0 else mega_board
            # what the ini requests is a function of the script, not of the machine: flavour 1 also runs with a PlatformIO home whose
            # global library storage already holds directories named like the libraries
            saved_env = {k_: os.environ.get(k_) for k_ in ("PLATFORMIO_CORE_DIR", "PLATFORMIO_HOME_DIR", "HOME")}
            if flavour == 1:
                home_ = scratch / f"home{len(ini_cache)}"
                for lib_ in ("Servo", "LiquidCrystal", "LiquidCrystal_I2C"):
                    (home_ / ".platformio" / "lib" / lib_).mkdir(parents=True, exist_ok=True)
                    (home_ / "core" / "lib" / lib_).mkdir(parents=True, exist_ok=True)
                os.environ.update({"HOME": str(home_), "PLATFORMIO_CORE_DIR": str(home_ / "core"), "PLATFORMIO_HOME_DIR": str(home_ / "core")})
            try:
                PIO.write_project(d, "void setup(){}\nvoid loop(){}\n", "COM3", platform=PIO.BOARD_TO_PLATFORM[b_], board=b_, lib_deps=list(libs))
            finally:
                for k_, v_ in saved_env.items():
                    if v_ is None:
                        os.environ.pop(k_, None)
                    else:
                        os.environ[k_] = v_
            cp = configparser.RawConfigParser()
            try:
                cp.read(d / "platformio.ini", encoding="utf-8")
                sec = cp.sections()[0]
                ini_cache[key] = [x.strip() for x in cp.get(sec, "lib_deps", fallback="").splitlines() if x.strip()], sorted(k for k in cp.options(sec) if k not in ("platform", "board", "framework", "upload_port", "lib_deps"))
            except Exception as ex:
                ini_cache[key] = [f"<unreadable: {type(ex).__name__}: {ex}>"], []
        return ini_cache[key]
    n = 0
    samples = []
    space = [(ns, nl, npar, ni2c, other, "parallel-first") for ns, nl, npar, ni2c, other in itertools.product(range(3), range(3), range(3), range(3), (False, True))]
    # declaration order of the two LCD kinds (and of displays relative to servos) must not matter
    # the spelling of the main-loop header and comment lines before the declarations at the top of the loop body must not matter either
    space += [(0, 0, npar, ni2c, other, "name-rebound-to-servo") for npar, ni2c, other in itertools.product((0, 1), (0, 1), (False, True))]
    space += [(ns, nl, npar, ni2c, other, "servo-default-pin") for ns, nl, npar, ni2c, other in itertools.product((0, 1), (0, 1), (0, 1), (0, 1), (False, True)) if ns + nl]
    space += [(ns, nl, npar, ni2c, other, order) for order in ("blank-before-parenthesis", "tab-before-parenthesis")
              for ns, nl, npar, ni2c, other in itertools.product((0, 1), (0, 1), (0, 1), (0, 1), (False, True))]
    space += [(ns, nl, npar, ni2c, other, order) for order in ("header-comment", "header-paren", "header-blank", "comment-before-loop-declarations")
              for ns, nl, npar, ni2c, other in itertools.product((0, 1), (1, 2), (0, 1), (0, 1), (False, True))]
    space += [(ns, nl, npar, ni2c, other, order) for order in ("i2c-first", "interleaved", "lcd-before-servo", "with-rw-pin")
              for ns, nl, npar, ni2c, other in itertools.product((0, 1), (0, 1), (1, 2), (0, 1, 2) if order == "with-rw-pin" else (1, 2), (False, True))]
    for ns, nl, npar, ni2c, other, order in space:
        src = vector_src(ns, nl, npar, ni2c, other, lcd_order=order)
        n += 1
        try:
            libs, includes, classes = analyse(src, P, E, R)
        except Exception as ex:
            fails["requested-iff-declared"].append({"vector": [ns, nl, npar, ni2c, other, order], "error": f"{type(ex).__name__}: {ex}"})
            continue
        declared = set()
        if ns + nl or order == "name-rebound-to-servo":
            declared.add("Servo")
        if order == "name-rebound-to-servo" and ni2c:
            declared.add("LiquidCrystal_I2C")
        if npar:
            declared.add("LiquidCrystal")
        if ni2c:
            declared.add("LiquidCrystal_I2C")
        vec = {"vector": {"servo_setup": ns, "servo_loop_top": nl, "lcd_parallel": npar, "lcd_i2c": ni2c, "other": other, "order": order},
               "libs": libs, "includes": includes, "classes": sorted(classes)}
        if set(libs) != declared:
            fails["requested-iff-declared"].append(vec)
        if set(includes) != declared:
            fails["included-iff-declared"].append(vec)
        if classes != declared:
            fails["instantiated-iff-declared"].append(vec)
        if len(libs) != len(set(libs)) or len(includes) != len(set(includes)):
            fails["no-duplicates"].append(vec)
        for flavour in (0, 1):
            ini_libs, stray = libs_in_ini(libs, flavour)
            if set(ini_libs) != declared or len(ini_libs) != len(set(ini_libs)) or [k_ for k_ in stray if k_ != "monitor_port"]:
                fails["requested-in-platformio-ini-iff-declared"].append(dict(vec, board=[board, mega_board][flavour], lib_deps_read_back=ini_libs, stray_keys=stray))
                break
        if len(samples) < 5 and n % 37 == 0:
            samples.append(vec)
    shutil.rmtree(scratch, ignore_errors=True)
    dt = round(time.time() - t0, 3)
    for k, f in fails.items():
        out.append({"name": f"C14/vectors/{k}", "status": "discharged" if not f else "sat", "backend": "enum",
                    "where": f"over all {n} presence/multiplicity vectors: {k}", "time": dt / 5,
                    "replay": {"failing": len(f), "examples": f[:3]}, "replay_confirmed": bool(f)})
    # the project that the real target() writes (transpile only, upload=False): the libraries in its platformio.ini are the ones its
    # src/main.cpp includes - for a sample of the vectors
    import sys as _sys
    import types as _types
    t2 = time.time()
    bad_t, n_t = [], 0
    scratch2 = Path(tempfile.mkdtemp(prefix="c14-target-"))
    saved_main, saved_tmpdir = _sys.modules["__main__"], tempfile.tempdir
    try:
        tempfile.tempdir = str(scratch2)
        for ns, nl, npar, ni2c, other, order in [v for k, v in enumerate(space) if k % 11 == 0][:24]:
            src = vector_src(ns, nl, npar, ni2c, other, lcd_order=order)
            script = scratch2 / f"s{n_t}.py"
            script.write_text(src, encoding="utf-8")
            fake = _types.ModuleType("__main__")
            fake.__file__ = str(script)
            _sys.modules["__main__"] = fake
            before = set(os.listdir(scratch2))
            n_t += 1
            try:
                import contextlib as _ctx
                import io as _io
                with _ctx.redirect_stdout(_io.StringIO()):
                    R.target("COM3", upload=False)
            except Exception as ex:
                bad_t.append({"vector": [ns, nl, npar, ni2c, other, order], "problem": f"target() raised {type(ex).__name__}: {ex}"})
                continue
            finally:
                _sys.modules["__main__"] = saved_main
            made = [d for d in set(os.listdir(scratch2)) - before if (scratch2 / d).is_dir()]
            if len(made) != 1:
                bad_t.append({"vector": [ns, nl, npar, ni2c, other, order], "problem": f"{len(made)} project directories created"})
                continue
            proj = scratch2 / made[0]
            cpp_t = (proj / "src" / "main.cpp").read_text(encoding="utf-8")
            inc = set(re.findall(r"^#include <(Servo|LiquidCrystal|LiquidCrystal_I2C)\.h>", cpp_t, re.M))
            cp = configparser.RawConfigParser()
            try:
                cp.read(proj / "platformio.ini", encoding="utf-8")
                sec = cp.sections()[0]
                ini_libs = {x.strip() for x in cp.get(sec, "lib_deps", fallback="").splitlines() if x.strip()}
            except (configparser.Error, IndexError) as ex:
                bad_t.append({"vector": {"servo_setup": ns, "servo_loop_top": nl, "lcd_parallel": npar, "lcd_i2c": ni2c, "order": order}, "included_by_main_cpp": sorted(inc),
                              "problem": f"the written platformio.ini cannot be read the way PlatformIO reads it: {type(ex).__name__}: {str(ex)[-160:]}"})
                continue
            if ini_libs != inc:
                bad_t.append({"vector": {"servo_setup": ns, "servo_loop_top": nl, "lcd_parallel": npar, "lcd_i2c": ni2c, "order": order}, "included_by_main_cpp": sorted(inc), "lib_deps_in_platformio_ini": sorted(ini_libs)})
    finally:
        _sys.modules["__main__"] = saved_main
        tempfile.tempdir = saved_tmpdir
        shutil.rmtree(scratch2, ignore_errors=True)
    out.append({"name": "C14/target/written-project-requests-what-it-includes", "status": "discharged" if not bad_t else "sat", "backend": "enum", "bounded": True,
                "where": f"{n_t} vectors through the real target(port, upload=False): lib_deps of the written platformio.ini = headers included by the written src/main.cpp",
                "time": round(time.time() - t2, 3), "replay": {"failing": bad_t[:3]}, "replay_confirmed": bool(bad_t)})
    # interface selection in the parser: i2c_addr present <=> interface i2c (any constant address, incl. 0)
    t1 = time.time()
    bad = []
    for addr in ("0", "0x00", "0x27", "39", "addr"):
        src = f"from Reduino.Displays import LCD\naddr = 63\nlcd = LCD(i2c_addr={addr})\nlcd.clear()\n"
        try:
            libs, includes, classes = analyse(src, P, E, R)
            if libs != ["LiquidCrystal_I2C"] or includes != ["LiquidCrystal_I2C"] or classes != {"LiquidCrystal_I2C"}:
                bad.append({"i2c_addr": addr, "libs": libs, "includes": includes, "classes": sorted(classes)})
        except Exception as ex:
            bad.append({"i2c_addr": addr, "error": f"{type(ex).__name__}: {ex}"})
    out.append({"name": "C14/interface-selection/i2c-address-values", "status": "discharged" if not bad else "sat",
                "backend": "enum", "where": "an I2C LCD is I2C on all three sides for address literals 0, 0x00, 0x27, 39 and a variable",
                "time": round(time.time() - t1, 3), "replay": {"examples": bad}, "replay_confirmed": bool(bad)})
    _S["n"], _S["samples"] = n, samples
    return out


_S = {}


def extra_evidence():
    return {"vectors_enumerated": _S.get("n"), "samples_vectors": _S.get("samples"), "exhaustive": True,
            "evaluations": _S.get("n", 0) + 5, "distinct_nontrivial": _S.get("n", 0)}
