"""Spec-level functions over modelled dicts (array + domain), shared by contract modules."""
import z3
from .sym import V, INT, STR, vbool, as_int_term
from .pyval import PyKey, key_of


def _cell(st, m):
    return m.t if m.k == "cell" else st.heap[m.t]


def install_map_funcs(eng):
    def key(e, st, v):
        return V("pykey", key_of(v))

    def has(e, st, m, k):
        kk = k.t if k.k == "pykey" else key_of(k)
        return vbool(z3.Select(_cell(st, m).dom, kk))

    def at(e, st, m, k):
        c = _cell(st, m)
        kk = k.t if k.k == "pykey" else key_of(k)
        return V(c.vk, z3.Select(c.arr, kk))

    def is_store(e, st, new, old, k, v):
        cn, co = _cell(st, new), _cell(st, old)
        kk = k.t if k.k == "pykey" else key_of(k)
        val = as_int_term(v) if co.vk == INT else v.t
        return vbool(z3.And(cn.arr == z3.Store(co.arr, kk, val), cn.dom == z3.Store(co.dom, kk, z3.BoolVal(True))))

    def is_store2(e, st, new, old, k1, v1, k2, v2):
        cn, co = _cell(st, new), _cell(st, old)
        a = z3.Store(z3.Store(co.arr, key_of(k1), v1.t), key_of(k2), v2.t)
        d = z3.Store(z3.Store(co.dom, key_of(k1), z3.BoolVal(True)), key_of(k2), z3.BoolVal(True))
        return vbool(z3.And(cn.arr == a, cn.dom == d))

    def same_map(e, st, a, b):
        ca, cb = _cell(st, a), _cell(st, b)
        return vbool(z3.And(ca.arr == cb.arr, ca.dom == cb.dom))

    def same_key(e, st, a, b):
        return vbool(a.t == b.t)

    def truthy(e, st, v):
        return vbool(list(e.truth(v, st))[0][1])

    eng.spec_funcs.update(key=key, has=has, at=at, is_store=is_store, is_store2=is_store2, same_map=same_map,
                          same_key=same_key, truthy=truthy)
