"""Path state of the symbolic executor (immutable-by-copy)."""
from __future__ import annotations

import z3
from .sym import *  # noqa


class Obj:
    __slots__ = ("cls", "fields")

    def __init__(self, cls, fields):
        self.cls = cls
        self.fields = fields


class CList:
    """Python list whose length is static on this path."""
    __slots__ = ("items",)

    def __init__(self, items):
        self.items = tuple(items)


class SList:
    """Python list of statically-kinded elements with symbolic length (z3 Seq)."""
    __slots__ = ("seq", "ek")

    def __init__(self, seq, ek):
        self.seq = seq
        self.ek = ek


class AList:
    """list with symbolic length as array int->elem plus length (good for indexed reads/writes)"""
    __slots__ = ("arr", "n", "ek")

    def __init__(self, arr, n, ek):
        self.arr = arr
        self.n = n
        self.ek = ek


class CharList:
    """list(str): a list of one-character strings, represented by the string itself"""
    __slots__ = ("s",)

    def __init__(self, s):
        self.s = s


class Map:
    """dict: z3 Array key->value plus domain Array key->Bool. Keys are PyKey terms."""
    __slots__ = ("arr", "dom", "vk")

    def __init__(self, arr, dom, vk):
        self.arr = arr
        self.dom = dom
        self.vk = vk


class Ext:
    """External object: every method call is resolved to an assumed contract."""
    __slots__ = ("name",)

    def __init__(self, name):
        self.name = name


class State:
    __slots__ = ("frames", "sframes", "heap", "ghost", "glob", "pc", "next_id", "trail")

    def __init__(self):
        self.frames = [{}]
        self.sframes = []
        self.heap = {}
        self.ghost = {}
        self.glob = {}
        self.pc = []
        self.next_id = [1]
        self.trail = []

    def copy(self):
        s = State.__new__(State)
        s.frames = [dict(f) for f in self.frames]
        s.sframes = list(self.sframes)
        s.heap = dict(self.heap)
        s.ghost = dict(self.ghost)
        s.glob = dict(self.glob)
        s.pc = list(self.pc)
        s.next_id = self.next_id
        s.trail = list(self.trail)
        return s

    @property
    def locals(self):
        return self.frames[-1]

    def alloc(self, cell):
        i = self.next_id[0]
        self.next_id[0] += 1
        self.heap[i] = cell
        return V(REF, i)

    def assume(self, b):
        if z3.is_true(b):
            return
        self.pc.append(b)


class Raised:
    __slots__ = ("cls", "value")

    def __init__(self, cls, value=None):
        self.cls = cls
        self.value = value

    def __repr__(self):
        return f"Raised({self.cls})"
