"""Check driver for pyvc-based properties.

    python3-vt -m pyvc.driver <PROPERTY-ID> [--tier quick|thorough] [--write-baseline]

exit 0: every obligation discharged (or matched by a listed known finding)
exit 1: VIOLATION property=<id> replay=<path>
exit 2: undecided (tool limit / new undischarged obligation without a replayable input)
exit 3: checker defect
"""
from __future__ import annotations

import argparse
import fnmatch
import hashlib
import importlib
import json
import multiprocessing as mp
import os
import random
import subprocess
import sys
import tempfile
import time

ROOT = os.path.dirname(os.path.dirname(os.path.abspath(__file__)))
sys.path.insert(0, ROOT)

from pyvc import loader, prove, typespec  # noqa

NATIVE_PY = "/venv/bin/python"

_G = {}


def _init(modname):
    _G["reg"] = importlib.import_module(modname).build()
    files = sorted({f for (f, _) in _G["reg"].contracts if f != "<extern>"})
    _G["mods"] = loader.load(files)
    _G["setup"] = getattr(importlib.import_module(modname), "engine_setup", None)
    _G["reg"].pinned_locals = _G.get("pinned_locals", {})
    _G["reg"].pinned_roles = _G.get("pinned_roles", {})


def _has(mod, qual):
    try:
        mod.find(qual)
        return True
    except Exception:
        return False


def _job(args):
    file, qual, variant, timeout_ms, pid = args
    r = prove.prove_variant(_G["reg"], _G["mods"], file, qual, variant, timeout_ms, prefix=f"{pid}/",
                            extra_setup=_G["setup"])
    return {"unit": qual, "file": file, "variant": r.variant, "status": r.status, "detail": r.detail,
            "paths": r.paths, "obligations": r.obligations, "inlined": r.inlined, "unrolled": r.unrolled,
            "time": r.time}


def run_native(modname, jobs, repo):
    if not jobs:
        return []
    with tempfile.TemporaryDirectory(prefix="pyvc-native-") as d:
        jp, op = os.path.join(d, "jobs.json"), os.path.join(d, "out.json")
        json.dump(jobs, open(jp, "w"))
        env = dict(os.environ, REDUINO_REPO=repo, PYTHONHASHSEED="0")
        env.pop("PYTHONPATH", None)
        r = subprocess.run([NATIVE_PY, os.path.join(ROOT, "pyvc", "native.py"), modname, jp, op],
                           capture_output=True, text=True, env=env, cwd=ROOT, timeout=1800)
        if r.returncode != 0 or not os.path.exists(op):
            raise RuntimeError("native harness failed: " + r.stderr[-2000:])
        return json.load(open(op))


def model_to_job(res, ob, idx):
    m = ob.get("model") or {}
    job = {"id": idx, "file": res["file"], "unit": res["unit"], "params": {}, "self": None,
           "ghost": {}, "obligation": ob["name"]}
    for k, v in m.items():
        if k == "self":
            job["self"] = {f: x for f, x in v.items() if f != "$obj"} if isinstance(v, dict) else None
        elif k == "$ghost":
            g = {}
            for gk, gv in v.items():
                g[gk] = float(eval_frac(gv)) if isinstance(gv, dict) and "real" in gv else gv
            job["ghost"] = g
        elif k == "$glob":
            job["globs"] = {n: (x.get("$map") if isinstance(x, dict) else x) for n, x in v.items()}
        else:
            job["params"][k] = v
    return job


def eval_frac(v):
    from fractions import Fraction
    return Fraction(v["real"]) if isinstance(v, dict) and "real" in v else v


def clause_of(name):
    # "<pid>/<unit>[variant]/<clause>"
    i = name.find("]/")
    if i >= 0:
        return name[i + 2:]
    parts = name.split("/", 2)
    return parts[2] if len(parts) > 2 else name


def stable_name(name):
    return name


def main(argv=None):
    ap = argparse.ArgumentParser()
    ap.add_argument("pid")
    ap.add_argument("--tier", default=os.environ.get("VERIF_TIER", "quick"))
    ap.add_argument("--write-baseline", action="store_true")
    ap.add_argument("--module", default=None)
    ap.add_argument("--filter", default="")
    ap.add_argument("--jobs", type=int, default=min(16, os.cpu_count() or 4))
    ap.add_argument("--replay", default=None)
    a = ap.parse_args(argv)
    pid = a.pid
    modname = a.module or f"contracts.{pid.lower()}"
    if a.replay:
        rp = json.load(open(a.replay))
        cm = importlib.import_module(modname)
        reg = cm.build()
        if not rp.get("model"):
            # finite-back-end / static obligation: re-evaluate it on the current tree
            obs = cm.extra_obligations(None, "quick", 0) if hasattr(cm, "extra_obligations") else []
            hit = [o for o in obs if o["name"] == rp["obligation"]]
            print(json.dumps(hit, indent=1, default=str)[:4000])
            bad = any(o["status"] != "discharged" for o in hit)
            print("REPLAY: obligation fails on the current tree" if bad else "REPLAY: obligation holds on the current tree")
            return 1 if bad else 0
        unit = rp["obligation"].split("/", 1)[1].split("[")[0].split("/")[0]
        file = next(f for (f, q) in reg.contracts if q == unit)
        job = model_to_job({"file": file, "unit": unit}, {"model": rp["model"], "name": rp["obligation"]}, "replay")
        out = run_native(modname, [job], os.environ.get("REDUINO_REPO", "/repo"))
        print(json.dumps(out, indent=1))
        bad = bool(out and out[0].get("failed"))
        print("REPLAY: contract clause(s) fail on the real code" if bad else "REPLAY: no clause fails natively")
        return 1 if bad else 0
    seed = int(os.environ.get("VERIF_SEED", "0"))
    tier = "thorough" if a.tier == "thorough" else "quick"
    timeout_ms = 60000 if tier == "thorough" else 10000
    repo = os.environ.get("REDUINO_REPO", "/repo")
    t0 = time.time()
    cm = importlib.import_module(modname)
    build_error = None
    try:
        reg = cm.build()
    except Exception as ex:
        # the contract module cannot be set up on this tree (e.g. the emitted helper templates are outside the translator's reach after a
        # change): no unit is proved, but the executed / finite obligations and the verdict protocol still apply - a harness failure is
        # never by itself a verdict about the property
        from pyvc.contracts import Registry
        tool_limit = type(ex).__name__ in ("Untranslatable", "ToolLimit")
        build_error = {"unit": "<contract module set-up>", "variant": "", "status": "toollimit" if tool_limit else "crash",
                       "detail": f"{type(ex).__name__}: {str(ex)[-600:]}", "obligations": [], "time": 0.0, "file": "<set-up>", "paths": 0, "inlined": [], "unrolled": []}
        reg = Registry()
    meta = getattr(cm, "PROPERTY", {})
    files = sorted({f for (f, _) in reg.contracts if f != "<extern>"})
    try:
        mods = loader.load(files)
    except Exception as ex:
        print(f"UNDECIDED property={pid}: cannot read sources: {ex}")
        return 2
    jobs, missing = [], []
    for (file, qual), c in reg.contracts.items():
        if c.extern or c.inline or file == "<extern>" or a.filter not in qual:
            continue
        try:
            mods[file].find(qual)
        except KeyError:
            missing.append(f"{file}:{qual}")
            continue
        cd = reg.classes.get(qual.split(".")[0]) if "." in qual else None
        for variant in prove.variant_space(c, cd, "." in qual, c.is_init):
            jobs.append((file, qual, variant, timeout_ms, pid))
    base_path0 = os.path.join(ROOT, "baseline", f"{pid}.json")
    _G["pinned_locals"] = json.load(open(base_path0)).get("locals", {}) if os.path.exists(base_path0) else {}
    _G["pinned_roles"] = json.load(open(base_path0)).get("roles", {}) if os.path.exists(base_path0) else {}
    if build_error is None:
        with mp.Pool(a.jobs, initializer=_init, initargs=(modname,)) as pool:
            results = pool.map(_job, jobs, chunksize=1)
    else:
        results = [build_error]

    # ---- second chance for solver timeouts: a variant with `unknown` obligations is re-proved alone (no load from the
    #      other 15 workers) with three times the budget, so that a verdict does not flip because the machine was busy
    retry = [i for i, r in enumerate(results) if any(o["status"] == "unknown" and not o["name"].endswith("/mustfail") for o in r["obligations"])]
    if retry and len(retry) <= 12:
        _init(modname)
        for i in retry:
            file, qual, variant, _, _ = jobs[i]
            results[i] = _job((file, qual, variant, timeout_ms * 3, pid))
            results[i]["retried"] = True

    # ---- extra (non-pyvc) obligations supplied by the contract module (finite back end, static scans)
    extra = []
    if hasattr(cm, "extra_obligations"):
        try:
            extra = cm.extra_obligations(mods, tier, seed)   # list of dict(name,status,backend,where,time,[replay])
        except Exception as ex:
            # a crash of the checker's own harness is never a verdict about the property (and never exit 1)
            import traceback
            traceback.print_exc()
            print(f"CHECKER-DEFECT property={pid}: the finite/bounded back end crashed: {type(ex).__name__}: {str(ex)[-300:]}")
            return 3

    obligations = []
    broken_units = []
    for r in results:
        if r["status"] != "ok":
            broken_units.append(r)
        for o in r["obligations"]:
            o["_res"] = r
            obligations.append(o)
    for o in extra:
        o["_res"] = None
        obligations.append(o)
    n_total = len(obligations)
    undis = [o for o in obligations if o["status"] != "discharged" and not o["name"].endswith("/mustfail")]
    mustfail = [o for o in obligations if o["name"].endswith("/mustfail")]
    vacuous = [o for o in mustfail if o["status"] == "discharged"]
    real_obs = [o for o in obligations if not o["name"].endswith("/mustfail") and not o.get("bounded") and not o.get("probe")]

    # ---- native: replay of counterexamples + random cross-check of the contracts on the real code
    replay_jobs = []
    for i, o in enumerate(undis):
        if o.get("model") and o["_res"] is not None and not str(o["_res"].get("file", "")).startswith("@"):
            replay_jobs.append(model_to_job(o["_res"], o, f"replay{i}"))
            o["_replay_id"] = f"replay{i}"
    rnd = random.Random(seed)
    cross_jobs = []
    if hasattr(cm, "native_samples") and not a.filter:
        n_samples = 400 if tier == "thorough" else 40
        cross_jobs = cm.native_samples(reg, rnd, n_samples)
    native_out = {}
    native_err = None
    try:
        for res in run_native(modname, replay_jobs + cross_jobs, repo):
            native_out[res.get("id")] = res
    except Exception as ex:
        native_err = str(ex)
    cross_fail, cross_run, cross_skipped, cross_raised = [], 0, 0, 0
    for j in cross_jobs:
        res = native_out.get(j["id"])
        if res is None or "harness_error" in (res or {}):
            cross_fail.append({"job": j, "result": res})
            continue
        if "skipped" in res:
            cross_skipped += 1
            continue
        cross_run += 1
        cross_raised += 1 if res.get("raised") else 0
        if res["failed"]:
            cross_fail.append({"job": j, "result": res})

    # ---- known findings and baseline
    kf_path = os.path.join(ROOT, "known_findings.json")
    known = [k for k in json.load(open(kf_path)).get("findings", []) if k["property"] == pid] if os.path.exists(kf_path) else []
    base_path = os.path.join(ROOT, "baseline", f"{pid}.json")
    baseline = set(json.load(open(base_path))["discharged"]) if os.path.exists(base_path) else None
    unproved_listed = set(json.load(open(base_path)).get("unproved", [])) if os.path.exists(base_path) else set()
    unproved_hits = []

    os.makedirs(os.path.join(ROOT, "replay", pid), exist_ok=True)
    violations, known_hits, undecided = [], [], []
    for o in undis:
        nat = native_out.get(o.get("_replay_id"))
        confirmed = bool(nat and not nat.get("skipped") and nat.get("failed"))
        if not confirmed and o.get("model") and hasattr(cm, "replay_model"):
            # contract module's own replay of the counterexample on the real code (e.g. the firmware run on the fwsim mock)
            try:
                rr = cm.replay_model(o)
            except Exception as ex:
                rr = {"failed": False, "error": f"{type(ex).__name__}: {ex}"}
            if rr is not None:
                o["replay"] = rr
                if rr.get("failed"):
                    o["replay_confirmed"] = True
        kf = next((k for k in known if (o["name"] in k["obligations"] if "obligations" in k else fnmatch.fnmatch(o["name"], k["obligation"]))), None)
        if kf is not None:
            known_hits.append((kf, o))
            continue
        in_base = baseline is not None and o["name"] in baseline
        # run-time-error obligations (`…/rte/no-overflow-i16#k`, division by zero, conversion range) are numbered by the operations of the
        # code: after a change the k-th operation is another one.  Every such obligation of the pinned tree was discharged (the check was
        # green), so one that now has a counter-model is a regression of "this unit has no run-time error", whatever its number
        if not in_base and baseline is not None and "/rte/" in o["name"] and o["status"] == "sat" and o.get("model") is not None:
            in_base = True
        if o.get("structural"):
            # an obligation about the shape of the proof (slice/frame of the code), not about behaviour: its failure
            # leaves the property undecided; only a behavioural obligation with a failing input is a violation.
            # Sites that were already unproved on the pinned tree are listed in the baseline and reported as such.
            if o["name"] in unproved_listed:
                unproved_hits.append(o)
            else:
                undecided.append(o)
            continue
        if o.get("replay_confirmed"):
            confirmed = True
        if confirmed or in_base:
            path = os.path.join(ROOT, "replay", pid, hashlib.sha1(o["name"].encode()).hexdigest()[:12] + ".json")
            json.dump({"property": pid, "obligation": o["name"], "clause": o.get("where"), "status": o["status"],
                       "backend": o.get("backend"), "solver_reason": o.get("reason"), "model": o.get("model"),
                       "native_replay": nat, "confirmed_on_real_code": confirmed,
                       "extra": o.get("replay"),
                       "reproduce": f"cd {ROOT} && REDUINO_REPO={repo} python3-vt -m pyvc.driver {pid}"},
                      open(path, "w"), indent=1, default=str)
            violations.append((o, path, confirmed))
        else:
            undecided.append(o)

    # contracts contradicted by the real code on sampled inputs although proved: engine/contract defect
    defect = []
    proved_units = {(r["file"], r["unit"]) for r in results}
    failing_units = {(o["_res"]["file"], o["_res"]["unit"]) for o in undis if o["_res"]}
    # (a unit whose contract can no longer be read against the code - a local it names is gone - is as unproved as one beyond a tool limit)
    unproved_units = {(r["file"], r["unit"]) for r in broken_units if r["status"] not in ("crash",)}
    # a unit (or an inlined callee of it) outside the verifier's reach is not proved; if the native cross-check of its
    # contract then fails on the REAL code with a concrete input, that input is a replayed violation of the contract
    inlined_into = {}
    for (file, qual), c in reg.contracts.items():
        if getattr(c, "inline", False):
            inlined_into.setdefault(file, set()).add(qual)
    for cf in cross_fail:
        j = cf["job"]
        res = cf.get("result") or {}
        if (j["file"], j["unit"]) in failing_units:
            continue
        # (if any unit of the check is unproved, no unit's "proved" status stands on its own: callers rest on callee contracts)
        # A contract that was PROVED and still fails on the real code for a concrete input is reported as the violation it is (the input
        # is replayed on the real function); that the proof did not see it is a gap of the verifier's model of Python - object identity
        # (`is` on strings), two names bound to one object (`a = b = {}`) - and is said so in the replay file.  On the pinned tree every
        # native cross-check passes, so this never fires there.
        if res.get("failed") and "harness_error" not in res:
            name = f"{pid}/{j['unit']}/native-contract-check"
            path = os.path.join(ROOT, "replay", pid, hashlib.sha1((name + json.dumps(j.get("params"), default=str)).encode()).hexdigest()[:12] + ".json")
            json.dump({"property": pid, "obligation": name, "clause": res.get("failed"), "status": "native-failure", "backend": "native",
                       "model": {"params": j.get("params"), "self": j.get("self")}, "native_replay": res, "confirmed_on_real_code": True,
                       "note": ("the unit is outside the verifier's reach on this tree (tool limit); its contract fails on the real code for this input" if unproved_units else
                                "the contract was proved from the source and yet fails on the real code for this input: the verifier's model of Python misses what this code does "
                                "(object identity, aliasing of module-level objects, ...); the failure on the real code stands"),
                       "reproduce": f"cd {ROOT} && REDUINO_REPO={repo} python3-vt -m pyvc.driver {pid}"}, open(path, "w"), indent=1, default=str)
            if not any(v[0]["name"] == name for v in violations):
                violations.append(({"name": name, "where": str(res.get("failed"))[:200], "status": "sat"}, path, True))
            continue
        defect.append(cf)

    # ---- evidence
    by_backend = {}
    for o in real_obs:
        if o["status"] == "discharged":
            by_backend[o["backend"]] = by_backend.get(o["backend"], 0) + 1
    discharged = sum(1 for o in real_obs if o["status"] == "discharged")
    units = sorted({(r["file"], r["unit"]) for r in results})
    solver_time = round(sum(o.get("time", 0) for o in obligations), 2)
    level = meta.get("level", "proof")
    samples = [{"obligation": o["name"], "clause": o.get("where"), "backend": o.get("backend"), "status": o["status"]}
               for o in rnd.sample(real_obs, min(8, len(real_obs)))]
    ev = {
        "property_id": pid, "tier": tier, "seed": seed, "level": level,
        "coverage": {
            "obligations": len(real_obs), "discharged": discharged,
            "unproved_sites": [{"obligation": o["name"], "why": o.get("where")} for o in unproved_hits],
            "discharged_by_backend": by_backend,
            "known_finding_obligations": len(known_hits),
            "checker_cmd": f"python3-vt -m pyvc.driver {pid} --tier {tier}",
            "trusted_base": meta.get("trusted_base", []),
            "units_under_contract": [f"{f}:{u}" for f, u in units],
            "unit_variants": len(results),
            "symbolic_paths": sum(r["paths"] for r in results),
            "inlined_helpers": sorted({x for r in results for x in r["inlined"]}),
            "unrolled_constant_loops": sorted({tuple(x) for r in results for x in r["unrolled"]}),
            "assumed_contracts": sorted(f"{f}:{q}" for (f, q), c in reg.contracts.items() if c.extern),
            "source_sha256": {f: m.sha256 for f, m in mods.items()},
            "solver_time_s": solver_time,
            "vacuity": {"mustfail_obligations": len(mustfail), "mustfail_vacuous": len(vacuous)},
            "native_cross_check": {"runs": cross_run, "skipped_pre": cross_skipped, "raising_runs": cross_raised,
                                   "contract_failures": len(cross_fail)},
            "samples": samples,
            "explanation": meta.get("explanation", ""),
            "evaluations": len(real_obs), "distinct_nontrivial": sum(1 for o in real_obs if o.get("backend") != "simplify"),
            "rule": "one obligation per (unit, kind variant, symbolic path, contract clause); non-trivial = needed a solver or enumeration (not closed by term simplification)",
            "bounded": meta.get("bounded", []),
        },
        "assumptions": meta.get("assumptions", []),
        "wall_s": round(time.time() - t0, 2),
        "violations": len(violations),
    }
    if hasattr(cm, "extra_evidence"):
        ev["coverage"].update(cm.extra_evidence())
    # every obligation labelled bounded (executed / sampled stand-ins), whether or not the contract module describes its bound: never part of
    # "obligations"/"discharged" above, never counted as proved
    b_obs = [o for o in obligations if o.get("bounded") and not o["name"].endswith("/mustfail")]
    ev["coverage"]["bounded_stand_ins"] = {"count": len(b_obs), "held": sum(1 for o in b_obs if o["status"] == "discharged"),
                                           "by_backend": {k: sum(1 for o in b_obs if (o.get("backend") or "?") == k) for k in sorted({o.get("backend") or "?" for o in b_obs})},
                                           "obligations": [{"name": o["name"], "what": (o.get("where") or "")[:300], "status": o["status"]} for o in b_obs[:400]]}
    os.makedirs(os.path.join(ROOT, "evidence"), exist_ok=True)
    json.dump(ev, open(os.path.join(ROOT, "evidence", f"{pid}.json"), "w"), indent=1, default=str)

    # ---- verdict
    print(f"[{pid}] units={len(units)} variants={len(results)} obligations={len(real_obs)} discharged={discharged} "
          f"backends={by_backend} native_runs={cross_run} wall={ev['wall_s']}s")
    rc = 0
    for kf, o in known_hits:
        pass
    for o in unproved_hits:
        print(f"UNPROVED-SITE property={pid} {o['name']}: {o.get('where')} (listed as unproved on the pinned tree; not counted as discharged)")
    for kf in {json.dumps(k, sort_keys=True) for k, _ in known_hits}:
        k = json.loads(kf)
        print(f"KNOWN-FINDING: property={pid} {k['what']}")
    if a.write_baseline:
        os.makedirs(os.path.join(ROOT, "baseline"), exist_ok=True)
        json.dump({"property": pid, "discharged": sorted(o["name"] for o in real_obs if o["status"] == "discharged"),
                   "unproved": sorted(o["name"] for o in real_obs if o["status"] != "discharged" and o.get("structural")),
                   "locals": {f"{file}:{qual}": prove.ordered_locals(mods[file].find(qual)) for (file, qual), c in reg.contracts.items()
                              if not c.extern and file in mods and not file.startswith("@") and _has(mods[file], qual)},
                   "roles": {f"{file}:{qual}": prove.local_roles(mods[file].find(qual)) for (file, qual), c in reg.contracts.items()
                             if not c.extern and file in mods and not file.startswith("@") and _has(mods[file], qual)}},
                  open(base_path, "w"), indent=0)
        print(f"baseline written: {base_path}")
    if native_err:
        print(f"CHECKER-DEFECT property={pid}: {native_err}")
        return 3
    # one line per (unit, clause): kind variants of the same failing clause are grouped, a variant whose
    # counterexample replays on the real code is preferred as the representative
    groups = {}
    for o, path, confirmed in violations:
        key = (o["name"].split("[")[0], clause_of(o["name"]))
        cur = groups.get(key)
        if cur is None or (confirmed and not cur[2]):
            groups[key] = (o, path, confirmed, (cur[3] if cur else 0) + 1)
        else:
            groups[key] = (cur[0], cur[1], cur[2], cur[3] + 1)
    for (unit, clause), (o, path, confirmed, n) in groups.items():
        tail = "" if confirmed else " no-failing-input-found"
        print(f"VIOLATION property={pid} replay={path} obligation={o['name']} variants={n}{tail}")
        rc = 1
    if rc:
        return rc
    crash = [r for r in broken_units if r["status"] in ("crash", "specerror")]
    if crash:
        for r in crash[:5]:
            print(f"CHECKER-DEFECT property={pid} unit={r['unit']}[{r['variant']}]: {r['detail'][-600:]}")
        return 3
    if vacuous:
        print(f"CHECKER-DEFECT property={pid}: vacuous path(s): {[o['name'] for o in vacuous[:3]]}")
        return 3
    if defect:
        d = defect[0]
        print(f"CHECKER-DEFECT property={pid}: contract proved but the real code contradicts it natively: "
              f"{json.dumps(d, default=str)[:1500]}")
        return 3
    if missing:
        print(f"UNDECIDED property={pid}: units not found in the source: {missing}")
        return 2
    if broken_units:
        for r in broken_units[:5]:
            print(f"UNDECIDED property={pid} unit={r['unit']}[{r['variant']}]: tool limit: {r['detail']}")
        return 2
    if undecided:
        for o in undecided[:8]:
            print(f"UNDECIDED property={pid} obligation={o['name']} status={o['status']} ({o.get('where')}) model={o.get('model')}")
        return 2
    if baseline is not None:
        # call-site obligations (`…@callee#k…`) follow the call structure of the code (extracting or inlining a helper renames them);
        # the clauses that carry the property (post / raises / frame / invariants / lemmas) must all still be generated
        have = {o["name"] for o in real_obs}
        lost = [n for n in baseline if n not in have and "@" not in n.rsplit("]/", 1)[-1]]
        if lost:
            print(f"UNDECIDED property={pid}: {len(lost)} obligations of the pinned-tree baseline are no longer generated, e.g. {lost[:3]}")
            return 2
    exp = meta.get("expect_min_obligations", 1)
    if len(real_obs) < exp:
        print(f"CHECKER-DEFECT property={pid}: only {len(real_obs)} obligations generated, expected at least {exp}")
        return 3
    if unproved_hits:
        print(f"OK property={pid}: {discharged} of {len(real_obs)} obligations discharged, {len(unproved_hits)} listed unproved site(s), no violation")
        return 0
    kf_real = sum(1 for _, o in known_hits if not o.get("bounded") and not o.get("probe"))
    if kf_real:
        print(f"OK property={pid}: {discharged} of {len(real_obs)} obligations discharged, {kf_real} fail as listed known finding(s), no new violation")
        return 0
    print(f"OK property={pid}: all {len(real_obs)} obligations discharged")
    return 0


if __name__ == "__main__":
    sys.exit(main())
