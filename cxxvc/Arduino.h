// Mock Arduino core API (signatures only) used to type-check and parse emitted firmware with
// clang++ --target=avr.  Written from the Arduino AVR core reference, not from the emitter.  TRUSTED BASE.
#pragma once
#include <string.h>      // as the AVR core's Arduino.h does
typedef unsigned char uint8_t;
typedef unsigned int uint16_t;
typedef unsigned long uint32_t;
typedef unsigned int size_t;
typedef bool boolean;
typedef uint8_t byte;
#define HIGH 0x1
#define LOW 0x0
#define INPUT 0x0
#define OUTPUT 0x1
#define INPUT_PULLUP 0x2
#define A0 14
#define A1 15
#define A2 16
#define A3 17
#define A4 18
#define A5 19
#define A6 20
#define A7 21
#define A8 22
#define A9 23
#define A10 24
#define A11 25
#define A12 26
#define A13 27
#define A14 28
#define A15 29
void pinMode(uint8_t pin, uint8_t mode);
void digitalWrite(uint8_t pin, uint8_t val);
int digitalRead(uint8_t pin);
int analogRead(uint8_t pin);
void analogWrite(uint8_t pin, int val);
unsigned long millis(void);
unsigned long micros(void);
void delay(unsigned long ms);
void delayMicroseconds(unsigned int us);
unsigned long pulseIn(uint8_t pin, uint8_t state, unsigned long timeout = 1000000UL);
void tone(uint8_t pin, unsigned int frequency, unsigned long duration = 0);
void noTone(uint8_t pin);
long map(long, long, long, long, long);
// Arduino's min/max/abs/constrain/round are macros
#define min(a,b) ((a)<(b)?(a):(b))
#define max(a,b) ((a)>(b)?(a):(b))
#define abs(x) ((x)>0?(x):-(x))
#define constrain(amt,low,high) ((amt)<(low)?(low):((amt)>(high)?(high):(amt)))
#define round(x)     ((x)>=0?(long)((x)+0.5):(long)((x)-0.5))
class __FlashStringHelper;
#define F(s) (reinterpret_cast<const __FlashStringHelper *>(s))
class String {
 public:
  String(const char *cstr = "");
  String(const String &str);
  String(const __FlashStringHelper *str);
  explicit String(char c);
  explicit String(int, unsigned char base = 10);
  explicit String(unsigned int, unsigned char base = 10);
  explicit String(long, unsigned char base = 10);
  explicit String(unsigned long, unsigned char base = 10);
  explicit String(float, unsigned char decimalPlaces = 2);
  explicit String(double, unsigned char decimalPlaces = 2);
  ~String();
  String &operator=(const String &rhs);
  String &operator=(const char *cstr);
  unsigned int length(void) const;
  String &operator+=(const String &rhs);
  String &operator+=(const char *cstr);
  String &operator+=(char c);
  friend String operator+(const String &lhs, const String &rhs);
  friend String operator+(const String &lhs, const char *cstr);
  friend String operator+(const String &lhs, char c);
  bool operator==(const String &rhs) const;
  bool operator==(const char *cstr) const;
  bool operator!=(const String &rhs) const;
  char charAt(unsigned int index) const;
  char operator[](unsigned int index) const;
  char &operator[](unsigned int index);
  String substring(unsigned int beginIndex) const;
  String substring(unsigned int beginIndex, unsigned int endIndex) const;
  int indexOf(char ch) const;
  long toInt(void) const;
  float toFloat(void) const;
  const char *c_str() const;
  void reserve(unsigned int size);
};
class Print {
 public:
  size_t print(const String &);
  size_t print(const char[]);
  size_t print(char);
  size_t print(int, int = 10);
  size_t print(unsigned int, int = 10);
  size_t print(long, int = 10);
  size_t print(unsigned long, int = 10);
  size_t print(double, int = 2);
  size_t print(const __FlashStringHelper *);
  size_t println(const String &s);
  size_t println(const char[]);
  size_t println(char);
  size_t println(int, int = 10);
  size_t println(unsigned int, int = 10);
  size_t println(long, int = 10);
  size_t println(unsigned long, int = 10);
  size_t println(double, int = 2);
  size_t println(const __FlashStringHelper *);
  size_t println(void);
  size_t write(uint8_t);
};
class HardwareSerial : public Print {
 public:
  void begin(unsigned long baud);
  int available(void);
  int read(void);
  String readStringUntil(char terminator);
  operator bool();
};
extern HardwareSerial Serial;
void __VERIF_BEGIN();
void __VERIF_END();
