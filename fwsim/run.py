"""compile an emitted sketch with g++ against the recording mock and run setup() + N loop() passes"""
import hashlib
import os
import subprocess
import tempfile

HERE = os.path.dirname(os.path.abspath(__file__))


def run_sketch(cpp, passes=3, env=None, timeout=20, sanitize=False):
    with tempfile.TemporaryDirectory(prefix="fwsim-") as d:
        src = os.path.join(d, "sketch.cpp")
        open(src, "w").write(cpp)
        exe = os.path.join(d, "sketch")
        cmd = ["g++", "-std=gnu++17", "-w", "-O0", "-I", HERE, src, "-o", exe]
        if sanitize:
            cmd[1:1] = ["-fsanitize=address,undefined", "-fno-omit-frame-pointer"]
        r = subprocess.run(cmd, capture_output=True, text=True, timeout=120)
        if r.returncode != 0:
            return {"compiled": False, "errors": r.stderr[-1500:], "events": []}
        e = dict(os.environ)
        e.update(env or {})
        try:
            r = subprocess.run([exe, str(passes)], capture_output=True, timeout=timeout, env=e)
            # the LCD's block character is the byte 0xFF on the device; the host model shows it as U+2588
            # serial bytes are UTF-8 text (what the host SerialMonitor decodes); a byte that is not part of a valid sequence is shown as
            # its Latin-1 character (the LCD block character 0xFF as a full block)
            text = r.stdout.decode("utf-8", errors="surrogateescape")
            r.stdout = "".join(chr(ord(ch) - 0xDC00) if 0xDC80 <= ord(ch) <= 0xDCFF else ch for ch in text).replace("\xff", "\u2588")
            r.stderr = r.stderr.decode("latin-1")
        except subprocess.TimeoutExpired:
            return {"compiled": True, "timeout": True, "events": []}
        return {"compiled": True, "rc": r.returncode, "events": r.stdout.splitlines(), "stderr": r.stderr[-1500:]}


def serial_lines(events, section=None):
    out, cur = [], None
    for e in events:
        if e.startswith("== "):
            cur = e[3:]
        elif e.startswith("S:") and (section is None or (cur or "").startswith(section)):
            out.append(e[2:])
    return out
