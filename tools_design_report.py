#!/usr/bin/env python3
"""Regenerates section 12 ("As built") of /verif/DESIGN.md from MANIFEST.json, evidence/*.json, known_findings.json and
seeded/*/meta.json.  The hand-written paragraphs of the section live in this file."""
import json
import os
import re

ROOT = "/verif"
m = json.load(open(f"{ROOT}/MANIFEST.json"))
kf = json.load(open(f"{ROOT}/known_findings.json"))

rows = []
for c in m["checks"]:
    p = c["property_id"]
    ev = json.load(open(f"{ROOT}/evidence/{p}.json"))
    cov = ev["coverage"]
    be = ", ".join(f"{k} {v}" for k, v in sorted(cov.get("discharged_by_backend", {}).items(), key=lambda kv: -kv[1]))
    nb = sum(1 for b in (cov.get("bounded") or []) if isinstance(b, dict))
    rows.append(f"| {p} | {c['level_claimed']['category']} | {len(cov.get('units_under_contract', []))} | {cov.get('obligations')} | {cov.get('discharged')} | {be} | {nb} | {ev.get('wall_s')} |")
table = "\n".join(sorted(rows))
per = "\n\n".join(f"**{c['property_id']}** ({c['level_claimed']['category']}). {c['level_claimed']['text']} *Limits:* {c['level_note']}"
                  for c in sorted(m["checks"], key=lambda c: c["property_id"]))
finds = "\n".join(f"* **{k['property']}** `{k['obligation']}` — {k['what']}" for k in kf["findings"])
fixed = "\n".join("* " + f[len("fixed: "):] for f in kf["fixed"])

seed_rows = []
for d in sorted(os.listdir(f"{ROOT}/seeded")):
    mp = f"{ROOT}/seeded/{d}/meta.json"
    if not os.path.exists(mp):
        continue
    meta = json.load(open(mp))
    what = (meta.get("needs") or "").strip().split("\n")[0]
    what = re.sub(r"^(Mutation|Change)\s*\d+\s*[-:–—]*\s*", "", what)[:150]
    det = meta.get("detected_by") or {}
    if isinstance(det, dict):
        obs = ", ".join(det.get("obligations", [])[:2])
        verdict = "caught" if meta.get("detected") else f"NOT caught (exit {det.get('exit')})"
        inp = "replayed input" if det.get("with_failing_input_replayed") else "no-failing-input-found"
        also = ", ".join(meta.get("also_detected_by", []))
    else:
        obs, verdict, inp, also = "", str(det), "", ""
    seed_rows.append(f"| {d} | {what} | {verdict} | {obs} | {inp if meta.get('detected') else ''} |")
seed_table = "\n".join(seed_rows)
n_seeds = len(seed_rows)
n_caught = sum(1 for r in seed_rows if "| caught |" in r)

text = f'''

---------------------------------------------------------------------------

## 12. As built (build phase report; where this section and §§1-11 differ, this section is what exists)

### 12.1 What exists

All twenty properties have a registered check (`MANIFEST.json`, `not_applicable` is empty). One driver
(`python3-vt -m pyvc.driver <PID> --tier quick|thorough`) runs every check; it re-reads `/repo`'s working tree on every
run (Python sources through `ast`, emitted C++ through the real emitter + `clang++ --target=avr -ast-dump=json`), generates the
obligations, discharges them, replays counterexamples on the real code and writes `evidence/<PID>.json`.

| property | level | units under contract | obligations | discharged | by back end | bounded stand-ins | wall s (quick) |
|---|---|---|---|---|---|---|---|
{table}

"obligations" excludes `mustfail` vacuity guards, `bounded` stand-ins and `probe` units of known-finding regions; those are
reported separately in the evidence (`bounded`, `known_finding_obligations`). `simplify` means the verification condition
reduced to `true` by z3's simplifier before a solver call; `enum` is exhaustive enumeration of a finite domain on the real
function; `static` is an obligation over the real AST (frame, order, guard, structure); `clang` is acceptance by the AVR
front end; `enum+fwsim` executes the emitted sketch on the recording Arduino mock.

### 12.2 Deviations from the design above

1. **One engine instead of two.** The planned separate `cxxvc` verifier became a *translator*: `cxxvc/cxx2py.py` turns clang's
   AVR AST of the really emitted C++ into the Python subset that `pyvc` verifies, with C semantics made explicit as
   primitives (`ck_iN` no-overflow obligations, `wrap_uN`, `c_div/c_mod` truncation, `i2f`, `f2i_*` range obligations,
   heap primitives `c_new/c_delete/c_load/c_store` under a ghost heap model). It drops nothing of the function bodies; it
   renames re-declared locals, hoists function-local statics to globals, passes `const T&` scalars as (block, index, value),
   and turns counting `for` loops with constant bounds into `for .. in range`. A helper of a generated module that has no
   contract of its own is inlined into its callers (sound; recursion cut by a depth limit), so that factoring code out of a
   template does not by itself make the check undecided.
2. **Standalone lemmas.** Nonlinear facts (RGB fade interpolation, LCD progress rounding, dedup prefix) are proved once as
   lemma units and instantiated (`use`, `use_exit`) where needed; the solver is never asked to find them in context.
3. **Finite back end is first-class.** Where the domain is finite (call shapes accepted by `inspect.signature`, library
   presence vectors, inference arms x operand labels, statement kinds, device kind x placement x use site) the obligation is
   an exhaustive enumeration on the real function, labelled `enum`, not a solver query.
4. **Structural vs behavioural obligations.** An obligation about the *shape* of the proof (a slice could not be located, a
   frame site is new) is `structural`: its failure makes the property *undecided* (exit 2) unless it already failed on the
   pinned tree, where it is listed in `baseline/<PID>.json` as an *unproved site* and printed as `UNPROVED-SITE` (C10 has two).
   Only a behavioural obligation with a failing input - or one that was discharged on the pinned tree (`baseline/`) and now
   fails - is a VIOLATION. Baselines are regenerated (`--write-baseline`) whenever a contract module changes; a stale baseline
   turned two real detections into "undecided" once (found by the second round of seeded changes).
5. **Second chance for timeouts.** A variant with `unknown` obligations is re-proved alone with three times the budget
   after the parallel pass, so that verdicts do not flip when all 16 cores are busy. Solver plan per obligation: z3 (2.5 s)
   -> cvc5 `--strings-exp` -> z3 full budget with seeds.
6. **Executed back ends for what the fragment contracts cannot see** (`progs/`, `fwsim/`), always labelled `bounded`, never
   counted as proved: (a) the CPython-vs-firmware differential of whole scripts (C01 L2, C02 I5, C03 F5, C05 T5, C09 exec under
   ASan/UBSan); (b) the *device differential* (C04, C17): a command with literal arguments goes through the REAL parser and
   emitter and is observed on the firmware mock next to the real host class (getter values, delays, LCD cells) - the fragment
   contracts take the IR node as given and therefore bypass the parser's argument resolution by construction; (c) the
   literal-vs-variable metamorphic run (C08, C16): a non-integer literal argument and the same value in a variable must produce
   the same firmware event trace. The deductive parts remain the per-unit contracts, the per-expression lemmas (C01 L1), the
   inference-arm grid (C02 I1), the escaper homomorphism (C06 W1) and the guard propagation (C05 T4).
7. **Counterexample replay.** z3 models of host-side contracts are replayed by the native harness (`pyvc/native.py`: the real
   function under /venv/bin/python with a concrete contract checker). For contracts on translated C++ a model is replayed by the
   contract module's `replay_model` hook where one exists (C01: the expression is wrapped in a helper, transpiled and run on
   the mock next to CPython). Where no replay exists the VIOLATION line ends with `no-failing-input-found` and the replay
   file carries the obligation and the solver's model. When a unit falls outside the verifier's reach on a changed tree (tool
   limit) and the native random/corner cross-check of its contract fails on the real code, that input *is* the replayed
   violation (obligation `<unit>/native-contract-check`).
8. **Machine arithmetic.** Host floats and device float32 are reals (A-REAL); device `int` is 16-bit with overflow as an
   obligation everywhere except C01 L1, where results are *assumed* in range (`assume_in_range`, recorded as A-INT16): the
   lemma there is "C computes Python's value unless the device integer overflows". The host mock `fwsim` has 32-bit `int`.
9. **C12 re-proves its dependencies.** `write_project` / `validate_platform_board` are used through their C13 contracts; the C12
   check now discharges those two contracts again from the current source (obligations `C12/dep-C13/...`) instead of assuming them.

10. **Firmware counterexample replay** (`cxxvc/fwreplay.py`, used by C04/C15/C16 through their `replay_model` hooks). The z3 model of a failing
   fragment obligation (arguments + pre-state of the sketch's globals) is replayed on the REAL emitted C++: the sketch is compiled with g++
   against the recording mock with the opaque argument identifiers defined as the model's values and the globals set at the
   `__VERIF_BEGIN()` sentinel; the observed events and final globals become extra *agreement* clauses and the contract is re-proved with the
   inputs pinned. The counterexample counts as confirmed when the agreement clauses verify (translation = real code on this input) and an
   original clause still fails; otherwise the line ends `no-failing-input-found`.
11. **State that is not in a parameter list.** Names re-bound through `global` and module-level containers mutated in place are modelled
   state (`loader.mutated_globals`), and a function that reads a module-level name the loader does not model gets the frame obligation
   `frame/unmodelled-global.<name>`. Two seeded changes (a memo flag in `target()`, a cache in the board registry) verified before this.
12. **An unproved unit is not a silent unit.** When any unit of a property falls outside the engine on a changed tree, the native
   corner/random cross-check of every unit's contract still runs on the real code, and a failure there is a replayed violation.
13. **Tolerance to behaviour-preserving edits** (found by two batches of *benign* refactorings written by fresh sub-agents, `benign/`).
   Loop invariants name locals, so: (a) the baseline records each unit's locals in order of first binding; renamed locals are mapped
   positionally between unchanged anchors; (b) where temporaries were added or removed, a name the contract uses is recognised by its *role*
   (k-th target of the n-th `for`, list mutated in the n-th loop, k-th name bound before and re-bound inside the n-th loop), also recorded in
   the baseline, and mapped when exactly one new name has that role; (c) a contract-less helper extracted from a loop body is inlined into
   the loop frame like any contract-less callee; (d) an invariant-less top-level `for x in xs: L.append(E)` is executed as
   `L.extend(E for x in xs)`, which the engine already models; (e) call-site obligation names (`…@callee#k`) follow the call structure and
   are exempt from the "baseline obligation no longer generated" guard - every property-bearing clause (post / raises / frame / invariant /
   lemma) must still be generated. None of this changes what is proved: the obligations are generated from the new source and must all
   discharge; each tolerance was checked with a deliberately broken version of the refactored function (violation reported).
   A refactoring that introduces a new loop needing a new invariant remains `UNDECIDED` (exit 2) - re-annotation is the price of the family.
14a. **Per-pin level traces in the device differential.** The host Led / RGBLed classes are observed at their single points of change
   (`set_brightness`, `set_color`: `P:<pin>:<level>`), the firmware at its writes (`W:<pin>:<level>`); per pin the two sequences of level
   *changes* must agree to within one PWM count. Getters and delays alone had missed a fade that jumps to its target when the per-step
   delay rounds to zero. Delays between two other events are compared as a block: the device may drop a delay under 1 ms and round the
   others by less than 1 ms each, so the number of delays of at least 1 ms and the block's total (to within one millisecond per delay)
   must agree.
14. **Emission concatenativity and scope independence** (`progs/concat.py`; C04/C16/C17). The fragment contracts speak about one IR node;
   these bounded obligations tie "one node" to "a program": the firmware trace of `a; b` is the trace of `a` followed by that of `b`, and a
   command inside a helper, branch or loop behaves as at top level (getter values included).

15. **Seeded generators next to the fixed corpora** (`progs/gen.py`, `progs/gen_dev.py`, `progs/gen_lcd.py`; fixed seeds, so runs are
   repeatable). Most seeded changes that a bounded obligation missed needed a program *shape* the corpus did not contain; besides adding
   the shape (as a family), the generators now mix the shapes freely: core programs (helpers with several signatures, comprehensions over
   three-argument ranges, augmented assignments with conditional / comparison right-hand sides, chained comparisons with calls, tight
   keywords, header and trailing comments, list append/remove of literals), device programs (random command sequences of one actuator with
   literal / variable / expression arguments, positional or keyword, under branches, loops, a helper and the main loop) and LCD programs.
   Quick tiers run 48-60 programs each, thorough tiers 450-600. All are labelled bounded.

### 12.3 Per property, as built

{per}

### 12.4 Verdict protocol as implemented

exit 0: every obligation discharged or matched by a listed known finding (each listed finding prints one `KNOWN-FINDING:` line);
exit 1: at least one `VIOLATION property=<id> replay=<path> obligation=<name>` (a behavioural obligation that fails with a replayed
input, or that was discharged in `baseline/<id>.json` and now fails; `no-failing-input-found` is appended when no input could be
replayed); exit 2 `UNDECIDED`: tool limit, solver `unknown` after the retry, or a structural obligation that is new; exit 3
`CHECKER-DEFECT`: fewer obligations than `expect_min_obligations`, a vacuity guard (`mustfail`) that verifies, or a harness crash
(a contract module that cannot be set up on the tree, a native harness error). A native cross-check that contradicts a *proved* contract
on the real code was first classed as a checker defect; it is now the replayed violation it is (`<unit>/native-contract-check`, with the
concrete input), and the replay file says that the verifier's model of Python missed it - seen for `is not` on equal strings created at
run time and for `a = b = {{}}` at module level, both of which the engine cannot distinguish from `!=` / two objects. `unknown`, timeouts and tracebacks are never mapped to a
violation. Two refinements: a run-time-error obligation (`.../rte/no-overflow-i16#k`, division by zero, conversion range) that has a counter-model is a
regression whatever its number k (every such obligation was discharged on the pinned tree, and the numbering follows the operations of the
code); and a unit whose contract can no longer be read against the code (a local it names is gone) is as unproved as one beyond a tool limit,
so the native cross-check of its contract on the real code still decides (`<unit>/native-contract-check`).
`known_findings.json` is read-only at run time; an entry matches by exact obligation name (`obligations` list) or an
`fnmatch` pattern and suppresses nothing else of the property.

### 12.5 False alarms met while building, and what was done

* C14 S2 fired on `setup_body or []` (an iteration over a defaulted list, not a second traversal): the obligation was wrong, the
  slice rule was corrected; the S-type obligations are structural.
* C11 E1 flagged a local named `vars`, `list.remove`, `getattr` with a literal name and a relative import as effects: the
  whitelist analysis was made scope-aware; none of these is an effect.
* C17 `LCD.progress` flipped between `unsat` and `unknown` across runs (a nonlinear rounding term): the spec term was aligned
  syntactically with the code's min/max shape and the lemma instantiated explicitly; it is now stable over repeated runs.
* native cross-checks: purging `sys.modules` created two identities of the same Reduino class (false native failure): the
  harness now purges only modules loaded from another path; tolerant float comparison (1e-9) replaced exact equality; corner
  samples for `map()` are integers only because that tolerance would itself blur narrow float windows.
* evidence files written while a seeded patch was applied were flagged by `vp check`: the seed tools save and restore
  `evidence/`, and `run_all.sh` regenerates it on the clean tree before commits.
* fwsim lacked the Arduino `abs`/`round` macros (std::abs truncated floats) and printed the LCD block character as a raw byte: the
  differences reported on the clean tree were the mock's, not the code's; the mock was corrected (it is part of the trusted base).
* the first version of the generic "float literal reaches the IR unchanged" obligation (C08) fired on `RGBLed.blink(delay_ms=62.5)`
  (folded to 62): the device cannot delay half a millisecond and truncates a run-time value the same way, so the obligation
  demanded more than the property; it was replaced by the literal-vs-variable metamorphic run, which compares behaviour.
* the first version of the C07 device-method drop check compared firmware text and fired on `lcd.backlight(True)` for a display
  without a backlight pin (a legitimate no-op): it now compares the IR (the call must contribute a node or be rejected).
* the LCD device differential first compared progress bars exactly; the property allows one cell of difference except where
  `value*width` is a multiple of `max_value`: the grid was restricted to those cases.
* C02's typed differential first used the strict int/float print rule (`10` vs `10.00`): a joined (float) return type is what the
  property asks for, so values are compared numerically there; the strict rule stays in C01 where the printed line is the observable.
* a line-shift-only change (three comment lines inserted into six source files) is run against all twenty checks as a benign
  control: all exit 0.
* benign refactorings (24 behaviour-preserving patches by fresh sub-agents: renamed locals, hoisted temporaries, a loop body extracted
  into a helper, `while c:` rewritten as `while True: if not c: break`, a generator rewritten as a loop, flattened guards) first produced
  `CHECKER-DEFECT`/`UNDECIDED` (never `VIOLATION`) on five of them: contracts that named locals could not be read, a helper without
  contract appeared in a loop body, call-site obligation names changed. The engine was made tolerant as described in §12.2 item 13; the
  contracts themselves were not weakened. `tools_benign_scratch.py` re-runs the control from scratch copies.
* C15: a first version of the declared-pin scripts included an `Ultrasonic` re-declared on other pins (the pinned tree measures on the
  last declared pins everywhere). The property says "the declared pin" for `Potentiometer.read()` only, so the script demanded more than
  the property states; it was removed, not recorded as a finding.
* C17 backlight walk: the first "variable arguments" script re-used one name for a bool and an int argument and ran into the recorded
  re-typing finding of C02; the script now uses one variable per type.
* C02: two multi-signature helper scripts passed a float *literal* to an overloaded helper, which is the recorded C06 finding
  (`dbl(1.5)` is ambiguous in C++); they now pass the value through a variable.
* delays: the host recorder rounded `sleep(5.55 ms)` to `D:6` while the device truncates to `delay(5)`; the generated device programs
  (`ramp(1.0, 111)`: 111/20 ms per step) showed the comparison firing on a difference the property explicitly allows ("the same delays up
  to the device's whole-millisecond rounding (under 1 ms per delay)"). The recorder now reports the exact host delay and two delays agree
  when they differ by less than 1 ms; a host delay under 1 ms may have no counterpart on the device. The fixed scripts had only used
  durations divisible by the step count, so the exact comparison had never fired on the pinned tree.
* a benign rename of the local `src` in `target()` rewrote the string literal `'src'` inside a contract clause (`tmp / 'src' / 'main.cpp'`)
  and produced a C12 VIOLATION on behaviour-preserving code: the renaming of locals now skips string literals and attribute names.
* a change that made the emitted helper templates untranslatable (`memcpy` in `__redu_list_assign`) crashed the C09 contract set-up with a
  Python traceback (exit 1 without a VIOLATION line): set-up failures are now an UNDECIDED/CHECKER-DEFECT verdict, and the executed
  obligations still run (they report the use-after-free with its input).
* C19: adding motor speeds of magnitude 1e-12 to the native samples produced three `native-contract-check` VIOLATIONs on the pinned tree:
  the native evaluator compared floats with an absolute tolerance of 1e-9 near zero, so the contract clause `applied_speed != 0` read
  1e-12 as zero while the real class (rightly) was in `drive`. The code was right and the evaluator wrong; comparisons with exact zero
  are now exact (`pyvc/native.py`), which also lets the check see a dead band introduced into `_apply_speed`.
* C08: the first form of the branch-declared-device obligation compared firmware traces; a device constructed inside an `if` arm does
  not compile on the pinned tree at all (its state globals are never declared). That is a defect, but of C06, not of argument binding:
  it is recorded there as a known finding (shape `device-declared-in-both-arms-of-an-if`), and the C08 obligation compares the IR node
  of the call (what the call binds to), which is what C08 is about.
No false alarm was ever recorded as a known finding; no check was loosened to pass.

### 12.6 Genuine defects of the pinned tree

Repaired in `/repo` (one `fix:` commit each; the unedited suite still passes 123/123 after every one):

{fixed}

Recorded, not repaired (`known_findings.json`; the repair is a redesign or changes emitted text that the suite pins):

{finds}

### 12.7 Seeded changes: which check catches which

{n_seeds} property-breaking changes were produced by fresh sub-agents that saw only a property's text, the list of ideas already taken
and a scratch worktree (rounds of two per property), each confirmed in a scratch worktree to apply, keep the 123 tests passing, and make its own
demonstration fail (`seeded/<id>/patch.diff, demo.py, meta.json`). Patches are kept rebased on the current `/repo` HEAD
(`git apply --3way` in a scratch worktree; a plain `git apply` after line shifts once landed a hunk in the wrong function).
`seed_matrix.py` applies each to `/repo`, runs the quick check of its property and reverts. {n_caught} of {n_seeds} are caught by the
check of the property they target. The first round (k = 1, 2) was used while the checks were written; the second round (k = 3, 4)
was produced afterwards: 13 of its 40 were caught at first, 3 were undecided or crashed the checker, 24 were missed. Every miss
was traced to something the check did not cover (literal-argument resolution in the parser, emitter branches on literal values,
program shapes missing from a corpus, an engine gap) and the check was extended - the table shows the state after that.
Later rounds (k = 5..24) were handled the same way; before each matrix run the author notes of the new seeds were
read and the checks extended *pre-emptively* for the classes of change they describe, so the first-pass figures are not blind:
round 3: 31 of 40 at first pass, round 4: 15 of 40 (no pre-emptive edits), round 5: 32 of 40, round 6: 19 of 40, round 7: 20 of 40, round 8: 20 of 40, round 9: 24 of 40, round 10: 17 of 40, round 11: 24 of 40 and a half round 12 (eight properties): 7 of 16
(the last seven without pre-emptive edits; the authors were told every idea already taken, so each round is harder than the one before). The recurring causes of a miss were (1) a
program *shape* absent from a bounded corpus (re-declared devices, two displays of one class, re-specialised helper variants, a name re-used
in another role by a later transpilation, arguments written with parentheses or calls), (2) parser-level argument resolution that the
fragment contracts bypass by construction, (3) state outside the modelled frame. Each produced a new *family* of obligations (enumerated
over device kinds, placements, argument shapes, orders) rather than the single failing case. Round 10 also showed a dead band in the checker itself: the native evaluator compared floats with an absolute tolerance near zero, so a motor speed of 1e-12 counted as zero; comparisons with exact zero are now exact (a relative tolerance remains elsewhere). `seed_matrix_scratch.py` runs the matrix
from scratch copies without touching `/repo`.

| seed | change (first line of the author's note) | verdict | failing obligations | replay |
|---|---|---|---|---|
{seed_table}
'''
s = open(f"{ROOT}/DESIGN.md").read()
marker = "\n\n---------------------------------------------------------------------------\n\n## 12. As built"
if marker in s:
    s = s[:s.index(marker)]
open(f"{ROOT}/DESIGN.md", "w").write(s + text)
print("section 12 rewritten:", len(text.splitlines()), "lines;", n_caught, "of", n_seeds, "seeds caught")
