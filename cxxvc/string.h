// mock of avr-libc <string.h>: only what the emitted helper snippets use
#pragma once
typedef unsigned int size_t;
extern "C" size_t strlen(const char *s);
