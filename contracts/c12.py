"""C12 - target(): validate first, transpile faithfully, upload only on request (sidecar contracts)."""
from pyvc.contracts import Registry
from contracts import c13

INIT = "Reduino/__init__.py"
PIO = "Reduino/toolchain/pio.py"
PARSER = "Reduino/transpile/parser.py"
EMITTER = "Reduino/transpile/emitter.py"
X = "<extern>"

PROPERTY = {
    "level": "proof",
    "expect_min_obligations": 60,
    "explanation": "target(), ensure_pio() and compile_upload() are proved against effect-trace contracts: a ghost sequence E of "
                   "events (pio --version, pio run, pio run -t upload, mkdtemp, mkdir, write_text, read_text) extended by the "
                   "assumed contracts of subprocess.run / tempfile / pathlib, with one ghost fault flag per point of failure "
                   "(PlatformIO probe, build, upload, parse, emit), so that every fault schedule is a valuation of the flags and "
                   "every path of the real code is checked for all of them. parse/emit/_collect_required_libraries are "
                   "uninterpreted functions of their argument (their own behaviour is the subject of other properties); "
                   "write_project and validate_platform_board are used through the contracts proved under C13.",
    "trusted_base": ["pyvc symbolic executor", "z3/cvc5", "assumed contracts of subprocess.run (raises iff the process fails and "
                     "check=True), tempfile.mkdtemp, pathlib.Path, sys.modules['__main__'].__file__"],
    "assumptions": [
        "subprocess.run(check=True) raises iff the child fails (modelled by one exception class 'Exception' standing for "
        "CalledProcessError/FileNotFoundError); without check=True it never raises",
        "parse(), emit() and _collect_required_libraries() are deterministic functions of their argument that may raise "
        "(ValueError stands for any exception they raise); file-system calls do not fail",
        "the stderr note about the Servo library is not an effect the property talks about",
        "write_project / validate_platform_board: contracts owned by C13, re-proved in this run (obligations C12/dep-C13/...)",
    ],
}


def engine_setup(eng):
    import z3
    from pyvc.sym import V, vbool, vstr, AnySort
    c13.engine_setup(eng)
    S = z3.StringSort()
    SS = z3.SeqSort(S)
    IS = z3.SeqSort(z3.IntSort())
    parse_f = z3.Function("parse_of", S, AnySort)
    emit_f = z3.Function("emit_of", AnySort, S)
    libs_f = z3.Function("libs_of", AnySort, SS)

    def seq_of(st, v):
        c = v.t if v.k == "cell" else st.heap[v.t]
        return c.seq

    eng.spec_funcs.update(
        parse_of=lambda e, st, s: V("any", parse_f(s.t)),
        emit_of=lambda e, st, p: vstr(emit_f(p.t)),
        libs_of=lambda e, st, p: V("seq", libs_f(p.t), "str"),
        list_is=lambda e, st, lst, sq: vbool(seq_of(st, lst) == sq.t),
        prefix=lambda e, st, a, b: vbool(z3.PrefixOf(a.t, b.t)),
        appended=lambda e, st, new, old: V("seq", z3.SubSeq(new.t, z3.Length(old.t), z3.Length(new.t) - z3.Length(old.t)), "int"),
        run_code=run_code, as_path=lambda e, st, s: V("path", s.t),
        libsec_seq=lambda e, st, sq: libsec_seq(eng, st, sq),
    )
    for mod in ("subprocess", "sys", "tempfile", "pathlib"):
        eng.extern_names[mod] = V("module", mod)
    eng.extern_names["Path"] = V("fn", ("extfn", "pathlib.Path"))
    eng.module_attrs["subprocess.run"] = V("fn", ("extfn", "subprocess.run"))
    eng.module_attrs["subprocess.DEVNULL"] = V("any", z3.Const("DEVNULL", AnySort))
    eng.module_attrs["sys.stderr"] = V("any", z3.Const("STDERR", AnySort))
    eng.module_attrs["sys.modules"] = V("sysmodules")
    eng.module_attrs["tempfile.mkdtemp"] = V("fn", ("extfn", "tempfile.mkdtemp"))
    eng.module_attrs["pathlib.Path"] = V("fn", ("extfn", "pathlib.Path"))

    def idx(e, base, i, st):
        yield st, V("mainmod")
    eng.kind_index["sysmodules"] = idx
    eng.kind_attr["mainmod"] = lambda e, base, attr, st: st.ghost["main_path"]


def libsec_seq(eng, st, sq):
    """libsec over a Seq value (the uninterpreted libs_of(program))."""
    from pyvc.state import SList
    ref = st.alloc(SList(sq.t, "str"))
    return eng.spec_funcs["libsec"](eng, st, ref)


def run_code(e, st, args):
    """event code of a subprocess.run argv (a list of string constants)."""
    import z3
    from pyvc.sym import vint, simp
    items = e.static_items(args, st)
    words = []
    for x in items or []:
        t = simp(x.t)
        words.append(t.as_string() if z3.is_string_value(t) else "?")
    code = {("pio", "--version"): 1, ("pio", "run"): 2, ("pio", "run", "-t", "upload"): 3}.get(tuple(words), 9)
    return vint(code)


def build():
    reg = Registry()
    c13.shared_pio(reg)
    for g in ("fail_version", "fail_build", "fail_upload", "parse_fails", "emit_fails"):
        reg.ghost(g, "bool")                 # the fault schedule (never modified)
    reg.ghost("main_path", "str")            # sys.modules['__main__'].__file__
    reg.ghost("main_text", "str")            # its contents
    reg.ghost("next_tmp", "str")             # what mkdtemp will return
    reg.ghost("last_cwd", "str")             # cwd of the last subprocess.run

    fails = "ite(run_code(args) == 1, fail_version, ite(run_code(args) == 2, fail_build, ite(run_code(args) == 3, fail_upload, False)))"
    reg.unit("subprocess.run", X, extern=True, public=False,
             params={"args": "list[str]", "check": "bool", "stdout": "any|none", "cwd": "path|str|none"},
             raises={"Exception": f"check and {fails}"}, atomic=False,
             modifies=["ghost.E", "ghost.last_cwd"],
             on_raise=["E == old(E) + [run_code(args)]", "implies(not is_none(cwd), last_cwd == str(cwd))"],
             ensures=["E == old(E) + [run_code(args)]", "implies(not is_none(cwd), last_cwd == str(cwd))"], returns="any")
    reg.contracts[(X, "subprocess.run")].defaults = {"check": False, "stdout": None, "cwd": None}
    reg.unit("pathlib.Path", X, extern=True, public=False, params={"p": "str|path"}, returns="path",
             ensures=["str(result) == str(p)"])
    reg.unit("tempfile.mkdtemp", X, extern=True, public=False, params={"prefix": "str"}, returns="str",
             modifies=["ghost.E"], ensures=["E == old(E) + [4]", "result == next_tmp"])
    reg.contracts[(X, "tempfile.mkdtemp")].defaults = {"prefix": "tmp"}
    reg.unit("Path.read_text", X, extern=True, public=False, params={"encoding": "str"}, returns="str",
             modifies=["ghost.E"], ensures=["E == old(E) + [7]", "implies(str(self) == main_path, result == main_text)"])

    reg.unit("ensure_pio", PIO, raises={"RuntimeError": "fail_version"}, atomic=False,
             modifies=["ghost.E", "ghost.last_cwd"],
             on_raise=["E == old(E) + [1]"], ensures=["E == old(E) + [1]"])
    reg.unit("compile_upload", PIO, params={"project_dir": "path|str"},
             raises={"Exception": "fail_build or fail_upload"}, atomic=False,
             modifies=["ghost.E", "ghost.last_cwd"],
             on_raise=["implies(fail_build, E == old(E) + [2])", "implies(not fail_build, E == old(E) + [2, 3])",
                       "last_cwd == str(project_dir)"],
             ensures=["E == old(E) + [2, 3]", "last_cwd == str(project_dir)"])

    # callee contracts proved elsewhere (C13) or uninterpreted (parse/emit/libs)
    v = c13.build()
    for q in ("validate_platform_board", "write_project"):
        cc = v.lookup(PIO, q)
        cc.extern = True
        cc.note = "proved under C13"
        reg.contracts[(PIO, q)] = cc
    reg.unit("parse", PARSER, extern=True, public=False, params={"src": "str"}, returns="any",
             raises={"ValueError": "parse_fails"}, ensures=["result == parse_of(src)"])
    reg.unit("emit", EMITTER, extern=True, public=False, params={"program": "any"}, returns="str",
             raises={"ValueError": "emit_fails"}, ensures=["result == emit_of(program)"])
    reg.unit("_collect_required_libraries", INIT, extern=True, public=False, params={"program": "any"},
             returns="list[str]", ensures=["list_is(result, libs_of(program))"])

    REG = "registered(platform, board)"
    NEW = "appended(E, old(E))"
    PROG = "parse_of(main_text)"
    TMP = "as_path(next_tmp)"
    INI = ("rstrip('[env:' + env_name(board) + ']\\nplatform = ' + platform + '\\nboard = ' + board + "
           "'\\nframework = arduino\\nupload_port = ' + port + '\\n\\n' + libsec_seq(libs_of(" + PROG + ")) + '\\n') + '\\n'")
    reg.unit("target", INIT, params={"port": "str", "upload": "bool", "platform": "str", "board": "str"}, returns="str",
             may_raise_other=["ValueError", "RuntimeError", "Exception"], atomic=False,
             modifies=["ghost.E", "ghost.files", "ghost.dirs", "ghost.last_cwd"],
             on_raise=[
                 "prefix(old(E), E)",
                 # (1) a bad pair is rejected with ValueError before anything is written or executed
                 f"implies(not {REG}, raised == 'ValueError' and E == old(E) and same_map(files, old(files)) and same_map(dirs, old(dirs)))",
                 # (2) transpile-only use never runs PlatformIO
                 f"implies(not upload, 1 not in {NEW} and 2 not in {NEW} and 3 not in {NEW})",
                 # (3) upload requested but PlatformIO missing: RuntimeError before anything is written
                 f"implies({REG} and upload and fail_version, raised == 'RuntimeError' and E == old(E) + [1] "
                 "and same_map(files, old(files)) and same_map(dirs, old(dirs)))",
                 # (5) a failed build never proceeds to upload
                 f"implies(fail_build, 3 not in {NEW})",
                 # (6) every exception has a cause: some validation / tool / transpile failure
                 f"not {REG} or (upload and (fail_version or fail_build or fail_upload)) or parse_fails or emit_fails",
             ],
             ensures=[
                 REG, "not parse_fails", "not emit_fails",
                 "implies(upload, not fail_version and not fail_build and not fail_upload)",
                 # (4) the result is the firmware for the calling script's text; the project holds exactly that
                 f"result == emit_of({PROG})",
                 f"is_store2(files, old(files), {TMP} / 'src' / 'main.cpp', result, {TMP} / 'platformio.ini', {INI})",
                 f"is_store(dirs, old(dirs), {TMP} / 'src', True)",
                 # (5) effects, in order: [probe] read, mkdtemp, mkdir, write, write, [build, upload]
                 "implies(not upload, E == old(E) + [7, 4, 5, 6, 6])",
                 "implies(upload, E == old(E) + [1, 7, 4, 5, 6, 6, 2, 3])",
                 f"implies(upload, last_cwd == next_tmp)",
             ])
    return reg


# ---------------------------------------------------------------------------- native side (real target(), faults injected)
def _native_setup(mod, job, ghost, env):
    import os
    import pathlib
    import subprocess
    import sys
    import tempfile
    import types
    import Reduino
    import Reduino.toolchain.pio as pio
    g = ghost
    g.E = list(g.vals.get("E") or [])
    g.files, g.dirs = {}, {}
    st = g.vals.setdefault("_state", {})
    scratch = tempfile.mkdtemp(prefix="c12-native-")
    st["scratch"] = scratch
    script = os.path.join(scratch, "main_script.py")
    text = g.main_text if isinstance(g.main_text, str) and g.main_text.strip() else \
        "from Reduino import target\nfrom Reduino.Actuators import Led\nled = Led(13)\nwhile True:\n    led.toggle()\n"
    g.main_text = text
    open(script, "w", encoding="utf-8").write(text)
    g.main_path = script
    fake_main = types.ModuleType("__main__")
    fake_main.__file__ = script
    st["saved"] = {"main": sys.modules["__main__"], "run": subprocess.run, "mkdtemp": tempfile.mkdtemp,
                   "wt": pathlib.Path.write_text, "mk": pathlib.Path.mkdir, "rt": pathlib.Path.read_text,
                   "parse": Reduino.parse, "emit": Reduino.emit}
    sys.modules["__main__"] = fake_main
    real_mkdtemp = st["saved"]["mkdtemp"]

    def fake_run(args, check=False, cwd=None, **kw):
        code = {("pio", "--version"): 1, ("pio", "run"): 2, ("pio", "run", "-t", "upload"): 3}.get(tuple(args), 9)
        g.E = g.E + [code]
        if cwd is not None:
            g.last_cwd = str(cwd)
        failed = {1: g.fail_version, 2: g.fail_build, 3: g.fail_upload}.get(code, False)
        # a failing tool exits with a positive status or is killed by a signal (negative returncode): both are failures
        rc = [1, -9, 2, -15, 127][(len(g.E) + len(str(args))) % 5]
        if failed and code == 1:
            # an unusable PlatformIO shows up in several ways: not found, not executable, not a program, non-zero exit
            _PIO_FAILURE_KIND[0] += 1
            kind = _PIO_FAILURE_KIND[0] % 4
            if kind == 0:
                raise FileNotFoundError(2, "No such file or directory", "pio")
            if kind == 1:
                raise PermissionError(13, "Permission denied", "pio")
            if kind == 2:
                raise OSError(8, "Exec format error", "pio")
        if failed and check:
            raise subprocess.CalledProcessError(rc, args)
        return subprocess.CompletedProcess(args, rc if failed else 0)

    def fake_mkdtemp(*a, **k):
        d = real_mkdtemp(dir=scratch)
        g.E = g.E + [4]
        g.next_tmp = d
        return d

    def wt(self, data, *a, **k):
        g.E = g.E + [6]
        r = st["saved"]["wt"](self, data, *a, **k)
        # what the file holds is what a UTF-8 reader (PlatformIO, the compiler) finds on disk, not the string handed to write_text
        try:
            on_disk = open(self, "rb").read().decode("utf-8", errors="replace")
        except OSError:
            on_disk = data
        g.files = dict(g.files, **{str(self): on_disk})
        return r

    def mk(self, *a, **k):
        g.E = g.E + [5]
        g.dirs = dict(g.dirs, **{str(self): True})
        return st["saved"]["mk"](self, *a, **k)

    def rt(self, *a, **k):
        g.E = g.E + [7]
        return st["saved"]["rt"](self, *a, **k)

    def fparse(src):
        if g.parse_fails:
            raise ValueError("injected parse failure")
        return st["saved"]["parse"](src)

    def femit(prog):
        if g.emit_fails:
            raise ValueError("injected emit failure")
        return st["saved"]["emit"](prog)
    subprocess.run, tempfile.mkdtemp = fake_run, fake_mkdtemp
    pathlib.Path.write_text, pathlib.Path.mkdir, pathlib.Path.read_text = wt, mk, rt
    Reduino.parse, Reduino.emit = fparse, femit


def _native_teardown(ghost):
    import pathlib
    import shutil
    import subprocess
    import sys
    import tempfile
    import Reduino
    st = ghost.vals.get("_state") or {}
    s = st.get("saved")
    if s:
        sys.modules["__main__"] = s["main"]
        subprocess.run, tempfile.mkdtemp = s["run"], s["mkdtemp"]
        pathlib.Path.write_text, pathlib.Path.mkdir, pathlib.Path.read_text = s["wt"], s["mk"], s["rt"]
        Reduino.parse, Reduino.emit = s["parse"], s["emit"]
    if st.get("scratch"):
        shutil.rmtree(st["scratch"], ignore_errors=True)


def _spec_env():
    import re
    import pathlib

    def parse_of(src):
        import Reduino.transpile.parser as P
        return P.parse(src)

    def emit_of(prog):
        import Reduino.transpile.emitter as Em
        return Em.emit(prog)

    def libs_of(prog):
        import Reduino
        return Reduino._collect_required_libraries(prog)

    def is_store2(new, old, k1, v1, k2, v2):
        return dict(new) == {**old, str(k1): v1, str(k2): v2}
    return {
        "registered": c13._registered, "parse_of": parse_of, "emit_of": emit_of, "libs_of": libs_of,
        "libsec_seq": c13._libsec, "libsec": c13._libsec, "env_name": lambda b: re.sub(r"[^A-Za-z0-9_]+", "_", b),
        "rstrip": lambda s: s.rstrip(), "as_path": lambda s: pathlib.Path(s),
        "prefix": lambda a, b: list(b[:len(a)]) == list(a), "appended": lambda new, old: list(new[len(old):]),
        "same_map": lambda a, b: dict(a) == dict(b), "is_store2": is_store2,
        "is_store": lambda new, old, k, v: dict(new) == {**old, str(k): v},
        "has": lambda m, k: str(k) in m, "at": lambda m, k: m.get(str(k)),
    }


NATIVE_HOOKS = {"prophecy": ("next_tmp", "main_path", "main_text"), "setup": _native_setup, "teardown": _native_teardown, "spec_env": _spec_env()}


_PIO_FAILURE_KIND = [0]


def native_samples(reg, rnd, n):
    jobs = []
    pairs = [("atmelavr", "uno"), ("atmelmegaavr", "nano_every"), ("atmelavr", "nano_every"), ("esp32", "uno"),
             ("atmelavr", "UNO"), ("atmelmegaavr", "uno")]
    scripts = ["", "from Reduino.Actuators import Servo\ns = Servo(9)\ns.write(10)\n",
               "from Reduino.Displays import LCD\nlcd = LCD(rs=12, en=11, d4=5, d5=4, d6=3, d7=2)\n",
               # the script's own target(...) line names a port through a variable / another literal than the caller passes at run time
               "from Reduino import target\nPORT = 'COM9'\ntarget(PORT)\nfrom Reduino.Actuators import Led\nled = Led(13)\nled.on()\n",
               "from Reduino import target\ntarget('COM7', upload=False)\nfrom Reduino.Actuators import Led\nled = Led(13)\nled.on()\n",
               "from Reduino import target\ntarget(port='COM1', platform='atmelavr', board='uno')\nx = 1\n",
               # characters that str.splitlines() treats as line boundaries inside a string literal of the sketch (form feed, vertical tab, NEL,
               # line/paragraph separator, carriage return): main.cpp is the returned source verbatim
               "from Reduino.Communication import SerialMonitor\nmon = SerialMonitor(9600)\nmon.write('page one\x0cpage two')\nmon.write('a\x0bb\x1cc\x85d\u2028e\u2029f')\n",
               "from Reduino.Communication import SerialMonitor\nmon = SerialMonitor(9600)\nmon.write('cr\\rlf')\nmon.write('tab\\there')\n",
               # text outside ASCII: main.cpp holds the returned source as UTF-8
               "from Reduino.Communication import SerialMonitor\nmon = SerialMonitor(9600)\nmon.write('Température: 21 °C')\nmon.write('日本語 ✓')\n"]
    for i in range(max(n, 48)):
        plat, board = rnd.choice(pairs)
        # every script is used (round-robin), and every script at least once with a registered pair and nothing failing
        clean_run = (i // len(scripts)) % 2 == 0
        if clean_run:
            plat, board = pairs[(i // len(scripts) // 2) % 2]
        jobs.append({"id": f"t{i}", "file": INIT, "unit": "target",
                     "params": {"port": ["COM3", "/dev/ttyUSB0"][i % 2], "upload": (i % 3 != 0) if clean_run else rnd.random() < 0.6,
                                "platform": plat, "board": board}, "self": None,
                     "ghost": {"fail_version": (not clean_run) and rnd.random() < 0.3, "fail_build": (not clean_run) and rnd.random() < 0.3,
                               "fail_upload": (not clean_run) and rnd.random() < 0.3, "parse_fails": (not clean_run) and rnd.random() < 0.15,
                               "emit_fails": (not clean_run) and rnd.random() < 0.15, "main_text": scripts[i % len(scripts)], "E": []}})
    for i in range(6):
        jobs.append({"id": f"c{i}", "file": PIO, "unit": "compile_upload", "params": {"project_dir": "/tmp/x"}, "self": None,
                     "ghost": {"fail_build": bool(i & 1), "fail_upload": bool(i & 2), "E": []}})
        jobs.append({"id": f"e{i}", "file": PIO, "unit": "ensure_pio", "params": {}, "self": None,
                     "ghost": {"fail_version": bool(i & 1), "E": []}})
    return jobs


def extra_obligations(mods, tier, seed):
    """the callee contracts this proof rests on (write_project, validate_platform_board: owned by C13) are re-proved here from the
    current source, so that "the configuration names exactly the given port, platform, board and libraries" is not an unchecked
    assumption of this check"""
    from pyvc import prove, loader
    reg = c13.build()
    files = sorted({f for (f, _) in reg.contracts if f != "<extern>"})
    mods13 = loader.load(files)
    out = []
    for q in ("validate_platform_board", "write_project"):
        c = reg.lookup(PIO, q)
        for variant in prove.variant_space(c, None, False, False):
            r = prove.prove_variant(reg, mods13, PIO, q, variant, 30000 if tier == "thorough" else 15000, prefix="C12/dep-C13/", extra_setup=c13.engine_setup)
            if r.status != "ok":
                out.append({"name": f"C12/dep-C13/{q}[{r.variant}]/unit", "status": "unknown", "backend": "pyvc", "where": f"tool limit: {r.detail}", "time": r.time})
            for o in r.obligations:
                if o["name"].endswith("/mustfail"):
                    continue
                out.append({"name": o["name"], "status": o["status"], "backend": o.get("backend") or "z3", "where": o.get("where"), "time": o.get("time", 0.0),
                            "model": o.get("model"), "reason": o.get("reason")})
    # "the libraries the script needs": _collect_required_libraries is an uninterpreted function in the proof of target(); what it
    # returns is C14's subject - its presence-vector obligations are re-run here so that this check does not rest on it unchecked
    import contracts.c14 as c14
    for o in c14.extra_obligations(None, tier, seed):
        if "requested" in o["name"] or "vectors" in o["name"]:
            o = dict(o)
            o["name"] = o["name"].replace("C14/", "C12/dep-C14/", 1)
            out.append(o)
    return out


