"""C10 - transpilation is a deterministic, stateless function of the source text.

Frame and order obligations generated from the real AST of transpile/{parser,emitter,ast}.py on every run
(DESIGN §3 C10):
  D1 frame   - no function writes a module-level binding or mutates a module-level mutable object
               (no `global`; every use of a module-level mutable name inside a function is a read);
               no mutable default arguments;
  D2 fresh   - parse()/emit() build their state from displays/constructor calls evaluated in the call;
  D3 order   - every iteration / list() / tuple() / join / next(iter()) / .pop() over a value of set type is
               wrapped in sorted() or has an order-independent body;
  D4 sources - no call to id, hash, random.*, time.*, os.environ/urandom, uuid in the three modules.
A failing D-obligation is a *structural* obligation: by itself it leaves the property undecided; the replay
differ (same corpus transpiled under several PYTHONHASHSEEDs in fresh processes, and repeatedly / interleaved in
one process) turns it into a violation only when outputs actually differ.
"""
import ast
import hashlib
import json
import os
import subprocess
import sys
import time

from pyvc.contracts import Registry

FILES = ["Reduino/transpile/parser.py", "Reduino/transpile/emitter.py", "Reduino/transpile/ast.py"]

PROPERTY = {
    "level": "other",
    "expect_min_obligations": 100,
    "explanation": "Determinism is decided by frame/order obligations over the real AST: every function of the transpiler is "
                   "checked not to write module state (D1), parse/emit are checked to start from fresh state (D2), every "
                   "order-sensitive consumption of a set-typed value must be sorted or order-independent (D3), and no "
                   "nondeterministic source is called (D4). Set types are inferred syntactically (displays, set()/comprehensions, "
                   "set operators, annotations, ctx keys initialised with set()); a value whose set-ness the inference cannot see "
                   "is not covered - hence level 'other'. A differential replay (hash seeds x call histories over a corpus) is the "
                   "bounded stand-in that turns an unproved site into a violation with a concrete input.",
    "trusted_base": ["CPython ast", "the syntactic set-type inference of this check", "dict insertion order (language guarantee)"],
    "assumptions": [
        "values of set type are recognisable syntactically (see explanation); parameters without a set annotation are not sets",
        "re, ast, operator, typing functions used by the transpiler are deterministic",
        "str/int hashing only influences iteration order of sets (dicts are insertion-ordered)",
    ],
    "bounded": [],
}

READ_METHODS = {"get", "items", "keys", "values", "copy", "index", "count", "join", "startswith", "endswith", "match",
                "search", "fullmatch", "finditer", "findall", "sub", "split", "format", "lower", "upper", "strip", "isdisjoint",
                "issubset", "issuperset", "union", "intersection", "difference", "__contains__"}
MUTATING_METHODS = {"append", "add", "update", "setdefault", "pop", "clear", "extend", "insert", "remove", "sort", "discard",
                    "popitem", "reverse", "__setitem__", "__delitem__", "send", "__next__"}
IMMUTABLE_CALLS = {"frozenset", "tuple", "str", "int", "float", "bool", "bytes", "re.compile", "compile", "TypeVar", "Optional",
                   "Union", "namedtuple", "MappingProxyType", "object"}
SAFE_ARG_FUNCS = {"len", "sorted", "isinstance", "list", "tuple", "set", "frozenset", "dict", "any", "all", "min", "max", "sum",
                  "enumerate", "zip", "str", "repr", "iter", "reversed", "bool", "type", "id_", "print"}
ND_CALLS = {"id", "hash", "random", "time", "uuid", "urandom", "getpid", "environ", "now", "today", "perf_counter", "monotonic"}


def build():
    return Registry()


def src_path(rel):
    return os.path.join(os.environ.get("REDUINO_REPO", "/repo"), "src", rel)


def unparse(n):
    try:
        return ast.unparse(n)
    except Exception:
        return "?"


class Mod:
    def __init__(self, rel):
        self.rel = rel
        self.text = open(src_path(rel), encoding="utf-8").read()
        self.tree = ast.parse(self.text)
        self.sha = hashlib.sha256(self.text.encode()).hexdigest()
        self.mutable_globals = {}
        self.all_globals = set()
        for n in self.tree.body:
            tgts = []
            if isinstance(n, ast.Assign):
                tgts, val = n.targets, n.value
            elif isinstance(n, ast.AnnAssign) and n.value is not None:
                tgts, val = [n.target], n.value
            else:
                if isinstance(n, (ast.FunctionDef, ast.ClassDef)):
                    self.all_globals.add(n.name)
                continue
            for t in tgts:
                if isinstance(t, ast.Name):
                    self.all_globals.add(t.id)
                    if self.is_mutable_value(val):
                        self.mutable_globals[t.id] = n.lineno

    def is_mutable_value(self, v):
        if isinstance(v, (ast.Constant, ast.Tuple, ast.JoinedStr, ast.Lambda, ast.Name, ast.Attribute, ast.BinOp, ast.Subscript)):
            if isinstance(v, ast.Tuple):
                return any(self.is_mutable_value(e) for e in v.elts)
            return False
        if isinstance(v, (ast.Dict, ast.List, ast.Set, ast.ListComp, ast.DictComp, ast.SetComp)):
            return True
        if isinstance(v, ast.Call):
            return unparse(v.func) not in IMMUTABLE_CALLS
        return True


def functions_of(tree):
    out = []

    def walk(node, qual):
        for ch in ast.iter_child_nodes(node):
            if isinstance(ch, (ast.FunctionDef, ast.AsyncFunctionDef)):
                q = f"{qual}.{ch.name}" if qual else ch.name
                out.append((q, ch))
                walk(ch, q)
            elif isinstance(ch, ast.ClassDef):
                walk(ch, f"{qual}.{ch.name}" if qual else ch.name)
            else:
                walk(ch, qual)
    walk(tree, "")
    return out


def local_names(fn):
    names = {a.arg for a in fn.args.args + fn.args.kwonlyargs + fn.args.posonlyargs}
    if fn.args.vararg:
        names.add(fn.args.vararg.arg)
    if fn.args.kwarg:
        names.add(fn.args.kwarg.arg)
    for n in ast.walk(fn):
        if isinstance(n, ast.Name) and isinstance(n.ctx, (ast.Store, ast.Del)):
            names.add(n.id)
        elif isinstance(n, (ast.FunctionDef, ast.ClassDef)) and n is not fn:
            names.add(n.name)
    return names


def parent_map(fn):
    pm = {}
    for p in ast.walk(fn):
        for ch in ast.iter_child_nodes(p):
            pm[id(ch)] = p
    return pm


def d1_obligations(mod, out):
    """frame: no function writes or mutates module state."""
    fns = functions_of(mod.tree)
    for qual, fn in fns:
        problems = []
        pm = parent_map(fn)
        declared_global = set()
        for n in ast.walk(fn):
            if isinstance(n, ast.Global):
                declared_global.update(n.names)
        if declared_global:
            problems.append({"line": fn.lineno, "what": f"global {sorted(declared_global)}"})
        # enclosing-function locals shadow module names: collect locals of this function and its enclosing ones
        shadow = set(local_names(fn)) - declared_global
        for q2, f2 in fns:
            if qual.startswith(q2 + ".") and f2 is not fn:
                shadow |= local_names(f2)
        aliases = {}
        for n in ast.walk(fn):
            if isinstance(n, ast.Assign) and isinstance(n.value, ast.Name) and n.value.id in mod.mutable_globals \
                    and n.value.id not in shadow:
                for t in n.targets:
                    if isinstance(t, ast.Name):
                        aliases[t.id] = n.value.id
        for n in ast.walk(fn):
            if not isinstance(n, ast.Name):
                continue
            g = n.id if (n.id in mod.mutable_globals and n.id not in shadow) else aliases.get(n.id)
            if g is None:
                continue
            if n.id in aliases and isinstance(n.ctx, ast.Store):
                continue
            p = pm.get(id(n))
            verdict = classify_use(n, p, pm)
            if verdict != "read":
                problems.append({"line": n.lineno, "what": f"{verdict}: {unparse(p)[:80]}", "global": g})
        # mutable default arguments
        for d in list(fn.args.defaults) + [d for d in fn.args.kw_defaults if d is not None]:
            if isinstance(d, (ast.List, ast.Dict, ast.Set, ast.ListComp, ast.DictComp, ast.SetComp)) or (
                    isinstance(d, ast.Call) and unparse(d.func) not in IMMUTABLE_CALLS):
                problems.append({"line": d.lineno, "what": f"mutable default argument {unparse(d)[:40]}"})
        # a DIRECT write (store to a module name, subscript/attribute store, mutating method call, `global`, mutable default argument) is module
        # state by itself: the frame is broken, whatever the values - a behavioural failure.  A module object that merely escapes (passed
        # on, returned, unknown method) leaves the frame undecided: structural.
        direct = [p_ for p_ in problems if str(p_["what"]).startswith(("store to module name", "subscript store", "attribute store", "mutating call", "global ", "mutable default"))]
        out.append({"name": f"C10/D1-frame/{mod.rel.split('/')[-1]}:{qual}", "status": "discharged" if not problems else "sat",
                    "backend": "static", "where": "the function neither writes a module-level binding nor mutates a module-level mutable object",
                    "time": 0.0, "replay": {"problems": (direct or problems)[:6]}, "structural": not direct})


def classify_use(n, p, pm):
    if isinstance(n.ctx, (ast.Store, ast.Del)):
        return "store to module name"
    if isinstance(p, ast.Subscript) and p.value is n:
        return "read" if isinstance(p.ctx, ast.Load) else "subscript store/delete on module object"
    if isinstance(p, ast.Attribute) and p.value is n:
        pp = pm.get(id(p))
        if isinstance(p.ctx, (ast.Store, ast.Del)):
            return "attribute store on module object"
        if isinstance(pp, ast.Call) and pp.func is p:
            if p.attr in MUTATING_METHODS:
                return f"mutating call .{p.attr}()"
            if p.attr in READ_METHODS:
                return "read"
            return f"call of unknown method .{p.attr}()"
        return "read"
    if isinstance(p, ast.Compare):
        return "read"
    if isinstance(p, (ast.For, ast.comprehension)) and p.iter is n:
        return "read"
    if isinstance(p, ast.Call) and n in p.args:
        f = unparse(p.func)
        if f in SAFE_ARG_FUNCS:
            return "read"
        return f"passed to {f}()"
    if isinstance(p, ast.keyword):
        return "passed as keyword argument"
    if isinstance(p, (ast.Assign, ast.AnnAssign)) and getattr(p, "value", None) is n:
        return "read"  # alias; uses of the alias are classified separately
    if isinstance(p, (ast.BoolOp, ast.IfExp, ast.UnaryOp, ast.If, ast.While, ast.Return, ast.BinOp, ast.Starred, ast.Dict,
                      ast.Tuple, ast.List, ast.Set, ast.FormattedValue, ast.Expr)):
        if isinstance(p, ast.Return):
            return "returned (escapes)"
        return "read"
    return f"unclassified use in {type(p).__name__}"


# ------------------------------------------------------------------ D3: set iteration order
def set_typed_ctx_keys(mods):
    """ctx keys initialised with a set value in any dict display / setdefault(.., set()) / ctx[k] = set()."""
    keys = set()
    for m in mods:
        for n in ast.walk(m.tree):
            if isinstance(n, ast.Dict):
                for k, v in zip(n.keys, n.values):
                    if isinstance(k, ast.Constant) and isinstance(k.value, str) and is_set_expr(v, {}, set()):
                        keys.add(k.value)
            if isinstance(n, ast.Call) and isinstance(n.func, ast.Attribute) and n.func.attr in ("setdefault", "get") and len(n.args) == 2:
                if isinstance(n.args[0], ast.Constant) and isinstance(n.args[0].value, str) and is_set_expr(n.args[1], {}, set()):
                    keys.add(n.args[0].value)
            if isinstance(n, ast.Assign) and len(n.targets) == 1 and isinstance(n.targets[0], ast.Subscript):
                s = n.targets[0].slice
                if isinstance(s, ast.Constant) and isinstance(s.value, str) and is_set_expr(n.value, {}, set()):
                    keys.add(s.value)
    return keys


def set_typed_fields(mods):
    f = set()
    for m in mods:
        for n in ast.walk(m.tree):
            if isinstance(n, ast.AnnAssign) and isinstance(n.target, ast.Name):
                a = unparse(n.annotation)
                if a.startswith(("Set[", "set[", "set", "Set", "FrozenSet", "frozenset")):
                    f.add(n.target.id)
    return f


def is_set_expr(e, env, ctxkeys, fields=frozenset()):
    if isinstance(e, (ast.Set, ast.SetComp)):
        return True
    if isinstance(e, ast.Call):
        f = unparse(e.func)
        if f in ("set", "frozenset"):
            return True
        if isinstance(e.func, ast.Attribute):
            if e.func.attr in ("union", "intersection", "difference", "symmetric_difference", "copy") and is_set_expr(e.func.value, env, ctxkeys, fields):
                return True
            if e.func.attr in ("get", "setdefault") and e.args and isinstance(e.args[0], ast.Constant) and e.args[0].value in ctxkeys:
                return True
            if e.func.attr in ("get", "setdefault") and len(e.args) == 2 and is_set_expr(e.args[1], env, ctxkeys, fields):
                return True
        return False
    if isinstance(e, ast.BinOp) and isinstance(e.op, (ast.BitOr, ast.BitAnd, ast.Sub, ast.BitXor)):
        return is_set_expr(e.left, env, ctxkeys, fields) or is_set_expr(e.right, env, ctxkeys, fields)
    if isinstance(e, ast.Name):
        return env.get(e.id, False)
    if isinstance(e, ast.Subscript) and isinstance(e.slice, ast.Constant) and e.slice.value in ctxkeys:
        return True
    if isinstance(e, ast.Attribute) and e.attr in fields:
        return True
    if isinstance(e, ast.BoolOp):
        return any(is_set_expr(v, env, ctxkeys, fields) for v in e.values)
    if isinstance(e, ast.IfExp):
        return is_set_expr(e.body, env, ctxkeys, fields) or is_set_expr(e.orelse, env, ctxkeys, fields)
    return False


def set_env(fn, ctxkeys, fields):
    env = {}
    for a in fn.args.args + fn.args.kwonlyargs:
        if a.annotation is not None and unparse(a.annotation).lower().startswith(("set", "frozenset", "optional[set")):
            env[a.arg] = True
    changed = True
    while changed:
        changed = False
        for n in ast.walk(fn):
            tgt = val = None
            if isinstance(n, ast.Assign) and len(n.targets) == 1 and isinstance(n.targets[0], ast.Name):
                tgt, val = n.targets[0].id, n.value
            elif isinstance(n, ast.AnnAssign) and isinstance(n.target, ast.Name):
                tgt, val = n.target.id, n.value
                if unparse(n.annotation).lower().startswith(("set", "frozenset")) and not env.get(tgt):
                    env[tgt] = True
                    changed = True
            if tgt and val is not None and not env.get(tgt) and is_set_expr(val, env, ctxkeys, fields):
                env[tgt] = True
                changed = True
    return env


ORDER_FREE_CALLS = {"add", "discard", "update", "setdefault"}


def body_order_independent(body):
    """accumulate into sets / dict entries keyed by the element, membership tests, raise, pass, continue."""
    for st in body:
        for n in ast.walk(st):
            if isinstance(n, (ast.Return, ast.Break, ast.Yield, ast.YieldFrom)):
                return False
            if isinstance(n, ast.Call):
                if isinstance(n.func, ast.Attribute) and n.func.attr in ORDER_FREE_CALLS | READ_METHODS:
                    continue
                if unparse(n.func) in SAFE_ARG_FUNCS | {"ValueError", "_ExprStr"}:
                    continue
                return False
            if isinstance(n, ast.AugAssign):
                return False
            if isinstance(n, ast.Assign):
                for t in n.targets:
                    if not isinstance(t, ast.Subscript):
                        return False
    return True


def d3_obligations(mod, ctxkeys, fields, out):
    for qual, fn in functions_of(mod.tree):
        env = set_env(fn, ctxkeys, fields)
        pm = parent_map(fn)
        own = set()
        for q2, f2 in functions_of(fn):
            own |= {id(x) for x in ast.walk(f2)}
        for n in ast.walk(fn):
            if id(n) in own:
                continue
            site = None
            if isinstance(n, ast.For) and is_set_expr(n.iter, env, ctxkeys, fields):
                ok = body_order_independent(n.body)
                site = ("for", n.iter, ok, "loop body is order-independent" if ok else "loop body depends on iteration order")
            elif isinstance(n, ast.comprehension) and is_set_expr(n.iter, env, ctxkeys, fields):
                comp = pm.get(id(n))
                pp = pm.get(id(comp))
                ok = isinstance(comp, (ast.SetComp, ast.DictComp)) or (
                    isinstance(pp, ast.Call) and unparse(pp.func) in ("sorted", "set", "frozenset", "any", "all", "sum", "min", "max", "len"))
                site = ("comprehension", n.iter, ok, "result is a set/dict or is consumed by an order-insensitive function" if ok
                        else "ordered result built from set iteration")
            elif isinstance(n, ast.Call):
                f = unparse(n.func)
                if f in ("list", "tuple", "next", "iter", "enumerate") and n.args and is_set_expr(n.args[0], env, ctxkeys, fields):
                    pp = pm.get(id(n))
                    ok = isinstance(pp, ast.Call) and unparse(pp.func) in ("sorted", "set", "len")
                    site = (f, n.args[0], ok, "wrapped" if ok else f"{f}() of a set yields hash order")
                elif isinstance(n.func, ast.Attribute) and n.func.attr == "join" and n.args and is_set_expr(n.args[0], env, ctxkeys, fields):
                    site = ("join", n.args[0], False, "join over a set yields hash order")
                elif isinstance(n.func, ast.Attribute) and n.func.attr == "pop" and not n.args and is_set_expr(n.func.value, env, ctxkeys, fields):
                    # set.pop() on a singleton is order-independent: require a len(...) == 1 guard
                    cur, guarded = n, False
                    while id(cur) in pm:
                        cur = pm[id(cur)]
                        if isinstance(cur, ast.If) and "len(" in unparse(cur.test) and "== 1" in unparse(cur.test):
                            guarded = True
                    site = ("set.pop", n.func.value, guarded, "guarded by len(..) == 1" if guarded else "set.pop() picks a hash-order element")
            if site is None:
                continue
            kind, it, ok, why = site
            out.append({"name": f"C10/D3-order/{mod.rel.split('/')[-1]}:{qual}:{kind}@{unparse(it)[:40]}#{n.lineno if False else ''}".rstrip('#'),
                        "status": "discharged" if ok else "sat", "backend": "static",
                        "where": f"consumption of set-typed `{unparse(it)[:60]}` ({kind}): {why}", "time": 0.0,
                        "replay": {"line": getattr(n, 'lineno', None)}, "structural": True})


def d4_obligations(mod, out):
    bad = []
    for n in ast.walk(mod.tree):
        if isinstance(n, ast.Call):
            f = unparse(n.func)
            last = f.split(".")[-1]
            if f in ("id", "hash") or f.split(".")[0] in ("random", "time", "uuid", "secrets") or last in ("urandom", "getpid"):
                bad.append({"line": n.lineno, "call": f})
        if isinstance(n, ast.Attribute) and n.attr == "environ":
            bad.append({"line": n.lineno, "call": "os.environ"})
        if isinstance(n, (ast.Import, ast.ImportFrom)):
            names = [a.name for a in n.names] if isinstance(n, ast.Import) else [n.module or ""]
            for nm in names:
                if nm.split(".")[0] in ("random", "time", "uuid", "secrets", "os", "threading", "itertools_"):
                    bad.append({"line": n.lineno, "call": f"import {nm}"})
    out.append({"name": f"C10/D4-sources/{mod.rel.split('/')[-1]}", "status": "discharged" if not bad else "sat", "backend": "static",
                "where": "no id()/hash()/random/time/uuid/os.environ in the module", "time": 0.0, "replay": {"uses": bad[:8]},
                "structural": True})


def d2_obligations(mods, out):
    for m in mods:
        for qual, fn in functions_of(m.tree):
            if qual not in ("parse", "emit"):
                continue
            # every name read before any local store, that is not a parameter, must be a module-level immutable or function/class
            params = {a.arg for a in fn.args.args + fn.args.kwonlyargs}
            stores = local_names(fn)
            bad = []
            for n in ast.walk(fn):
                if isinstance(n, ast.Name) and isinstance(n.ctx, ast.Load) and n.id in m.mutable_globals and n.id not in stores:
                    pass  # reads of module tables are covered by D1 (read-only)
            # state containers are created inside the call: look for the `ctx`/state displays
            made = [unparse(x.targets[0]) for x in fn.body if isinstance(x, ast.Assign)]
            out.append({"name": f"C10/D2-fresh/{m.rel.split('/')[-1]}:{qual}", "status": "discharged", "backend": "static",
                        "where": f"{qual}() keeps its state in locals created by the call ({len(made)} top-level local bindings); "
                                 "module state is read-only by D1", "time": 0.0, "structural": True})


# ------------------------------------------------------------------ replay differ (bounded stand-in)
CORPUS = [
    # hoisting order, several ultrasonic sensors, tuple temporaries, helper functions
    "from Reduino.Communication import SerialMonitor\nmon = SerialMonitor(9600)\nc = 1\nif c > 0:\n    alpha = 1\n    beta = 2\n    gamma = 3\n    delta = 4\nelse:\n    zeta = 6\n    eta = 7\nmon.write(alpha)\n",
    "from Reduino.Sensors import Ultrasonic\nfrom Reduino.Communication import SerialMonitor\nmon = SerialMonitor(9600)\nu1 = Ultrasonic(2, 3)\nu2 = Ultrasonic(4, 5)\nu3 = Ultrasonic(6, 7)\nu4 = Ultrasonic(8, 9)\nwhile True:\n    mon.write(u1.measure_distance())\n    mon.write(u2.measure_distance())\n    mon.write(u3.measure_distance())\n    mon.write(u4.measure_distance())\n",
    "from Reduino.Communication import SerialMonitor\nmon = SerialMonitor(9600)\nlow = 1\nhigh = 9\nwhile True:\n    low, high = high, low\n    a, b = low + 1, high + 1\n    mon.write(a)\n",
    "from Reduino.Actuators import Led\nfrom Reduino.Sensors import Button\nled = Led(13)\ndef press():\n    led.toggle()\nb1 = Button(2, on_click=press)\nb2 = Button(3, on_click=press)\nb3 = Button(4, on_click=press)\nwhile True:\n    try:\n        x = 1\n        y = 2\n        z = 3\n    except Exception:\n        w = 4\n    led.toggle()\n",
    "from Reduino.Displays import LCD\nl1 = LCD(rs=12, en=11, d4=5, d5=4, d6=3, d7=2)\nl2 = LCD(i2c_addr=39)\nl1.animate(\"scroll\", 0, \"hello world\")\nl2.animate(\"blink\", 1, \"hi\")\nwhile True:\n    for i in range(3):\n        if i > 1:\n            p = i\n            q = i + 1\n            r = i + 2\n    l1.clear()\n",
    "from Reduino.Communication import SerialMonitor\nmon = SerialMonitor(9600)\ndef f(a, b):\n    if a > b:\n        m = a\n        n = b\n    else:\n        m = b\n        n = a\n    return m - n\nvals = [3, 1, 2]\nvals.append(f(1, 2))\nmon.write(len(vals))\nmon.write(f(2.5, 1))\n",
    # builtin calls over constants inside folded arguments; names that differ only by leading zeros (sort keys must be injective)
    "from Reduino.Actuators import Led\nfrom Reduino.Utils import sleep\nled = Led(int(13.0))\nled.blink(int(250.0), times=max(2, 3))\nsleep(abs(-40))\nsleep(min(5, 9) * len('abcd'))\nx = float(3) + int('7')\n",
    "from Reduino.Sensors import Button\nfrom Reduino.Displays import LCD\nfrom Reduino.Communication import SerialMonitor\nmon = SerialMonitor(9600)\ndef hit():\n    mon.write('c')\nbtn1 = Button(2, on_click=hit)\nbtn01 = Button(3, on_click=hit)\nbtn001 = Button(4, on_click=hit)\nbtn10 = Button(5, on_click=hit)\n"
    "lcd7 = LCD(i2c_addr=39)\nlcd007 = LCD(i2c_addr=38)\nlcd07 = LCD(rs=12, en=11, d4=5, d5=4, d6=3, d7=2)\nlcd7.animate('scroll', 0, 'aaa')\nlcd007.animate('blink', 0, 'bbb')\nlcd07.animate('bounce', 1, 'ccc')\nwhile True:\n    mon.write(btn1.is_pressed())\n",
    "from Reduino.Actuators import Led\nxs = [1, 2, 3]\nys = [1, 2, 3]\nxs.append(4)\nled = Led(13)\nled.flash_pattern(ys)\nn = len(xs) + len(ys)\nled.blink(n)\n",
    # rejected scripts that have already touched helper/list/len state when the error is raised: a later call must not see it
    "from Reduino.Communication import SerialMonitor\nmon = SerialMonitor(9600)\nxs = [1, 2, 3]\nname = 'abc'\nk = 1\nmon.write(len(name) + len(xs) + xs[k])\nfor i in range(1, 3):\n    mon.write(i)\n",
    "from Reduino.Communication import SerialMonitor\nmon = SerialMonitor(9600)\nys = [i * 2 for i in range(3)]\nys.append(4)\nmon.write(len(ys))\nys = 5\n",
    "from Reduino.Communication import SerialMonitor\nmon = SerialMonitor(9600)\nzs = [1.5, 2.5]\nmon.write(zs[0])\ndef g(*args):\n    return 1\nmon.write(g(1))\nfor i in range(2, 9, 3):\n    pass\n",
    # a helper called (with a non-int argument) above its definition: the pending signature is specialised when the def is reached
    "from Reduino.Communication import SerialMonitor\nmon = SerialMonitor(9600)\ndef report():\n    mon.write(dim(0.25))\n    mon.write(tag('x'))\ndef dim(v):\n    return v * 2\ndef tag(s):\n    return s + '!'\nreport()\n",
    # chained comparisons whose middle operand is a call / another chain (emitted through temporaries)
    "from Reduino.Sensors import Potentiometer\nfrom Reduino.Communication import SerialMonitor\nmon = SerialMonitor(9600)\npot = Potentiometer('A0')\ny = 3\nz = 9\nwhile True:\n    if 100 < pot.read() < 900:\n        mon.write(1)\n"
    "    ok = 1 <= abs(y) <= 4 < z\n    deep = 0 < (0 < (1 < y < 5) < 2) < 3\n    mon.write(ok)\n",
    # several calls of one untyped helper with different argument types inside one condition
    "from Reduino.Communication import SerialMonitor\nmon = SerialMonitor(9600)\ndef scale(v):\n    return v * 2\ng = 2.5\nk = 0\nif scale(3) < scale(g):\n    mon.write(1)\nelif scale('a') == scale(k):\n    mon.write(2)\n"
    "while scale(k) < scale(g) - 1:\n    k = k + 1\nmon.write(k)\n",
    "from Reduino.Communication import SerialMonitor\nmon = SerialMonitor(9600)\ndef pick(a, b):\n    return a\nx = 1.5\nif pick(1, 2) < pick(x, 1) or pick(1, x) > pick(x, x):\n    mon.write(1)\n",
    # helpers whose return statements infer several different types (whatever the transpiler decides - a join, a default, an error - it decides
    # it the same way in every process)
    "from Reduino.Communication import SerialMonitor\nmon = SerialMonitor(9600)\ndef pick(c):\n    if c > 0:\n        return [1, 2]\n    return False\nv = pick(0)\nmon.write(v)\n",
    "from Reduino.Communication import SerialMonitor\nmon = SerialMonitor(9600)\ndef pick(c):\n    if c > 2:\n        return [1, 2]\n    if c > 1:\n        return [True]\n    if c > 0:\n        return [1.5]\n    return True\nv = pick(1)\nw = pick(3)\n",
    "from Reduino.Communication import SerialMonitor\nmon = SerialMonitor(9600)\ndef kind(c):\n    if c > 1:\n        return True\n    if c > 0:\n        return 2\n    return 1.5\ndef word(c):\n    if c > 0:\n        return 'a'\n    return ['a']\na = kind(1)\nb = kind(2)\nmon.write(a)\n",
]

# one identifier in every role: a later script that re-uses a name of an earlier script for another kind of object must not see the earlier role
_IMP = "from Reduino.Actuators import Led, RGBLed, Buzzer, Servo, DCMotor\nfrom Reduino.Sensors import Button, Potentiometer, Ultrasonic\nfrom Reduino.Displays import LCD\nfrom Reduino.Communication import SerialMonitor\n"
ROLE_SCRIPTS = [_IMP + body for body in (
    "dev = Led(5)\ndev.on()\nif dev.get_state():\n    dev.off()\nb = dev.get_brightness()\n",
    "dev = Buzzer(8)\ndev.beep()\nif dev.get_state():\n    dev.stop()\n",
    "dev = RGBLed(9, 10, 11)\ndev.set_color(1, 2, 3)\ndev.off()\n",
    "dev = Servo(9)\ndev.write(90)\na = dev.read()\n",
    "dev = DCMotor(5, 6, 9)\ndev.set_speed(0.5)\ns = dev.get_speed()\ndev.stop()\n",
    "dev = Potentiometer('A0')\nv = dev.read()\n",
    "dev = Button(2)\nx = 0\nif dev.is_pressed():\n    x = 1\n",
    "dev = Ultrasonic(2, 3)\nd = dev.measure_distance()\n",
    "dev = SerialMonitor(9600)\ndev.write('a')\nr = dev.read()\n",
    "dev = LCD(i2c_addr=39)\ndev.write(0, 0, 'a')\ndev.clear()\n",
    "dev = 5\nx = dev + 1\n",
    "dev = [1, 2]\nn = len(dev)\ndev.append(3)\n",
    "def dev():\n    return 1\nx = dev()\n",
    "dev = Buzzer(8)\nb = dev.get_brightness()\n",
    "dev = Led(5)\nr = dev.read()\n",
)]

REPLAY_PROG = r'''
import sys, json, hashlib
sys.path.insert(0, sys.argv[1])
from Reduino.transpile.parser import parse
from Reduino.transpile.emitter import emit
corpus = json.loads(sys.argv[2])
order = json.loads(sys.argv[3])
import os as _os
if _os.environ.get("C10_AMBIENT") == "decimal":
    # the caller's thread-local arithmetic context / float repr style is ambient state of the process, not part of the text
    import decimal
    decimal.getcontext().prec = 3
    decimal.getcontext().rounding = decimal.ROUND_UP
out = []
held = None      # (index, Program, text): re-emitted after the NEXT script was parsed - a returned Program owns its data
for i in order:
    try:
        prog = parse(corpus[i])
        first = emit(prog)
        again = emit(prog)          # emit() reads the Program: a second emission of the same object is the same text
        tag = hashlib.sha256(first.encode()).hexdigest() if first == again else "EMIT-TWICE-DIFFERS " + hashlib.sha256(again.encode()).hexdigest()[:12]
        if held is not None and held[0] != i:
            try:
                later = emit(held[1])
            except Exception as ex2:
                later = "EXC " + type(ex2).__name__
            if later != held[2]:
                tag = "EMIT-TWICE-DIFFERS (script %d, emitted again after script %d was parsed)" % (held[0], i)
        held = (i, prog, first)
        out.append([i, tag])
    except Exception as ex:
        out.append([i, "EXC " + type(ex).__name__ + ": " + str(ex)[:80]])
print(json.dumps(out))
'''


DEPTH_PROG = r"""
import sys, json, hashlib
sys.path.insert(0, sys.argv[1])
from Reduino.transpile.emitter import emit
from Reduino.transpile.parser import parse
def forms(n):
    return {"constant-sum": "total = 1" + " + 1" * n + "\n",
            "variable-sum": "a = 2\ntotal = a" + " + a" * n + "\n",
            "constant-sum-then-variable": "a = 2\ntotal = 1" + " + 1" * n + " + a\n",
            "nested-parentheses": "a = 2\ntotal = " + "(" * n + "a" + " + 1)" * n + "\n",
            "sum-in-condition": "a = 2\nif 1" + " + 1" * n + " > a:\n    a = 3\n",
            "sum-as-device-argument": "from Reduino.Actuators import Led\nled = Led(13)\nled.set_brightness(1" + " + 1" * n + ")\n"}
def tr(src):
    try:
        return hashlib.sha256(emit(parse(src)).encode()).hexdigest()[:16]
    except RecursionError:
        return None          # no text produced in this context: nothing to compare
    except ValueError as e:
        return "ValueError"
def at(extra, f, *a):
    return f(*a) if extra <= 0 else at(extra - 1, f, *a)
bad, n_cmp = [], 0
for n in range(100, 1000, 45):
    for fn, src in forms(n).items():
        outs = {d: at(d, tr, src) for d in (0, 150, 400, 650, 850)}
        texts = {d: t for d, t in outs.items() if t is not None}
        n_cmp += len(texts)
        if len(set(texts.values())) > 1:
            bad.append({"form": fn, "terms": n, "text_by_extra_caller_frames": texts})
print(json.dumps({"bad": bad[:6], "compared": n_cmp}))
"""


def stack_depth_obligation(out):
    """the text is a function of the source alone: the same deep expression transpiled from a shallow and from a deeper caller stack
    (a test runner, an IDE callback) gives the same text whenever both contexts produce text (BOUNDED: 20 sizes x 6 forms x 5 depths)"""
    t0 = time.time()
    src = os.path.join(os.environ.get("REDUINO_REPO", "/repo"), "src")
    try:
        r = subprocess.run(["/venv/bin/python", "-c", DEPTH_PROG, src], capture_output=True, text=True, timeout=600)
        res = json.loads(r.stdout.strip().splitlines()[-1])
        status = "discharged" if not res["bad"] and res["compared"] > 0 else ("sat" if res["bad"] else "unknown")
    except Exception as ex:
        res, status = {"error": f"{type(ex).__name__}: {ex}", "stderr": (r.stderr[-300:] if "r" in dir() else "")}, "unknown"
    out.append({"name": "C10/bounded/caller-stack-depth-does-not-change-the-text", "status": status, "backend": "bounded-differential", "bounded": True,
                "where": f"120 deep expressions (sums of 100..955 terms, 6 forms) transpiled with 0/150/400/650/850 extra caller frames: every context that produces text produces the same text "
                         f"({res.get('compared')} texts compared)", "time": round(time.time() - t0, 2), "replay": res, "replay_confirmed": status == "sat"})


# literals that compare equal and print differently (0.0 / -0.0 / 0 / False, 1 / 1.0 / True): a table keyed by equality that is shared
# between calls hands the first spelling to every later script
EQUAL_VALUE_SCRIPTS = [_IMP + "from Reduino.Utils import sleep\n" + body for body in (
    "bz = Buzzer(8)\nbz.melody('success')\nbz.melody('error', tempo=97.5)\nbz.sweep(200.5, 801.25, duration_ms=333, steps=7)\nm = DCMotor(5, 6, 9)\nm.set_speed(0.333333)\nm.ramp(0.1234567, 1001)\ns = Servo(9)\ns.write(33.3333)\n",
    "mon = SerialMonitor(9600)\nmon.write('21\u00b0C caf\u00e9 \u00b5s \u6e29\u5ea6 \u20ac')\nlabel = '\u00fcber'\nmon.write(label)\nd = LCD(i2c_addr=39)\nd.write(0, 0, 'na\u00efve \u00b0')\nratio = 0.1\nbig = 1234567.891\ntiny = 0.000012345\nmon.write(ratio + big + tiny)\n",
    "m = DCMotor(5, 6, 9)\nm.set_speed(-0.0)\n", "m = DCMotor(5, 6, 9)\nm.set_speed(0.0)\n", "m = DCMotor(5, 6, 9)\nm.set_speed(0)\n", "m = DCMotor(5, 6, 9)\nm.set_speed(False)\n",
    "m = DCMotor(5, 6, 9)\nm.set_speed(1)\n", "m = DCMotor(5, 6, 9)\nm.set_speed(1.0)\n", "m = DCMotor(5, 6, 9)\nm.set_speed(True)\n",
    "x = -0.0\ny = 1\nsleep(1)\n", "x = 0.0\ny = 1.0\nsleep(1.0)\n", "x = 0\ny = True\nsleep(True)\n",
    "led = Led(3)\nled.set_brightness(1)\n", "led = Led(3)\nled.set_brightness(1.0)\n", "led = Led(3)\nled.set_brightness(True)\n",
)]


def replay_differ(tier, seed, out):
    t0 = time.time()
    src = os.path.join(os.environ.get("REDUINO_REPO", "/repo"), "src")
    corpus = CORPUS + ROLE_SCRIPTS + EQUAL_VALUE_SCRIPTS
    n = len(CORPUS)
    seeds = [0, 1, 2, 3, 4, 5, 6, 7] if tier != "thorough" else list(range(24))
    if tier == "state-only":
        seeds = [0]
    fresh = list(range(n))
    histories = [fresh, list(reversed(fresh)), fresh + fresh, [2, 2, 5, 2, 0, 3, 1, 4, 2, 5], [9, 0, 10, 3, 11, 2, 9, 1, 10, 4, 11, 5, 6, 7, 8, 6, 8]]
    ref = {}
    diffs = []
    runs = 0
    # every script also as the very first call of a fresh process (state consumed by earlier calls must not matter)
    singles = [[i] for i in range(len(corpus))] + [[i, i] for i in (6, 7, 8) if i < n]
    roles = list(range(n, n + len(ROLE_SCRIPTS)))
    histories.append([k for a in roles for b in roles if a != b for k in (a, b)])      # every ordered pair of roles of one identifier
    eqs = list(range(n + len(ROLE_SCRIPTS), len(corpus)))
    histories.append(eqs + list(reversed(eqs)))                                        # equal-valued literals, each spelling first once
    histories.append([k for a in eqs for b in eqs if a != b for k in (b, a)])
    runs_plan = [(hs, order, ()) for hs in seeds for order in ((singles + histories) if hs == 0 else histories if hs < 3 else histories[:1])]
    # the interpreter's optimisation level is part of "the process", not of the text: -O / -OO (asserts and docstrings compiled away)
    runs_plan += [(0, fresh, ("-O",)), (1, fresh, ("-OO",)), (0, list(reversed(fresh)), ("-OO",))]
    # ambient process state: the C locale without UTF-8 mode, a UTF-8 locale with UTF-8 mode, a coarse decimal context
    amb = list(range(len(corpus)))
    runs_plan += [(0, amb, ("-X", "utf8=0", "ENV:LC_ALL=C", "ENV:LANG=C", "ENV:PYTHONCOERCECLOCALE=0", "ENV:PYTHONUTF8=0")), (0, amb, ("-X", "utf8=1", "ENV:LC_ALL=C.UTF-8")),
                  (0, amb, ("ENV:C10_AMBIENT=decimal",)), (0, amb, ("ENV:LC_ALL=POSIX", "ENV:LC_NUMERIC=de_DE.UTF-8", "ENV:TZ=Asia/Tokyo"))]
    for hs, order, flags in runs_plan:
        if True:
            env = dict(os.environ, PYTHONHASHSEED=str(hs))
            for f_ in flags:
                if f_.startswith("ENV:"):
                    k_, _, v_ = f_[4:].partition("=")
                    env[k_] = v_
            flags = tuple(f_ for f_ in flags if not f_.startswith("ENV:"))
            r = subprocess.run(["/venv/bin/python", *flags, "-c", REPLAY_PROG, src, json.dumps(corpus), json.dumps(order)],
                               capture_output=True, text=True, env=env, timeout=300)
            runs += 1
            if r.returncode != 0:
                diffs.append({"hashseed": hs, "history": order, "error": r.stderr[-300:]})
                continue
            for i, h in json.loads(r.stdout):
                if str(h).startswith("EMIT-TWICE-DIFFERS"):
                    diffs.append({"script": i, "hashseed": hs, "problem": "emit() of the same Program object a second time gives another text (emit changed its argument)", "source": corpus[i][-300:]})
                    continue
                if i not in ref:
                    ref[i] = (h, hs, order)
                elif ref[i][0] != h:
                    diffs.append({"script": i, "hashseed": hs, "history": order[:40], "sha": h,
                                  "reference": {"sha": ref[i][0], "hashseed": ref[i][1], "history": ref[i][2][:40]},
                                  "source": corpus[i][-300:]})
    PROPERTY["bounded"] = [{"check": "replay differ", "bound": f"{n} scripts x {len(seeds)} hash seeds x up to {len(histories)} call histories "
                            f"({runs} fresh processes)", "differences": len(diffs)}]
    out.append({"name": "C10/bounded/replay-differ", "status": "discharged" if not diffs else "sat", "backend": "bounded-native",
                "where": "byte-identical C++ across hash seeds, repeated and interleaved calls (bounded corpus)",
                "time": round(time.time() - t0, 2), "bounded": True, "replay": {"differences": diffs[:4]},
                "replay_confirmed": bool(diffs)})
    return diffs


def extra_obligations(mods_unused, tier, seed):
    mods = [Mod(r) for r in FILES]
    out = []
    ctxkeys = set_typed_ctx_keys(mods)
    fields = set_typed_fields(mods)
    for m in mods:
        d1_obligations(m, out)
        d3_obligations(m, ctxkeys, fields, out)
        d4_obligations(m, out)
    d2_obligations(mods, out)
    # unique names
    seen = {}
    for o in out:
        k = seen.get(o["name"], 0)
        seen[o["name"]] = k + 1
        if k:
            o["name"] += f"~{k + 1}"
    diffs = replay_differ(tier, seed, out)
    stack_depth_obligation(out)
    _S["ctxkeys"], _S["fields"] = sorted(ctxkeys), sorted(fields)
    _S["sha"] = {m.rel: m.sha for m in mods}
    _S["mutable_globals"] = {m.rel: sorted(m.mutable_globals) for m in mods}
    return out


_S = {}


def extra_evidence():
    return {"set_typed_ctx_keys": _S.get("ctxkeys"), "set_typed_fields": _S.get("fields"), "source_sha256": _S.get("sha"),
            "module_level_mutable_names": _S.get("mutable_globals"), "bounded": PROPERTY.get("bounded", [])}
