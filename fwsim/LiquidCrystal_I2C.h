#pragma once
#include <LiquidCrystal.h>
class LiquidCrystal_I2C : public LiquidCrystal { public:
  LiquidCrystal_I2C(int, int cc, int rr) : LiquidCrystal(0, 0, 0, 0, 0, 0) { begin(cc, rr); }
  void init() {} void backlight() {} void noBacklight() {} };
