"""C06 - accepted scripts yield well-formed, compilable Arduino C++ (necessary lemmas + bounded compile corpus).

  W1  _escape_string_literal is correct for ALL printable strings: (a) static obligation - its body is a chain of
      str.replace calls with one-character patterns on its argument, hence a character homomorphism (the image of a
      string is the concatenation of the images of its characters); (b) for every printable character c the image decodes,
      as a C string-literal body, to c, and the code {image(c)} is uniquely decodable (finite back end over the alphabet);
      (c) cross-check of (a): exhaustive strings up to length 3 over the special characters, run through a C-literal decoder.
  W2  every context that embeds a user string goes through the escaper: hostile literals in each embedding context compile
      and print the Python string (executed on the firmware mock).
  W3  structure: for every corpus sketch clang (AVR target, mock core headers) accepts the text; it defines setup() and
      loop() exactly once and no function twice (BOUNDED corpus: the C01 corpus, the C05 device scenarios, C06 shapes).
  W4  identifiers that are C++ keywords / core macros (probe family; a listed known finding).
"""
import ast
import itertools
import json
import os
import re
import subprocess
import tempfile
import time

from pyvc.contracts import Registry

PARSER = "Reduino/transpile/parser.py"
HERE = os.path.dirname(os.path.abspath(__file__))
ROOT = os.path.dirname(HERE)

PROPERTY = {
    "level": "other",
    "expect_min_obligations": 12,
    "explanation": "W1 decides string escaping for all printable strings (structural homomorphism obligation + per-character finite back "
                   "end). W2-W4 compile what the real emitter produces for a fixed corpus of program shapes with clang for AVR against "
                   "mock core headers and check the function table of clang's AST. Compilability of EVERY accepted script is a property "
                   "of all programs: bounded corpus only.",
    "trusted_base": ["clang --target=avr -std=gnu++17 -fsyntax-only as the compiler", "mock Arduino core / library headers in /verif/cxxvc and /verif/fwsim",
                     "meta-lemma: a chain of str.replace with one-character patterns is a character homomorphism"],
    "assumptions": ["the real Arduino core declares what the mock headers declare", "printable = U+0020..U+007E plus a sample of non-ASCII letters"],
    "bounded": [],
}

IMPORTS = ("from Reduino.Actuators import Led, RGBLed, Servo, DCMotor, Buzzer\nfrom Reduino.Sensors import Button, Potentiometer, Ultrasonic\n"
           "from Reduino.Displays import LCD\nfrom Reduino.Communication import SerialMonitor\nfrom Reduino.Utils import sleep\n")


def build():
    return Registry()


# ------------------------------------------------------------------------------------------------ W1
SIMPLE_ESC = {"\\": "\\", '"': '"', "'": "'", "n": "\n", "t": "\t", "r": "\r", "0": "\0", "a": "\a", "b": "\b", "f": "\f", "v": "\v", "?": "?"}


def c_decode(body):
    """the string denoted by a C string-literal body, or None if the body is not one (raw quote / dangling backslash / raw newline)"""
    out, i = [], 0
    while i < len(body):
        ch = body[i]
        if ch == "\\":
            if i + 1 >= len(body) or body[i + 1] not in SIMPLE_ESC:
                return None
            out.append(SIMPLE_ESC[body[i + 1]])
            i += 2
        elif ch == '"' or ch == "\n":
            return None
        else:
            out.append(ch)
            i += 1
    return "".join(out)


def w1(P, out):
    from contracts.c10 import Mod, functions_of
    t0 = time.time()
    m = Mod(PARSER)
    fn = next(f for q, f in functions_of(m.tree) if q == "_escape_string_literal")
    body = [s for s in fn.body if not (isinstance(s, ast.Expr) and isinstance(s.value, ast.Constant))]
    problems = []
    chain = []
    if len(body) == 1 and isinstance(body[0], ast.Return):
        e = body[0].value
        while isinstance(e, ast.Call) and isinstance(e.func, ast.Attribute) and e.func.attr == "replace":
            chain.append(e)
            e = e.func.value
        if not (isinstance(e, ast.Name) and e.id == fn.args.args[0].arg):
            problems.append("the innermost receiver of the replace chain is not the parameter")
        for c in chain:
            if not (len(c.args) == 2 and all(isinstance(a, ast.Constant) and isinstance(a.value, str) for a in c.args) and len(c.args[0].value) == 1 and not c.keywords):
                problems.append(f"line {c.lineno}: replace() is not of the form replace(<one character>, <literal>)")
    else:
        problems.append("body is not a single `return <chain of .replace calls>`")
    if not chain:
        problems.append("no replace chain found")
    out.append({"name": "C06/W1/escaper-is-a-character-homomorphism", "status": "discharged" if not problems else "sat", "backend": "static", "structural": True,
                "where": "_escape_string_literal returns value.replace(c1, s1)...replace(ck, sk) with one-character patterns: the image of a string is the concatenation of its characters' images",
                "time": round(time.time() - t0, 3), "replay": {"problems": problems}})
    # (b) per character
    t0 = time.time()
    alphabet = [chr(c) for c in range(0x20, 0x7F)] + list("éüß€λЖ中")
    bad = []
    esc = P._escape_string_literal
    for ch in alphabet:
        img = esc(ch)
        if c_decode(img) != ch:
            bad.append({"char": ch, "image": img, "decodes_to": c_decode(img)})
        elif ch not in '\\"' and (img != ch):
            bad.append({"char": ch, "image": img, "problem": "ordinary character is not mapped to itself"})
    # unique decodability: images of ordinary characters contain neither \ nor ", the two special images start with \ and have length 2
    if not (esc("\\") == "\\\\" and esc('"') == '\\"'):
        bad.append({"problem": "images of \\ and \" are not the two-character escapes", "images": [esc("\\"), esc('"')]})
    out.append({"name": "C06/W1/every-printable-character-decodes-to-itself", "status": "discharged" if not bad else "sat", "backend": "enum",
                "where": f"{len(alphabet)} printable characters: the image is a C literal body denoting the character; the code is prefix-free",
                "time": round(time.time() - t0, 3), "replay": {"bad": bad[:6]}, "replay_confirmed": bool(bad)})
    # (c) cross-check of the homomorphism argument on the real function
    t0 = time.time()
    special = ['\\', '"', "'", "a", " ", "%", "?", "n", "/"]
    bad, n = [], 0
    for L in (1, 2, 3, 4):
        for tup in itertools.product(special, repeat=L):
            s = "".join(tup)
            n += 1
            img = esc(s)
            if c_decode(img) != s or img != "".join(esc(c) for c in s):
                bad.append({"string": s, "image": img, "decodes_to": c_decode(img)})
                if len(bad) > 5:
                    break
    out.append({"name": "C06/W1/exhaustive-short-strings-over-special-characters", "status": "discharged" if not bad else "sat", "backend": "enum",
                "where": f"{n} strings (length <= 4 over 9 special characters): image decodes to the string and equals the concatenation of character images",
                "time": round(time.time() - t0, 3), "replay": {"bad": bad[:4]}, "replay_confirmed": bool(bad)})


# ------------------------------------------------------------------------------------------------ W2
HOSTILE = ['say "hi" now', 'back\\slash', 'both \\ and " here', 'quote at end "', '\\', '"', "it's 100% ok?", 'tab\\tliteral', '""', '\\"']
CONTEXTS = {
    "serial-write": lambda lit: f"mon.write({lit})\n",
    "concat": lambda lit: f"n = 3\nmon.write({lit} + str(n))\n",
    "fstring-chunk": None,     # built specially (the literal is the f-string's text)
    "variable": lambda lit: f"s = {lit}\nmon.write(s)\n",
    "function-return": lambda lit: f"def label():\n    return {lit}\nt = label()\nmon.write(t)\n",
    "function-argument": lambda lit: f"def show(m):\n    mon.write(m)\nshow({lit})\n",
    "list-element": lambda lit: f"xs = [{lit}, 'z']\nmon.write(xs[0])\n",
    "comparison": lambda lit: f"s = {lit}\nif s == {lit}:\n    mon.write('same')\nelse:\n    mon.write('different')\n",
    "lcd-write": lambda lit: f"lcd = LCD(rs=22, en=23, d4=24, d5=25, d6=26, d7=27)\nlcd.write(0, 0, {lit})\nmon.write('done')\n",
    "in-loop": lambda lit: f"while True:\n    mon.write({lit})\n    sleep(5)\n",
}


def _w2_one(args):
    ctx, s = args
    from progs.diff import differential
    lit = repr(s)
    if ctx == "fstring-chunk":
        if "{" in s or "}" in s or "\\" in s:
            return ctx, s, "skipped", None, None
        body = "k = 2\nmon.write(f" + repr(s + " {k} " + s) + ")\n"
    else:
        body = CONTEXTS[ctx](lit)
    src = IMPORTS + "mon = SerialMonitor(9600)\n" + body
    r = differential(src, passes=1, kinds=("S",))
    return ctx, s, r["verdict"], r.get("first_difference") or r.get("detail"), src


def w2(out):
    import multiprocessing as mp
    t0 = time.time()
    jobs = [(c, s) for c in CONTEXTS for s in HOSTILE]
    with mp.Pool(16) as pool:
        res = pool.map(_w2_one, jobs, chunksize=1)
    by = {}
    for ctx, s, verdict, detail, src in res:
        by.setdefault(ctx, []).append((s, verdict, detail, src))
    per = round((time.time() - t0) / max(1, len(by)), 3)
    for ctx, rows in sorted(by.items()):
        bad = [{"literal": s, "verdict": v, "detail": str(d)[:300], "script": src} for s, v, d, src in rows if v not in ("same", "rejected", "skipped", "python-undefined")]
        harness = [b for b in bad if b["verdict"].startswith("harness")]
        status = "discharged" if not bad else ("unknown" if harness else "sat")
        out.append({"name": f"C06/W2/{ctx}", "status": status, "backend": "enum+fwsim",
                    "where": f"context '{ctx}': {len(rows)} hostile literals compile and print the Python string",
                    "time": per, "replay": {"bad": bad[:3]}, "replay_confirmed": status == "sat"})


# ------------------------------------------------------------------------------------------------ W3
SHAPES = {
    "helper-two-signatures": "mon = SerialMonitor(9600)\ndef scale(value):\n    value = value * 1.5\n    return value\nraw = 4\nsmall = scale(raw)\nbig = scale(2.5)\nmon.write(small)\nmon.write(big)\n",
    "helper-int-and-float-calls": "mon = SerialMonitor(9600)\ndef dbl(v):\n    return v * 2\na = dbl(3)\nb = dbl(1.5)\nmon.write(a)\nmon.write(b)\n",
    "helper-str-and-int-calls": "mon = SerialMonitor(9600)\ndef show(v):\n    mon.write(v)\nshow(3)\nshow('x')\n",
    "hoisted-from-branch": "mon = SerialMonitor(9600)\nc = 2\nif c > 1:\n    label = 'big'\nelse:\n    label = 'small'\nmon.write(label)\n",
    "hoisted-from-loop": "mon = SerialMonitor(9600)\nfor i in range(3):\n    last = i * 2\nmon.write(last)\n",
    "hoisted-in-main-loop": "mon = SerialMonitor(9600)\nk = 0\nwhile True:\n    k = k + 1\n    if k > 2:\n        tag = 'late'\n    else:\n        tag = 'early'\n    mon.write(tag)\n    sleep(5)\n",
    "hoisted-in-function": "mon = SerialMonitor(9600)\ndef pick(k):\n    if k > 0:\n        r = 2.5\n    else:\n        r = 0.5\n    return r\nv = pick(1)\nmon.write(v)\n",
    "string-first-assigned-in-for": "mon = SerialMonitor(9600)\nfor i in range(2):\n    tag = 'n' + str(i)\nmon.write(tag)\n",
    "float-first-assigned-in-for": "mon = SerialMonitor(9600)\nfor i in range(3):\n    half = i * 0.5\nmon.write(half)\n",
    "list-first-assigned-in-for": "mon = SerialMonitor(9600)\nfor i in range(2):\n    pair = [i, i + 1]\nmon.write(pair[0])\n",
    "string-first-assigned-in-for-in-main-loop": "mon = SerialMonitor(9600)\nwhile True:\n    for i in range(2):\n        tag = 'p' + str(i)\n    mon.write(tag)\n    sleep(5)\n",
    "string-first-assigned-in-for-in-function": "mon = SerialMonitor(9600)\ndef last_tag(n):\n    for i in range(n):\n        t = 'q' + str(i)\n    return t\nr = last_tag(2)\nmon.write(r)\n",
    "string-first-assigned-in-while": "mon = SerialMonitor(9600)\nk = 0\nwhile k < 2:\n    word = 'w' + str(k)\n    k = k + 1\nmon.write(word)\n",
    "bool-first-assigned-in-for": "mon = SerialMonitor(9600)\nfor i in range(2):\n    flag = i > 0\nmon.write(flag)\n",
    "user-variable-in-servo-bounds": "lo = 10\nhi = 170\narm = Servo(6, min_angle=lo, max_angle=hi)\nwhile True:\n    arm.write(90)\n    sleep(5)\n",
    "user-variable-in-servo-pulses": "pmin = 600\npmax = 2300\narm = Servo(6, min_pulse_us=pmin, max_pulse_us=pmax)\nwhile True:\n    arm.write(90)\n    sleep(5)\n",
    "user-variable-in-buzzer-default": "base = 330\nbz = Buzzer(8, default_frequency=base)\nwhile True:\n    bz.beep()\n    sleep(5)\n",
    "user-variable-in-lcd-geometry": "width = 20\nheight = 4\npanel = LCD(rs=22, en=23, d4=24, d5=25, d6=26, d7=27, cols=width, rows=height)\npanel.write(0, 0, 'hi')\n",
    "user-variable-in-lcd-i2c-address": "addr = 39\npanel = LCD(i2c_addr=addr)\npanel.write(0, 0, 'hi')\n",
    "user-variable-as-pin": "p = 9\nled = Led(p)\nbtn = Button(p + 1)\nmon = SerialMonitor(9600)\nwhile True:\n    led.toggle()\n    mon.write(btn.is_pressed())\n    sleep(5)\n",
    "helper-reads-global-list-bound-later": "mon = SerialMonitor(9600)\ndef second():\n    return xs[1]\nxs = [4, 5, 6]\nr = second()\nmon.write(r)\n",
    "helper-reads-global-list-bound-earlier": "mon = SerialMonitor(9600)\nxs = [4, 5, 6]\ndef second():\n    return xs[1]\nr = second()\nmon.write(r)\n",
    "continue-in-elif-arm-of-main-loop": "mon = SerialMonitor(9600)\nn = 0\nwhile True:\n    n = n + 1\n    if n == 1:\n        mon.write('one')\n    elif n % 2 == 0:\n        continue\n    else:\n        mon.write('odd')\n    sleep(5)\n",
    "continue-in-nested-if-of-main-loop": "mon = SerialMonitor(9600)\nn = 0\nwhile True:\n    n = n + 1\n    if n > 1:\n        if n % 2 == 0:\n            mon.write('e')\n        elif n % 3 == 0:\n            continue\n    mon.write(n)\n    sleep(5)\n",
    "break-and-continue-in-elif-arm-of-nested-loop": "mon = SerialMonitor(9600)\nwhile True:\n    for i in range(5):\n        if i == 0:\n            mon.write('z')\n        elif i == 1:\n            continue\n        elif i == 3:\n            break\n        mon.write(i)\n    sleep(5)\n",
    "two-lcd-kinds-i2c-first": "l2 = LCD(i2c_addr=0x27)\nl1 = LCD(rs=22, en=23, d4=24, d5=25, d6=26, d7=27)\nl1.write(0, 0, 'a')\nl2.write(0, 0, 'b')\n",
    "helper-local-name-reused-at-top-level": "mon = SerialMonitor(9600)\ndef add_up(n):\n    total = 0\n    for i in range(n):\n        total = total + i\n    return total\nr = add_up(4)\ntotal = r + 1\nmsg = 'x'\nmon.write(total)\nmon.write(msg)\n",
    "helper-local-name-reused-in-second-helper": "mon = SerialMonitor(9600)\ndef first(n):\n    acc = n * 2\n    return acc\ndef second(n):\n    acc = n + 0.5\n    return acc\na = first(2)\nb = second(2)\nmon.write(a)\nmon.write(b)\n",
    "helper-with-local-two-signatures": "mon = SerialMonitor(9600)\ndef tag(v):\n    label = v\n    return label\na = tag(7)\nb = tag('seven')\nmon.write(a)\nmon.write(b)\n",
    "helper-parameter-name-reused-at-top-level": "mon = SerialMonitor(9600)\ndef show(msg):\n    mon.write(msg)\nshow('a')\nmsg = 'later'\nmon.write(msg)\n",
    "try-except": "mon = SerialMonitor(9600)\ntry:\n    x = 5\nexcept Exception:\n    x = 0\nmon.write(x)\n",
    "lists-and-len": "mon = SerialMonitor(9600)\nxs = [1, 2, 3]\nname = 'abc'\nwhile True:\n    xs.append(4)\n    mon.write(len(name))\n    mon.write(xs[0])\n    sleep(5)\n",
    "list-comprehension": "mon = SerialMonitor(9600)\nsq = [i * i for i in range(5)]\nmon.write(sq[2])\n",
    "swap-and-temporaries": "mon = SerialMonitor(9600)\na = 1\nb = 2\nwhile True:\n    a, b = b, a\n    a, b = b, a + b\n    mon.write(a)\n    sleep(5)\n",
    "servo-and-lcd-and-i2c": "s = Servo(6)\nl1 = LCD(rs=22, en=23, d4=24, d5=25, d6=26, d7=27)\nl2 = LCD(i2c_addr=0x27)\nwhile True:\n    s.write(45)\n    l1.write(0, 0, 'a')\n    l2.write(0, 1, 'b')\n    sleep(5)\n",
    "lcd-animation": "l1 = LCD(rs=22, en=23, d4=24, d5=25, d6=26, d7=27)\nl1.animate('scroll', 0, 'hello world', speed_ms=100)\nwhile True:\n    sleep(5)\n",
    "ultrasonic-in-helper": "mon = SerialMonitor(9600)\nu = Ultrasonic(7, 8)\ndef near():\n    d = u.measure_distance()\n    return d < 10\nwhile True:\n    r = near()\n    mon.write(r)\n    sleep(5)\n",
    "button-callback": "mon = SerialMonitor(9600)\ndef hit():\n    mon.write('click')\nb = Button(4, on_click=hit)\nwhile True:\n    sleep(5)\n",
    "helper-mutual-calls": "mon = SerialMonitor(9600)\ndef a1(v):\n    return b1(v) + 1\ndef b1(v):\n    return v * 3\nr = a1(2)\nmon.write(r)\n",
    "queries-stored-in-variables": ("mon = SerialMonitor(9600)\nm = DCMotor(2, 3, 5)\nm.set_speed(0.5)\nv = m.get_speed()\nw = m.get_applied_speed()\ni = m.is_inverted()\nmode = m.get_mode()\n"
                                    "mon.write(v)\nmon.write(w)\nmon.write(i)\nmon.write(mode)\nbz = Buzzer(8)\nf = bz.get_frequency()\ng = bz.get_last_frequency()\nst = bz.get_state()\nmon.write(f)\n"
                                    "s = Servo(9)\na = s.read()\nu = s.read_us()\nmon.write(a + u)\nl = Led(13)\nb = l.get_brightness()\nt = l.get_state()\nmon.write(b)\n"),
    "host-only-serial-read-as-value": "mon = SerialMonitor(9600)\nx = mon.read('host')\ny = mon.read(emit='host')\nz = mon.read()\nmon.read('host')\nmon.write(x + y + z)\n",
    "animate-inside-helper": "lcd = LCD(i2c_addr=0x27)\ndef show():\n    lcd.animate('scroll', 0, 'hello', speed_ms=100, loop=True)\nshow()\nwhile True:\n    sleep(5)\n",
    "for-variable-read-after-the-loop": "mon = SerialMonitor(9600)\nt = 0\nfor i in range(3):\n    t = t + i\nmon.write(i)\n",
    "helper-respecialised-from-the-main-loop-with-a-loop-local-of-the-same-name": "mon = SerialMonitor(9600)\ndef scale(v):\n    r = v * 2\n    return r\nwhile True:\n    r = 1\n    a = scale(3)\n    g = 1.5\n    b = scale(g)\n    mon.write(a + b + r)\n    sleep(5)\n",
    "animate-inside-the-main-loop": "lcd = LCD(i2c_addr=0x27)\nlcd.animate('blink', 0, 'boot', speed_ms=100)\nk = 0\nwhile True:\n    k = k + 1\n    if k == 3:\n        lcd.animate('scroll', 1, 'third pass', speed_ms=50, loop=True)\n    lcd.animate('typewriter', 0, 'again', speed_ms=20)\n    sleep(5)\n",
    "chain-with-a-loop-local-left-operand": "led = Led(13)\nmon = SerialMonitor(9600)\nwhile True:\n    low = 100\n    if low < analog_read(0) < 900:\n        led.on()\n    mon.write(low)\n    sleep(5)\n",
    "chain-with-a-parameter-left-operand": "led = Led(13)\ndef beyond(near):\n    return near < analog_read(1) < 150\nwhile True:\n    if beyond(20):\n        led.on()\n    sleep(5)\n",
    "chain-with-a-for-index-left-operand": "led = Led(13)\ndef level(pin):\n    return analog_read(pin) / 100\nwhile True:\n    for step in range(8):\n        if step < level(0) <= 10:\n            led.toggle()\n    sleep(5)\n",
    "chain-with-a-loop-local-right-operand": "led = Led(13)\nwhile True:\n    high = 900\n    if 100 < analog_read(0) < high:\n        led.on()\n    sleep(5)\n",
    "device-declared-in-both-arms-of-an-if": "cfg = 1\nif cfg == 1:\n    dev = Led(13)\nelse:\n    dev = Led(12)\ndev.set_brightness(77)\n",
    "string-repeated-by-a-run-time-count": "mon = SerialMonitor(9600)\nn = 0\nwhile True:\n    n = n + 1\n    bar = '#' * n\n    mon.write(bar)\n    sleep(5)\n",
    "empty-script": "",
    "only-imports-and-sleep": "while True:\n    sleep(100)\n",
    "string-functions": "mon = SerialMonitor(9600)\ndef tag(s, n):\n    return s + str(n)\nt = tag('k', 3)\nmon.write(t)\nmon.write(len(t))\n",
    "bool-and-float-globals": "mon = SerialMonitor(9600)\nflag = True\nratio = 0.25\nname = 'x'\nwhile True:\n    flag = not flag\n    ratio = ratio * 2\n    mon.write(flag)\n    mon.write(ratio)\n    sleep(5)\n",
    "nested-control-flow": "mon = SerialMonitor(9600)\nk = 0\nwhile True:\n    for i in range(3):\n        if i == k:\n            j = 0\n            while j < 2:\n                mon.write(i + j)\n                j = j + 1\n        else:\n            mon.write('n')\n    k = k + 1\n    sleep(5)\n",
}
KEYWORDS = ["double", "char", "long", "short", "signed", "unsigned", "auto", "register", "static", "switch", "case", "default", "do", "goto", "new", "delete",
            "this", "template", "typename", "namespace", "using", "virtual", "void", "volatile", "struct", "union", "enum", "const", "extern", "inline",
            "public", "private", "protected", "friend", "operator", "sizeof", "typedef", "byte", "word", "boolean", "setup", "loop", "main", "Serial", "HIGH", "OUTPUT"]


def clang_check(cpp):
    """(ok, stderr, function table) of clang for AVR against the mock core headers"""
    with tempfile.TemporaryDirectory(prefix="c06-") as d:
        p = os.path.join(d, "sketch.cpp")
        open(p, "w").write(cpp)
        # diagnostics that C++ compilers treat as errors by default (e.g. `return;` in a value-returning function) stay errors: no -w / -Wno-everything
        cmd = ["clang++", "--target=avr", "-std=gnu++17", "-fsyntax-only", "-I", os.path.join(ROOT, "cxxvc"), p]
        r = subprocess.run(cmd, capture_output=True, text=True, timeout=120)
        return r.returncode == 0, r.stderr[-600:]


def structure_problems(cpp):
    probs = []
    defs = re.findall(r"^(?!\s)([A-Za-z_][\w<>:\*& ]*?)\s+([A-Za-z_]\w*)\s*\(([^)]*)\)\s*\{", cpp, re.M)
    table = {}
    for ret, name, params in defs:
        sig = (name, tuple(re.sub(r"\s*\w+\s*$", "", p.strip()) for p in params.split(",") if p.strip()))
        table[sig] = table.get(sig, 0) + 1
    for must in ("setup", "loop"):
        n = sum(v for (name, _), v in table.items() if name == must)
        if n != 1:
            probs.append(f"{must}() is defined {n} times")
    for sig, n in table.items():
        if n > 1:
            probs.append(f"{sig[0]}({', '.join(sig[1])}) is defined {n} times")
    if cpp.count("{") != cpp.count("}"):
        # braces inside string literals are rare in the corpus; the compiler is the judge, this is only a hint
        pass
    return probs


def _w3_one(args):
    name, src = args
    from progs.diff import transpile
    cpp, err = transpile(src)
    if cpp is None:
        return name, "rejected", err, src
    ok, stderr = clang_check(cpp)
    probs = structure_problems(cpp)
    if not ok:
        return name, "does-not-compile", stderr, src
    if probs:
        return name, "ill-formed", probs, src
    return name, "ok", None, src


def w3(out, tier):
    import multiprocessing as mp
    from progs.corpus import CORPUS
    from contracts.c05 import scenarios
    corpus = {f"shape/{k}": IMPORTS + v for k, v in SHAPES.items()}
    corpus.update({f"core/{k}": v for k, v in CORPUS.items()})
    corpus.update({f"device/{k}": v for k, v in scenarios().items()})
    # every device command twice in one block (setup, main loop, helper): temporaries of the emitted code must be block-scoped
    from progs import devdiff
    decls = dict(devdiff.DECL, Buzzer="d = Buzzer(8)", LCD="d = LCD(rs=22, en=23, d4=24, d5=25, d6=26, d7=27)")
    cmds = {k: sorted({c for g in v.values() for c in g}) for k, v in devdiff.COMMANDS.items()}
    cmds["Buzzer"] = ["d.play_tone(440)", "d.play_tone(330, 100)", "d.stop()", "d.beep(500, on_ms=20, off_ms=10, times=2)", "d.sweep(200, 400, duration_ms=100, steps=4)", "d.melody('success')"]
    cmds["LCD"] = sorted({c for g in devdiff.LCD_COMMANDS.values() for c in g})[:14] + ["d.backlight(True)", "d.brightness(60)", "d.display(False)", "d.glyph(0, [1, 2, 3, 4, 5, 6, 7, 8])"]
    for kind, clist in cmds.items():
        body = "\n".join(f"{c}\n{c}" for c in clist)
        ind = lambda t, n=1: "\n".join("    " * n + l for l in t.split("\n"))
        corpus[f"doubled/{kind}/setup"] = IMPORTS + decls[kind] + "\n" + body + "\n"
        corpus[f"doubled/{kind}/main-loop"] = IMPORTS + decls[kind] + "\nwhile True:\n" + ind(body) + "\n    sleep(5)\n"
        corpus[f"doubled/{kind}/helper"] = IMPORTS + decls[kind] + "\ndef act():\n" + ind(body) + "\nact()\n"
    if tier == "thorough":
        from progs.gen import programs
        for gs in (0, 1, 2):
            corpus.update({f"generated/{k}": v for k, v in programs(150, seed=gs).items()})
    t0 = time.time()
    with mp.Pool(16) as pool:
        res = pool.map(_w3_one, sorted(corpus.items()), chunksize=1)
    per = round((time.time() - t0) / max(1, len(res)), 3)
    counts = {}
    for name, verdict, detail, src in res:
        counts[verdict] = counts.get(verdict, 0) + 1
        ok = verdict in ("ok", "rejected")
        out.append({"name": f"C06/W3/{name}", "status": "discharged" if ok else "sat", "backend": "clang-avr", "bounded": True,
                    "where": f"sketch of '{name}' is accepted by clang for AVR, defines setup()/loop() once and no function twice [{verdict}]",
                    "time": per, "replay": {"script": src, "verdict": verdict, "detail": detail}, "replay_confirmed": not ok})
    _S["w3"] = counts
    PROPERTY["bounded"] = [{"check": "W3 compile corpus", "bound": f"{len(corpus)} scripts (program shapes, C01 corpus, C05 device scenarios)"}]


def w4(out):
    """identifiers that are C++ keywords or core names, as a variable and as a helper function name"""
    from progs.diff import transpile
    t0 = time.time()
    bad = []
    for kw in KEYWORDS:
        for kind, src in (("variable", f"mon = SerialMonitor(9600)\n{kw} = 3\nmon.write({kw} + 1)\n"),
                          ("function", f"mon = SerialMonitor(9600)\ndef {kw}(v):\n    return v + 1\nr = {kw}(2)\nmon.write(r)\n")):
            cpp, err = transpile(IMPORTS + src)
            if cpp is None:
                continue
            ok, stderr = clang_check(cpp)
            if not ok:
                bad.append({"identifier": kw, "as": kind, "clang": stderr[-160:]})
    out.append({"name": "C06/W4/identifiers-that-are-cxx-keywords", "status": "discharged" if not bad else "sat", "backend": "clang-avr", "probe": True,
                "where": f"{len(KEYWORDS)} identifiers that are legal in Python but reserved in C++ / the Arduino core, as variable and as helper name: rejected or compilable",
                "time": round(time.time() - t0, 3), "replay": {"count": len(bad), "bad": bad[:8]}, "replay_confirmed": bool(bad)})


def extra_obligations(mods, tier, seed):
    from contracts.c08 import real
    P = real("Reduino.transpile.parser")
    out = []
    w1(P, out)
    w2(out)
    w3(out, tier)
    w4(out)
    return out


_S = {}


def extra_evidence():
    return {"compile_corpus_verdicts": _S.get("w3"), "bounded": PROPERTY.get("bounded", [])}
