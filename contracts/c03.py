"""C03 - transpile-time evaluation (constant folding / propagation) never changes meaning.

  F1  the constant evaluator has Python's semantics: on an enumerated grid of expression forms x operand values it
      returns exactly what CPython's eval returns (type and value), and raises wherever CPython raises;
  F2  the numeric/float/bool resolvers fold an argument only if it mentions no name: static guard obligation on every
      resolver closure + behaviour on every device parameter (an argument routed through a variable stays a run-time
      expression);
  F3  _expr_has_name is exact on every expression form of the grid (a name hidden at any child position is found);
  F4  environment soundness at the name-reading consumers (len(name), flash_pattern(name), list append/len): a value baked
      into the firmware equals what CPython observes at that point - differential probes across scope constructs."""
import ast
import itertools
import re
import time

from pyvc.contracts import Registry
from contracts.c10 import Mod, functions_of, parent_map, unparse

PARSER = "Reduino/transpile/parser.py"

PROPERTY = {
    "level": "other",
    "expect_min_obligations": 10,
    "explanation": "F1-F3 are decided by the finite back end / static obligations on the real code (evaluator grid against CPython, "
                   "guard structure of every resolver, exactness of the name test, every device parameter with a variable argument). "
                   "F4 - that the constant environment is sound on every path to a consumer - is a whole-program dataflow property "
                   "with no contract within reach; it is probed by a CPython differential over scope constructs (bounded), and the "
                   "failing probes of the pinned tree are known findings (a repair is a dataflow redesign).",
    "trusted_base": ["CPython eval as the definition of Python's expression semantics", "the real parser/emitter under python3-vt"],
    "assumptions": ["grid operands are small ints/floats/bools/strings; larger values behave alike (no value-dependent branches in the evaluator "
                    "other than the non-finite / size guards)", "probe scripts are representatives of scope constructs, not all programs"],
    "bounded": [],
}


def build():
    return Registry()


VALUES = ["-7", "-2", "0", "1", "3", "2.5", "-0.5", "True", "False", "'ab'", "''", "'7'"]
BINOPS = ["+", "-", "*", "/", "//", "%", "**", "&", "|", "^", "<<", ">>"]
CMPS = ["==", "!=", "<", "<=", ">", ">="]


def grid_forms():
    forms = []
    for a in VALUES:
        forms += [f"-{a}", f"+{a}", f"not {a}", f"len({a})", f"abs({a})", f"int({a})", f"float({a})", f"str({a})", f"bool({a})",
                  f"f'v={{{a}}}'", f"[{a}, 1]", f"({a},)", f"len([{a}, {a}])"]
        for b in VALUES:
            forms += [f"{a} {o} {b}" for o in BINOPS if not (o in ("**", "<<") and b in ("-7",))]
            forms += [f"{a} {o} {b}" for o in CMPS]
            forms += [f"{a} and {b}", f"{a} or {b}", f"max({a}, {b})", f"min({a}, {b})", f"{a} if {b} else 9", f"0 <= {a} < {b}"]
    forms += ["x + 1", "x * y", "len(s)", "s + 'z'", "f'{x}-{s}'", "x if y > 2 else s", "max(x, y, 2)", "not x", "-y", "x < y <= 9",
              "len(lst)", "z + 1", "q"]
    return forms


ENV = {"x": 4, "y": 2.5, "s": "hey", "lst": [1, 2, 3]}


def f1_obligations(P, out):
    t0 = time.time()
    safe = {"len": len, "abs": abs, "max": max, "min": min, "int": int, "float": float, "str": str, "bool": bool}
    bad, n, both_raise, values = [], 0, 0, 0
    for src in grid_forms():
        n += 1
        try:
            want = eval(src, {"__builtins__": {}}, dict(safe, **ENV))
            want_exc = None
        except Exception as ex:
            want, want_exc = None, type(ex).__name__
        try:
            got = P._eval_const(src, dict(ENV))
            got_exc = None
        except Exception as ex:
            got, got_exc = None, type(ex).__name__
        if got_exc is not None:
            both_raise += 1 if want_exc else 0
            continue                      # refusing to fold is always allowed
        values += 1
        if want_exc is not None:
            bad.append({"expr": src, "python": f"raises {want_exc}", "evaluator": repr(got)})
        elif type(got) is not type(want) or got != want:
            bad.append({"expr": src, "python": repr(want), "evaluator": repr(got)})
    out.append({"name": "C03/F1/evaluator-equals-cpython-on-grid", "status": "discharged" if not bad else "sat", "backend": "enum",
                "where": f"{n} expression forms: wherever _eval_const returns a value ({values} forms) it is CPython's value and type",
                "time": round(time.time() - t0, 3), "replay": {"mismatches": bad[:6]}, "replay_confirmed": bool(bad)})
    _S["f1"] = {"forms": n, "folded": values}


def f3_obligations(P, out):
    t0 = time.time()
    templates = ["{0} + 1", "1 + {0}", "-{0}", "not {0}", "{0} < 2", "1 < {0} < 3", "1 < 2 < {0}", "{0} and 1", "1 or {0}", "{0} if 1 else 2",
                 "1 if {0} else 2", "1 if 0 else {0}", "len({0})", "max(1, {0})", "f'{{{0}}}'", "[{0}]", "[1, {0}]", "({0}, 1)", "abs(-{0})",
                 "int({0})", "[i for i in {0}]", "{0}[0]", "[1, 2][{0}]", "{0}.attr", "fn({0})", "fn(k={0})", "{{1: {0}}}", "{{{0}: 1}}",
                 "lambda a={0}: a", "(1, (2, ({0},)))"]
    atoms = ["nm", "1", "'s'", "len", "int", "abs"]
    bad, n = [], 0
    safe = getattr(P, "_SAFE_NAME_REFERENCES", set())
    for t in templates:
        for a in atoms:
            src = t.format(a)
            try:
                node = ast.parse(src, mode="eval").body
            except SyntaxError:
                continue
            n += 1
            want = any(isinstance(x, ast.Name) and x.id not in safe for x in ast.walk(node))
            got = P._expr_has_name(node)
            if bool(got) != want:
                bad.append({"expr": src, "expected": want, "got": got})
    out.append({"name": "C03/F3/expr-has-name-is-exact", "status": "discharged" if not bad else "sat", "backend": "enum",
                "where": f"_expr_has_name agrees with 'some Name outside the safe set occurs' on {n} forms (a name at every child position)",
                "time": round(time.time() - t0, 3), "replay": {"mismatches": bad[:6]}, "replay_confirmed": bool(bad)})


def f2_static(out):
    """every resolver closure folds only under `not _expr_has_name(..)`"""
    mod = Mod(PARSER)
    for qual, fn in functions_of(mod.tree):
        short = qual.split(".")[-1]
        if not (short.startswith("_resolve_") and any(isinstance(n, ast.Call) and unparse(n.func) == "_eval_const" for n in ast.walk(fn))):
            continue
        pm = parent_map(fn)
        problems = []
        for n in ast.walk(fn):
            if isinstance(n, ast.Call) and unparse(n.func) == "_eval_const":
                cur, guarded = n, False
                while id(cur) in pm:
                    cur = pm[id(cur)]
                    if isinstance(cur, ast.If) and "not _expr_has_name(" in unparse(cur.test) and any(
                            n is d for s in cur.body for d in ast.walk(s)):
                        guarded = True
                        break
                if not guarded:
                    problems.append({"line": n.lineno, "what": "_eval_const reached without the `not _expr_has_name(...)` guard"})
        out.append({"name": f"C03/F2-guard/{short}", "status": "discharged" if not problems else "sat", "backend": "static",
                    "where": "the resolver folds an argument only when it mentions no name", "time": 0.0, "replay": {"problems": problems},
                    "structural": True})


def f2_behaviour(P, out):
    """an argument routed through a variable with a known value stays a run-time expression, for every device parameter"""
    from contracts import c08
    import dataclasses
    import inspect
    t0 = time.time()
    bad, n = [], 0
    for cls, meth, sig, kind in c08.host_callables():
        if kind not in ("stmt", "ctor") or cls == "Core":
            continue
        skip = c08.HOST_ONLY_PARAMS.get((cls, meth), set())
        params = [p for p in sig.parameters.values() if p.name not in skip]
        decl = "" if kind == "ctor" else c08.DEVICES[cls] + "\n"
        for idx, p in enumerate(params):
            if (cls, meth, p.name) in c08.LITERAL_PROBES or p.name in ("pin", "trig", "echo", "red_pin", "green_pin", "blue_pin", "in1", "in2", "enable",
                                                                       "rs", "en", "d4", "d5", "d6", "d7", "rw", "backlight_pin", "i2c_addr", "cols", "rows"):
                continue            # literal-only parameters and pin/geometry configuration (folded by design from constants)
            args = []
            for j, q in enumerate(params):
                if q.default is not inspect._empty and q is not p:
                    continue
                val = "vz" if q is p else c08.probe(cls, meth, q.name, j)[0].replace("zq", "7").replace("v", "") if False else None
                if q is p:
                    args.append(f"{q.name}=vz" if q.kind == q.KEYWORD_ONLY else (f"{q.name}=vz"))
                else:
                    lit = c08.LITERAL_PROBES.get((cls, meth, q.name))
                    args.append(f"{q.name}={lit[0] if lit else str(3 + j)}")
            call = f"dev = {cls}({', '.join(args)})" if kind == "ctor" else f"dev.{meth}({', '.join(args)})"
            src = c08.PRELUDE + decl + "vz = 5\n" + call + "\n"
            try:
                prog = P.parse(src)
            except (ValueError, SyntaxError):
                continue
            n += 1
            nodes = [x for x in list(prog.setup_body) if dataclasses.is_dataclass(x)]
            fname = c08.FIELD_OF.get((cls, meth, p.name), p.name)
            target = [x for x in nodes if hasattr(x, fname) and type(x).__name__ not in ("VarDecl", "VarAssign")]
            if not target:
                continue
            val = getattr(target[-1], fname)
            if not (isinstance(val, str) and "vz" in val):
                bad.append({"call": call, "field": fname, "ir_value": repr(val)})
    out.append({"name": "C03/F2/variable-arguments-are-not-folded", "status": "discharged" if not bad else "sat", "backend": "enum",
                "where": f"for {n} (callable, parameter) pairs: `vz = 5; call(..., p=vz)` keeps `vz` in the IR (no transpile-time value is baked)",
                "time": round(time.time() - t0, 3), "replay": {"folded": bad[:6]}, "replay_confirmed": bool(bad)})


# ---------------------------------------------------------------------------- F4 probes: CPython differential
HEAD = "from Reduino.Communication import SerialMonitor\nfrom Reduino.Actuators import Led\nmon = SerialMonitor(9600)\n"
F4_PROBES = {
    "straight-line": HEAD + "s = 'ab'\nmon.write(len(s))\ns = 'abcd'\nmon.write(len(s))\n",
    "if-taken": HEAD + "c = 1\ns = 'ab'\nif c:\n    s = 'abcd'\nmon.write(len(s))\n",
    "if-not-taken": HEAD + "c = 0\ns = 'ab'\nif c:\n    s = 'abcd'\nmon.write(len(s))\n",
    "else-branch": HEAD + "c = 0\ns = 'ab'\nif c:\n    s = 'abc'\nelse:\n    s = 'abcde'\nmon.write(len(s))\n",
    "while-loop": HEAD + "n = 0\ns = 'a'\nwhile n < 2:\n    s = s + 'b'\n    n = n + 1\nmon.write(len(s))\n",
    "for-loop": HEAD + "s = 'a'\nfor i in range(3):\n    s = s + 'c'\nmon.write(len(s))\n",
    "try-block": HEAD + "s = 'ab'\ntry:\n    s = 'abcd'\nexcept Exception:\n    s = 'x'\nmon.write(len(s))\n",
    "list-append-literal": HEAD + "xs = [1, 2]\nxs.append(3)\nmon.write(len(xs))\n",
    "list-append-runtime": HEAD + "k = 4\nxs = [1, 2]\nxs.append(k + 1)\nmon.write(len(xs))\nxs.append(7)\nmon.write(len(xs))\n",
    "list-append-in-branch": HEAD + "c = 1\nxs = [1, 2]\nif c:\n    xs.append(3)\nmon.write(len(xs))\n",
    "list-append-in-loop": HEAD + "xs = [1]\nfor i in range(3):\n    xs.append(i)\nmon.write(len(xs))\n",
    "list-remove": HEAD + "xs = [1, 2, 3]\nxs.remove(2)\nmon.write(len(xs))\n",
    "param-shadows-global": HEAD + "msg = 'hello'\ndef width(msg):\n    return len(msg)\nmon.write(width('hi'))\n",
    "global-reassigned-before-call": HEAD + "msg = 'ab'\ndef width():\n    return len(msg)\nmsg = 'abcd'\nmon.write(width())\n",
    "list-append-sensor": HEAD + "from Reduino.Sensors import Potentiometer\npot = Potentiometer('A0')\nxs = [1, 0, 1]\nxs.append(pot.read())\n"
                          "mon.write(len(xs))\nxs.append(2)\nmon.write(len(xs))\nxs.remove(1)\nmon.write(len(xs))\n",
    "param-list-shadows-global": HEAD + "pat = [1, 0, 1, 1]\ndef count(pat):\n    return len(pat)\nmon.write(count([5]))\n",
    "numeric-after-branch": HEAD + "c = 1\nd = 10\nif c:\n    d = 20\nled = Led(13)\nled.set_brightness(d)\nmon.write(d)\n",
}


def run_cpython(src):
    """the script under CPython with the host modules; SerialMonitor.write is recorded"""
    from contracts.c08 import real
    real("Reduino")
    import importlib
    SM = importlib.import_module("Reduino.Communication.SerialMonitor")
    import sys as _sys
    SM = _sys.modules["Reduino.Communication.SerialMonitor"]
    rec = []
    orig = SM.SerialMonitor.write
    SM.SerialMonitor.write = lambda self, value: rec.append(value) or str(value)
    try:
        exec(compile(src, "<probe>", "exec"), {"__name__": "__probe__"})
    finally:
        SM.SerialMonitor.write = orig
    return rec


def f4_obligations(P, E, out):
    for name, src in F4_PROBES.items():
        t0 = time.time()
        try:
            want = run_cpython(src)
            cpp = E.emit(P.parse(src))
        except Exception as ex:
            out.append({"name": f"C03/F4/{name}", "status": "sat", "backend": "bounded-native", "where": "probe runs", "time": 0.0, "bounded": True,
                        "replay": {"error": f"{type(ex).__name__}: {ex}", "script": src}, "replay_confirmed": True})
            continue
        setup = cpp[cpp.index("void setup()"):cpp.index("void loop()")]
        prints = re.findall(r"^  Serial\.println\((.*)\);$", setup, re.M)
        problems = []
        if len(prints) != len(want):
            problems.append(f"{len(prints)} top-level prints in setup(), CPython wrote {len(want)} values")
        for k, (arg, w) in enumerate(zip(prints, want)):
            lit = arg.strip()
            if re.fullmatch(r"-?\d+", lit) and isinstance(w, int) and int(lit) != w:
                problems.append(f"write #{k + 1}: firmware bakes {lit}, CPython computes {w}")
        # integer literals baked into `return` statements of helper functions must be values CPython actually computes
        try:
            prog = P.parse(src)
            for fn in getattr(prog, "functions", []):
                for node in getattr(fn, "body", []):
                    if type(node).__name__ == "ReturnStmt" and isinstance(getattr(node, "expr", None), str) and re.fullmatch(r"-?\d+", node.expr.strip()):
                        if int(node.expr) not in [w for w in want if isinstance(w, int)]:
                            problems.append(f"helper {fn.name}() returns the baked constant {node.expr}; CPython computes {want}")
        except Exception:
            pass
        out.append({"name": f"C03/F4/{name}", "status": "discharged" if not problems else "sat", "backend": "bounded-native",
                    "where": f"probe '{name}': every integer baked into a top-level print equals the value CPython computes there",
                    "time": round(time.time() - t0, 3), "bounded": True,
                    "replay": {"script": src, "problems": problems, "firmware_prints": prints, "cpython": [repr(x) for x in want]},
                    "replay_confirmed": bool(problems)})
    PROPERTY["bounded"] = [{"check": "F4 CPython differential", "bound": f"{len(F4_PROBES)} probe scripts (scope constructs x consumers)"}]


# F5: environment-sensitive scripts executed end to end (CPython vs firmware mock): a value the transpiler derives from its
#     constant environment (folded lengths, global initialisers, glyph rows) must be the value the program has at that point
F5_SCRIPTS = {
    "helper-binds-a-module-string-only-in-branches": "msg = 'abc'\ndef show(v):\n    if v > 1:\n        msg = 'hello'\n    else:\n        msg = 'no'\n    mon.write(len(msg))\n    return len(msg) + 1\nmon.write(show(3))\nmon.write(show(0))\nmon.write(len(msg))\nmon.write(msg)\n",
    "helper-binds-a-module-number-only-in-a-loop": "n = 3\ndef last(k):\n    for i in range(k):\n        n = i * 10\n    return n + 1\nmon.write(last(4))\nmon.write(n + 1)\ndef deep(k):\n    while k > 0:\n        if k == 1:\n            n = 77\n        k = k - 1\n    return n * 2\nmon.write(deep(2))\nmon.write(n * 2)\n",
    "list-remove-drops-only-the-first-occurrence": "from Reduino.Actuators import Led\nled = Led(9)\nseq = [1, 0, 1, 0]\nseq.remove(1)\nmon.write(len(seq))\nled.flash_pattern(seq, 7)\nmon.write(seq[0] + seq[1] * 2 + seq[2] * 4)\n",
    "swap-then-len": "a = 'xx'\nb = 'yyyy'\na, b = b, a\nmon.write(len(a))\nmon.write(len(b))\n",
    "rotation-then-len": "a = 'x'\nb = 'yy'\nc = 'zzz'\na, b, c = c, a, b\nmon.write(len(a))\nmon.write(len(b))\nmon.write(len(c))\n",
    "swap-numbers-then-derived": "a = 2\nb = 4\na, b = b, a\nc = a * 10 + b\nmon.write(c)\nmon.write(a)\nmon.write(b)\n",
    "tuple-reads-earlier-target": "a = 1\nb = 2\na, b = a + b, a\nmon.write(a)\nmon.write(b)\nd = a + b\nmon.write(d)\n",
    "global-derived-after-reassignment": "x = 2\nx = 5\ny = x + 1\nmon.write(y)\n",
    "global-derived-after-branch-reassignment": "x = 2\nc = 1\nif c > 0:\n    x = 7\ny = x + 1\nmon.write(y)\n",
    "global-derived-after-loop-reassignment": "x = 1\nfor i in range(3):\n    x = x * 2\ny = x + 1\nmon.write(y)\n",
    "global-derived-after-swap": "p = 3\nq = 9\np, q = q, p\nr = p - q\nmon.write(r)\n",
    "string-derived-after-reassignment": "s = 'ab'\ns = 'abcdef'\nt = s + '!'\nmon.write(t)\n",
    "later-branch-reads-name-rebound-in-earlier-branch": "label = 'ab'\nk = 0\nwhile True:\n    if k % 2 == 0:\n        mon.write('even')\n    elif k == 99:\n        label = 'abcd'\n        mon.write(len(label))\n    else:\n        mon.write(len(label))\n    k = k + 1\n    sleep(1)\n",
    "else-branch-reads-list-rebound-in-if-branch": "pat = [1, 0, 0]\nc = 0\nif c > 0:\n    pat = [1, 1, 1, 1]\n    mon.write(len(pat))\nelse:\n    mon.write(len(pat))\n",
    "folded-chained-comparison": "mon.write(100 if 1 < 5 < 3 else 200)\nmon.write(0 <= 300 <= 255)\nsleep(100 if 10 > 4 > 7 else 20)\n",
    "augmented-string-in-for-then-len": "s = 'ab'\nfor i in range(3):\n    s += 'c'\nk = len(s)\nmon.write(k)\n",
    "augmented-int-in-while-then-derived": "total = 3\nj = 0\nwhile j < 3:\n    total *= 2\n    j += 1\nout = total + 1\nmon.write(out)\n",
    "augmented-in-main-loop-then-len": "msg = 'a'\nwhile True:\n    msg += 'b'\n    mon.write(len(msg))\n    sleep(1)\n",
    "two-identical-list-literals": "on_pat = [1, 0]\noff_pat = [1, 0]\non_pat.append(1)\nmon.write(len(off_pat))\nmon.write(len(on_pat))\n",
    "range-len-evaluated-once-with-append-in-body": "xs = [1, 2, 3]\nn = 0\nfor i in range(len(xs)):\n    xs.append(i)\n    n = n + 1\nmon.write(n)\n",
    "flash-pattern-folded-from-named-list-then-mutated": "from Reduino.Actuators import Led\nled = Led(9)\nxs = [1, 0, 1]\nled.flash_pattern(xs, 10)\nxs.append(0)\nxs.append(1)\nmon.write('done')\n",
    "parameter-shadows-global-constant": "label = 'hello'\ndef width(label):\n    return len(label)\nw = width('hi')\nmon.write(w)\n",
    "derived-in-main-loop": "x = 1\nwhile True:\n    y = x + 1\n    mon.write(y)\n    x = x + 2\n    sleep(1)\n",
    "helper-local-named-like-a-module-constant": "label = 'ab'\nn = 3\ndef f():\n    label = 'abcdefg'\n    n = 50\n    return len(label) + n\nmon.write(len(label))\nsleep(len(label) * 100 + n)\nmon.write(f())\nmon.write(len(label) + n)\ndef g(x):\n    label = 'zzz'\n    return x\nh = 1.5\ng(1)\ng(h)\nmon.write(len(label))\n",
    "len-of-non-ascii-literals": "mon.write(len('héllo'))\ns = 'héllo'\nmon.write(len(s))\nif len('µs') == 2:\n    mon.write('two')\nelse:\n    mon.write('not two')\nmon.write(len('größe') + len('€'))\nsleep(len('°°°'))\n",
    "restore-to-entry-constant-then-change-later-in-pass": "v = 1\nwhile True:\n    v = 1\n    sleep(v)\n    mon.write(v)\n    v = 7\n    mon.write(v)\n",
    "restore-constant-after-taken-branch": "v = 2\nc = 1\nif c > 0:\n    v = 9\nmon.write(v)\nv = 2\nmon.write(v)\n",
    "restore-constant-between-def-and-call": "lim = 3\ndef cap(x):\n    if x > lim:\n        return lim\n    return x\nlim = 8\nmon.write(cap(6))\nlim = 3\nmon.write(cap(6))\n",
    "reset-counter-inside-for": "t = 0\nfor i in range(3):\n    t = 0\n    t = t + i\n    mon.write(t)\nt = 0\nmon.write(t)\n",
}


def f5_obligations(out):
    import multiprocessing as mp
    from progs.diff import _one
    from progs.corpus import HEAD
    t0 = time.time()
    with mp.Pool(10) as pool:
        res = pool.map(_one, [(n, HEAD + s, 3) for n, s in sorted(F5_SCRIPTS.items())], chunksize=1)
    per = round((time.time() - t0) / max(1, len(res)), 3)
    for r in res:
        v = r["verdict"]
        ok = v in ("same", "rejected", "python-undefined")
        status = "discharged" if ok else ("unknown" if v.startswith("harness") else "sat")
        out.append({"name": f"C03/F5/{r['name']}", "status": status, "backend": "bounded-differential", "bounded": True,
                    "where": f"script '{r['name']}': values derived from the constant environment equal CPython's at that point [{v}]", "time": per,
                    "replay": {"script": HEAD + F5_SCRIPTS[r["name"]], "first_difference": r.get("first_difference"), "detail": r.get("detail")},
                    "replay_confirmed": status == "sat"})


# F6: device arguments that name a variable changed in a nested body are run-time values (executed next to the real host class), and
#     F7: a constant expression that folds to a falsy value (0, 0.0, 250 - 250, False) is still an argument, not an omitted one
F6_SCRIPTS = {
    "motor-speed-accumulated-in-for": "m = DCMotor(5, 6, 9)\nspeed = 0.25\nfor i in range(2):\n    speed = speed + 0.25\nm.set_speed(speed)\nmon.write('a')\n",
    "motor-speed-changed-in-main-loop": "m = DCMotor(5, 6, 9)\nb = 0.125\nwhile True:\n    b += 0.125\n    m.set_speed(b)\n    mon.write('p')\n    sleep(5)\n",
    "motor-backward-after-branch": "m = DCMotor(5, 6, 9)\nv = 0.5\nc = 1\nif c > 0:\n    v = 0.75\nm.backward(v)\nmon.write('a')\n",
    "servo-angle-changed-in-while": "s = Servo(9)\nangle = 10\nk = 0\nwhile k < 3:\n    angle = angle + 20\n    k = k + 1\ns.write(angle)\nmon.write('a')\n",
    "flash-pattern-with-equal-neighbours": "led = Led(9)\nled.flash_pattern([1, 1, 0, 0, 0, 1], 10)\nmon.write('a')\npat = [0, 0, 1, 1]\nled.flash_pattern(pat, 7)\nmon.write('b')\nled.flash_pattern([1, 1, 1], 5)\nmon.write('c')\n",
    "led-brightness-changed-in-for": "led = Led(9)\nlevel = 10\nfor i in range(3):\n    level = level + 40\nled.set_brightness(level)\nmon.write('a')\n",
    "motor-ramp-target-changed-in-for": "m = DCMotor(5, 6, 9)\nt = 0.25\nfor i in range(2):\n    t = t + 0.25\nm.ramp(t, 40, 4)\nmon.write('a')\n",
}


def f6_obligations(out):
    from progs import devdiff
    res = devdiff.run({k: devdiff.IMPORTS + v for k, v in F6_SCRIPTS.items()})
    for r in res:
        v = r["verdict"]
        ok = v in ("same", "rejected", "python-undefined")
        out.append({"name": f"C03/F6/{r['name']}", "status": "discharged" if ok else ("unknown" if v.startswith("harness") else "sat"), "backend": "bounded-differential", "bounded": True,
                    "where": f"script '{r['name']}': a device argument naming a variable that was changed in a nested body has the variable's run-time value (pin/delay trace = the host class's) [{v}]",
                    "time": 0.3, "replay": {"script": r.get("script"), "first_difference": r.get("first_difference"), "detail": r.get("detail")}, "replay_confirmed": not ok and not v.startswith("harness")})


# the host Buzzer does not sleep, so its scripts are judged against the values Python computes (stated here) instead of the host trace
F6_BUZZER = {
    "buzzer-frequency-changed-in-branch": ("bz = Buzzer(8)\nf = 440\nc = 1\nif c > 0:\n    f = 880\nbz.play_tone(f, 20)\nmon.write('a')\n", ["T:8:880", "D:20"], ["T:8:440"]),
    "buzzer-duration-changed-in-loop": ("bz = Buzzer(8)\nd = 10\nwhile True:\n    d = d + 10\n    bz.play_tone(440, d)\n    mon.write('p')\n    sleep(5)\n", ["D:20", "D:5", "D:30", "D:5"], ["D:10"]),
    "buzzer-frequency-accumulated-in-for": ("bz = Buzzer(8)\nf = 100\nfor i in range(3):\n    f = f + 100\nbz.play_tone(f)\nmon.write('a')\n", ["T:8:400"], ["T:8:100"]),
}


def f6_buzzer_obligations(out):
    from progs import devdiff
    from progs.diff import transpile
    from fwsim.run import run_sketch
    for name, (body, want, never) in F6_BUZZER.items():
        src = devdiff.IMPORTS + body
        cpp, err = transpile(src)
        prob = None
        if cpp is not None:
            r = run_sketch(cpp, passes=2)
            if not r.get("compiled"):
                prob = "does not compile: " + r.get("errors", "")[-200:]
            else:
                ev = [e for e in r["events"] if e[:2] in ("T:", "D:")]
                k = 0
                for e in ev:
                    if k < len(want) and e == want[k]:
                        k += 1
                if k < len(want):
                    prob = f"expected the events {want} in this order, firmware produced {ev[:10]}"
                elif any(e in never for e in ev):
                    prob = f"firmware produced {[e for e in ev if e in never]} (the variable's initial value)"
        out.append({"name": f"C03/F6/{name}", "status": "discharged" if not prob else "sat", "backend": "enum+fwsim", "bounded": True,
                    "where": f"script '{name}': a buzzer argument naming a variable that was changed in a nested body has the variable's run-time value", "time": 0.3,
                    "replay": {"script": src, "problem": prob}, "replay_confirmed": bool(prob)})


def f8_obligations(out):
    """F8: LCD power commands (display / backlight / brightness) with a literal flag or level against the same value in a variable:
    a walk over every ordered pair of the seven commands, the backlight pin level after each command is the same in both sketches"""
    import itertools
    from progs import devdiff
    from progs.diff import transpile
    from fwsim.run import run_sketch
    t0 = time.time()
    CMDS = [("display", True), ("display", False), ("backlight", True), ("backlight", False), ("brightness", 0), ("brightness", 128), ("brightness", 255)]
    seq = [c for a, b in itertools.product(CMDS, CMDS) for c in (a, b)]
    levels, prob = {}, None
    for form in ("literal", "variable"):
        lines = ["d = LCD(rs=22, en=23, d4=24, d5=25, d6=26, d7=27, backlight_pin=10)"]
        for k, (m, v) in enumerate(seq):
            var = ("fb" if isinstance(v, bool) else "fi") + str(k % 2)
            lines += ([f"d.{m}({v})"] if form == "literal" else [f"{var} = {v}", f"d.{m}({var})"]) + [f"mon.write('m{k}')"]
        src = devdiff.IMPORTS + "\n".join(lines) + "\n"
        cpp, err = transpile(src)
        if cpp is None:
            prob = f"{form} form rejected: {err}"
            break
        r = run_sketch(cpp, passes=0)
        if not r.get("compiled"):
            prob = f"{form} form does not compile: " + r.get("errors", "")[-200:]
            break
        level, seen = None, []
        for e in r["events"]:
            if e.startswith("W:10:"):
                level = int(e.split(":")[2])
            elif e.startswith("S:m"):
                seen.append(level)
        levels[form] = seen
    if prob is None:
        a, b = levels["literal"], levels["variable"]
        if len(a) != len(seq) or len(b) != len(seq):
            prob = f"markers reached: literal {len(a)}, variable {len(b)} of {len(seq)}"
        else:
            for k in range(len(seq)):
                if a[k] != b[k]:
                    prob = (f"after command #{k} {seq[k][0]}({seq[k][1]}) (preceded by {seq[k - 1][0]}({seq[k - 1][1]})): backlight pin at {a[k]} with literal arguments, "
                            f"{b[k]} with the same values in variables")
                    break
    out.append({"name": "C03/F8/lcd-power-commands-literal-vs-variable", "status": "discharged" if not prob else ("unknown" if prob.startswith("markers") else "sat"), "backend": "enum+fwsim", "bounded": True,
                "where": f"{len(seq)} display/backlight/brightness commands (every ordered pair): backlight pin level after each command, literal flag/level vs the same value in a variable",
                "time": round(time.time() - t0, 2), "replay": {"problem": prob}, "replay_confirmed": bool(prob) and not prob.startswith("markers")})


def f9_obligations(out):
    """F9: glyph bitmaps are folded at transpile time: the rows uploaded by the firmware equal what the host LCD.glyph() stores for the same
    literal (rows with every bit of the 5-bit cell, out-of-range and negative values) - the glyph scripts of C17, judged here as folding"""
    import sys as _sys
    import contracts.c17 as c17
    from contracts.c08 import real
    real("Reduino.Displays")
    HostLCD = _sys.modules["Reduino.Displays.LCD"].LCD
    for o in c17.backlight_and_glyph_obligations(HostLCD):
        if "glyph" in o["name"]:
            o = dict(o, name=o["name"].replace("C17/", "C03/F9/", 1))
            out.append(o)


def f7_obligations(P, out):
    import multiprocessing as mp
    import re as _re
    import contracts.c08 as c8
    del c8.LITVAR_JOBS[:]
    c8.spacing_and_literal_obligations(P)
    jobs = []
    for name, a, b in c8.LITVAR_JOBS:
        if not name.endswith("/zero"):
            continue
        for tag, lit in (("zero-difference", "250 - 250"), ("float-zero", "0.0"), ("product-with-zero", "0 * 7")):
            a2 = _re.sub(r"=0\)\n$", f"={lit})\n", a)
            b2 = b.replace("zzv = 0\n", f"zzv = {lit}\n")
            if a2 != a:
                jobs.append((f"{name[:-5]}/{tag}", a2, b2))
    # integer parameters given a fractional constant: folded like the run-time conversion (truncation)
    jobs += [j for j in c8.LITVAR_JOBS if "/fraction-" in j[0]]
    del c8.LITVAR_JOBS[:]
    t0 = time.time()
    with mp.Pool(16) as pool:
        res = pool.map(c8._litvar_one, jobs, chunksize=1)
    bad = [(n, v, d, a) for n, v, d, a, b in res if v not in ("same", "rejected")]
    out.append({"name": "C03/F7/constant-folding-to-a-falsy-value-is-still-an-argument", "status": "discharged" if not bad else "sat", "backend": "enum+fwsim", "bounded": True,
                "where": f"{len(jobs)} (device method, numeric parameter, constant expression folding to zero / fractional constant for an integer parameter) cases: the firmware trace equals that of the same value in a variable",
                "time": round(time.time() - t0, 2), "replay": {"failing": [{"case": n, "verdict": v, "detail": d, "script": a[-160:]} for n, v, d, a in bad[:4]]}, "replay_confirmed": bool(bad)})


def extra_obligations(mods, tier, seed):
    from contracts.c08 import real
    P, E = real("Reduino.transpile.parser"), real("Reduino.transpile.emitter")
    out = []
    f1_obligations(P, out)
    f3_obligations(P, out)
    f2_static(out)
    f2_behaviour(P, out)
    f4_obligations(P, E, out)
    f5_obligations(out)
    f6_obligations(out)
    f6_buzzer_obligations(out)
    f7_obligations(P, out)
    f8_obligations(out)
    f9_obligations(out)
    return out


_S = {}


def extra_evidence():
    return {"evaluator_grid": _S.get("f1"), "f4_probes": sorted(F4_PROBES), "bounded": PROPERTY.get("bounded", [])}
