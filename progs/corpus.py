"""Script corpus of the bounded differential (C01 L2, reused by C02/C05/C06): one script per statement kind / combination
of the documented subset.  Every script observes through SerialMonitor.write and sleep only."""

HEAD = ("from Reduino.Communication import SerialMonitor\n"
        "from Reduino.Utils import sleep\n"
        "mon = SerialMonitor(9600)\n")


def S(body):
    return HEAD + body


CORPUS = {
    # ---- state across passes, assignment forms
    "counter-persists": S("n = 0\nwhile True:\n    n = n + 1\n    mon.write(n)\n    sleep(10)\n"),
    "setup-then-loop-order": S("mon.write('boot')\na = 3\nmon.write(a)\nwhile True:\n    mon.write('tick')\n    a = a + 2\n    mon.write(a)\n    sleep(5)\n"),
    "no-main-loop": S("a = 2\nb = a * 3\nmon.write(b)\nmon.write(a + b)\n"),
    "swap": S("a = 1\nb = 2\nwhile True:\n    a, b = b, a\n    mon.write(a)\n    mon.write(b)\n    sleep(1)\n"),
    "tuple-compound-rhs": S("a = 0\nb = 1\nwhile True:\n    a, b = b, a + b\n    mon.write(a)\n    sleep(10)\n"),
    "tuple-three-way": S("a = 1\nb = 2\nc = 3\nwhile True:\n    a, b, c = c, a + 1, b * 2\n    mon.write(a)\n    mon.write(b)\n    mon.write(c)\n    sleep(1)\n"),
    "augmented-int": S("n = 5\nwhile True:\n    n += 3\n    mon.write(n)\n    n -= 1\n    mon.write(n)\n    n *= 2\n    mon.write(n)\n    sleep(1)\n"),
    "augmented-float": S("x = 0.5\nwhile True:\n    x += 0.25\n    mon.write(x)\n    x *= 2\n    mon.write(x)\n    sleep(1)\n"),
    "float-accumulate": S("total = 0.0\nk = 0\nwhile True:\n    k = k + 1\n    total = total + k * 0.5\n    mon.write(total)\n    sleep(2)\n"),
    "first-assigned-in-branch": S("n = 0\nwhile True:\n    n = n + 1\n    if n > 1:\n        label = 'many'\n    else:\n        label = 'one'\n    mon.write(label)\n    sleep(1)\n"),
    # ---- expressions on run-time values
    "arith-nonneg": S("a = 7\nb = 2\nwhile True:\n    mon.write(a + b)\n    mon.write(a - b)\n    mon.write(a * b)\n    mon.write(a // b)\n    mon.write(a % b)\n    a = a + 3\n    sleep(1)\n"),
    "true-division": S("a = 7\nb = 2\nwhile True:\n    mon.write(a / b)\n    q = a / b\n    mon.write(q * 2)\n    a = a + 1\n    sleep(1)\n"),
    "floor-div-negative": S("a = -7\nwhile True:\n    mon.write(a // 2)\n    mon.write(a % 3)\n    a = a + 3\n    sleep(10)\n"),
    "comparisons-and-bool": S("a = 1\nb = 3\nwhile True:\n    mon.write(a < b)\n    mon.write(a == b)\n    mon.write(a < b and b < 5)\n    mon.write(a > b or b >= 3)\n    mon.write(not a < b)\n    mon.write(0 < a < b)\n    a = a + 1\n    sleep(1)\n"),
    "conditional-expression": S("n = 0\nwhile True:\n    n = n + 1\n    mon.write(n if n % 2 == 0 else -n)\n    big = 10 if n > 2 else 1\n    mon.write(big)\n    sleep(1)\n"),
    "builtins": S("a = -4\nx = 2.75\nwhile True:\n    mon.write(abs(a))\n    mon.write(max(a, 2))\n    mon.write(min(a, 2))\n    mon.write(int(x))\n    mon.write(float(a))\n    mon.write(abs(x - 3))\n    a = a + 3\n    x = x + 0.5\n    sleep(1)\n"),
    "max-of-int-and-float": S("a = -4\nx = 2.75\nwhile True:\n    mon.write(max(x, a))\n    mon.write(min(x, a))\n    a = a + 5\n    sleep(1)\n"),
    "helper-called-with-int-and-float-variables": S("def dbl(v):\n    return v * 2\nn = 3\nf = 1.5\nwhile True:\n    a = dbl(n)\n    b = dbl(f)\n    mon.write(a)\n    mon.write(b)\n    n = n + 1\n    sleep(1)\n"),
    "helper-int-float-int-call-order": S("def scale(v, k):\n    r = v * k\n    return r\nsteps = scale(3, 2)\nmon.write(steps)\ngain = 2.5\nlevel = scale(gain, 3)\nmon.write(level)\nn = 0\n"
                                         "while True:\n    n += 1\n    mon.write(f'n={n} s={scale(n, 4)}')\n    s2 = scale(n, 5)\n    mon.write(s2)\n    sleep(scale(n, 10))\n"),
    "min-max-three": S("a = 5\nb = 2\nc = 9\nwhile True:\n    mon.write(max(a, b, c))\n    mon.write(min(a, b, c))\n    a = a + 3\n    b = b + 5\n    sleep(1)\n"),
    "strings": S("name = 'ab'\nn = 1\nwhile True:\n    mon.write(name + '!')\n    mon.write('n=' + str(n))\n    mon.write(f'{name}:{n}')\n    name = name + 'c'\n    n = n + 1\n    sleep(1)\n"),
    "len-of-growing-string": S("name = 'ab'\nwhile True:\n    mon.write(len(name))\n    name = name + 'c'\n    sleep(1)\n"),
    "len-of-fixed-string": S("name = 'abc'\nk = 0\nwhile True:\n    mon.write(len(name) + k)\n    k = k + 1\n    sleep(1)\n"),
    "fstring-mixed": S("t = 21.5\nk = 3\nwhile True:\n    mon.write(f'temp {t} step {k}')\n    mon.write(f'{k + 1} next')\n    t = t + 0.5\n    k = k + 1\n    sleep(1)\n"),
    "int-of-string": S("s = '42'\nwhile True:\n    mon.write(int(s) + 1)\n    mon.write(float(s) / 4)\n    sleep(1)\n"),
    "precedence": S("a = 2\nb = 3\nc = 4\nwhile True:\n    mon.write(a + b * c)\n    mon.write((a + b) * c)\n    mon.write(a - b - c)\n    mon.write(a - (b - c))\n    mon.write(-a * b)\n    mon.write(a * -b + c)\n    a = a + 1\n    sleep(1)\n"),
    # ---- control flow
    "if-elif-else": S("level = -2\nwhile True:\n    if level < 0:\n        mon.write('neg')\n    elif level < 2:\n        mon.write('small')\n    else:\n        mon.write('big')\n    level = level + 1\n    sleep(5)\n"),
    "if-elif-pass-branch": S("level = -2\nwhile True:\n    if level < 0:\n        pass\n    elif level < 2:\n        mon.write('small')\n    else:\n        mon.write('big')\n    level = level + 1\n    sleep(5)\n"),
    "if-without-else": S("n = 0\nwhile True:\n    n = n + 1\n    if n % 2 == 0:\n        mon.write('even')\n    mon.write(n)\n    sleep(1)\n"),
    "nested-if": S("a = 0\nwhile True:\n    a = a + 1\n    if a > 1:\n        if a > 2:\n            mon.write('gt2')\n        else:\n            mon.write('eq2')\n    else:\n        mon.write('le1')\n    sleep(1)\n"),
    "while-inner": S("n = 0\nwhile True:\n    k = 0\n    while k < n:\n        mon.write(k)\n        k = k + 1\n    n = n + 1\n    sleep(3)\n"),
    "while-break": S("n = 0\nwhile True:\n    k = 0\n    while k < 10:\n        if k > n:\n            break\n        mon.write(k)\n        k = k + 1\n    mon.write('done')\n    n = n + 1\n    sleep(3)\n"),
    "while-continue": S("while True:\n    k = 0\n    while k < 5:\n        k = k + 1\n        if k % 2 == 0:\n            continue\n        mon.write(k)\n    sleep(3)\n"),
    "for-range-one": S("while True:\n    for i in range(3):\n        mon.write(i)\n    sleep(1)\n"),
    "for-range-two": S("lo = 2\nwhile True:\n    for i in range(lo, lo + 3):\n        mon.write(i)\n    lo = lo + 1\n    sleep(1)\n"),
    "for-range-step": S("while True:\n    for i in range(0, 10, 4):\n        mon.write(i)\n    for j in range(5, 0, -2):\n        mon.write(j)\n    sleep(1)\n"),
    "for-range-empty": S("n = 0\nwhile True:\n    for i in range(n):\n        mon.write(i)\n    for j in range(3, n):\n        mon.write(j)\n    mon.write('end')\n    n = n + 2\n    sleep(1)\n"),
    "for-break": S("while True:\n    for i in range(6):\n        if i == 3:\n            break\n        mon.write(i)\n    mon.write('after')\n    sleep(1)\n"),
    "for-continue": S("while True:\n    for i in range(5):\n        if i % 2 == 1:\n            continue\n        mon.write(i)\n    sleep(1)\n"),
    "for-nested": S("while True:\n    for i in range(2):\n        for j in range(3):\n            mon.write(i * 10 + j)\n    sleep(1)\n"),
    "for-loop-variable-after": S("while True:\n    last = -1\n    for i in range(4):\n        last = i\n    mon.write(last)\n    sleep(1)\n"),
    "for-accumulate": S("while True:\n    total = 0\n    for i in range(1, 5):\n        total = total + i * i\n    mon.write(total)\n    sleep(1)\n"),
    "setup-for-loop": S("acc = 0\nfor i in range(4):\n    acc = acc + i\nmon.write(acc)\nwhile True:\n    acc = acc + 1\n    mon.write(acc)\n    sleep(1)\n"),
    "setup-if": S("mode = 2\nif mode == 1:\n    mon.write('one')\nelif mode == 2:\n    mon.write('two')\nelse:\n    mon.write('other')\nwhile True:\n    mon.write(mode)\n    sleep(1)\n"),
    # ---- helper functions
    "function-basic": S("def twice_of(v):\n    return v * 2\nn = 1\nwhile True:\n    n = twice_of(n)\n    mon.write(n)\n    sleep(1)\n"),
    "function-two-params": S("def area(w, h):\n    return w * h\na = 2\nwhile True:\n    r = area(a, a + 1)\n    mon.write(r)\n    a = a + 1\n    sleep(1)\n"),
    "function-branches": S("def sign(v):\n    if v < 0:\n        return -1\n    elif v == 0:\n        return 0\n    return 1\nx = -1\nwhile True:\n    s = sign(x)\n    mon.write(s)\n    x = x + 1\n    sleep(1)\n"),
    "function-void": S("def report(v):\n    mon.write('v')\n    mon.write(v)\nk = 0\nwhile True:\n    report(k)\n    k = k + 2\n    sleep(1)\n"),
    "function-calls-function": S("def inc(v):\n    return v + 1\ndef twice(v):\n    return inc(inc(v))\nn = 0\nwhile True:\n    n = twice(n)\n    mon.write(n)\n    sleep(1)\n"),
    "function-loop-inside": S("def total(n):\n    acc = 0\n    for i in range(n):\n        acc = acc + i\n    return acc\nk = 1\nwhile True:\n    t = total(k)\n    mon.write(t)\n    k = k + 1\n    sleep(1)\n"),
    "function-float": S("def half(v):\n    return v / 2\nx = 3\nwhile True:\n    h = half(x)\n    mon.write(h)\n    x = x + 1\n    sleep(1)\n"),
    "function-string": S("def tag(s, n):\n    return s + str(n)\nk = 0\nwhile True:\n    t = tag('k', k)\n    mon.write(t)\n    k = k + 1\n    sleep(1)\n"),
    "function-recursive": S("def fact(n):\n    if n <= 1:\n        return 1\n    return n * fact(n - 1)\nk = 1\nwhile True:\n    f = fact(k)\n    mon.write(f)\n    k = k + 1\n    sleep(1)\n"),
    "function-in-expression": S("def sq(v):\n    return v * v\nn = 1\nwhile True:\n    mon.write(sq(n) + sq(n + 1))\n    n = n + 1\n    sleep(1)\n"),
    "max-of-side-effecting-call": S("def noisy(v):\n    mon.write('call')\n    return v\nn = 1\nwhile True:\n    m = max(noisy(n), 2)\n    mon.write(m)\n    n = n + 2\n    sleep(1)\n"),
    "abs-of-side-effecting-call": S("def noisy(v):\n    mon.write('call')\n    return v\nn = -3\nwhile True:\n    m = abs(noisy(n))\n    mon.write(m)\n    n = n + 2\n    sleep(1)\n"),
    "function-defined-after-use-site": S("def a1(v):\n    return b1(v) + 1\ndef b1(v):\n    return v * 3\nn = 1\nwhile True:\n    r = a1(n)\n    mon.write(r)\n    n = n + 1\n    sleep(1)\n"),
    # ---- lists
    "list-index": S("xs = [3, 1, 4]\nk = 0\nwhile True:\n    mon.write(xs[k % 3])\n    mon.write(len(xs))\n    k = k + 1\n    sleep(1)\n"),
    "list-append": S("xs = [1]\nn = 2\nwhile True:\n    xs.append(n)\n    mon.write(xs[n - 1])\n    mon.write(xs[0])\n    n = n + 1\n    sleep(1)\n"),
    "len-after-append-in-loop": S("xs = [1]\nn = 2\nwhile True:\n    xs.append(n)\n    mon.write(len(xs))\n    n = n + 1\n    sleep(1)\n"),
    "list-remove": S("xs = [5, 6, 7, 8, 9, 10]\nwhile True:\n    xs.remove(xs[0])\n    mon.write(xs[0])\n    mon.write(xs[1])\n    sleep(1)\n"),
    "list-comprehension": S("while True:\n    sq = [i * i for i in range(4)]\n    mon.write(sq[3])\n    mon.write(len(sq))\n    sleep(1)\n"),
    "list-sum-loop": S("xs = [2, 4, 6]\nwhile True:\n    t = 0\n    for i in range(len(xs)):\n        t = t + xs[i]\n    mon.write(t)\n    xs[0] = t\n    sleep(1)\n"),
    "list-sum-fixed": S("xs = [2, 4, 6]\nk = 1\nwhile True:\n    t = 0\n    for i in range(3):\n        t = t + xs[i] * k\n    mon.write(t)\n    k = k + 1\n    sleep(1)\n"),
    "list-element-assign": S("xs = [1, 2, 3]\nk = 0\nwhile True:\n    xs[k % 3] = xs[k % 3] + 10\n    mon.write(xs[0])\n    mon.write(xs[1])\n    k = k + 1\n    sleep(1)\n"),
    "list-of-floats": S("ws = [0.5, 1.5]\nk = 1\nwhile True:\n    mon.write(ws[0] + ws[1] * k)\n    ws.append(ws[0] * 2)\n    mon.write(ws[k + 1])\n    k = k + 1\n    sleep(1)\n"),
    "list-of-strings": S("names = ['a', 'bb']\nk = 0\nwhile True:\n    mon.write(names[k % 2])\n    k = k + 1\n    sleep(1)\n"),
    "main-loop-continue": S("n = 0\nwhile True:\n    n = n + 1\n    if n % 2 == 0:\n        continue\n    mon.write(n)\n    sleep(1)\n"),
    "function-continue": S("def odd_sum(n):\n    t = 0\n    for i in range(n):\n        if i % 2 == 0:\n            continue\n        t = t + i\n    return t\nk = 3\nwhile True:\n    r = odd_sum(k)\n    mon.write(r)\n    k = k + 1\n    sleep(1)\n"),
    "global-derived-after-reassignment": S("period = 100\nperiod = 250\nhalf = period * 2 + 1\nmon.write(half)\nwhile True:\n    sleep(half)\n    mon.write(period)\n"),
    "global-derived-after-branch-and-loop": S("base = 3\nc = 1\nif c > 0:\n    base = 10\nlimit = base + 1\nfor i in range(2):\n    base = base * 2\ntop = base + limit\nmon.write(limit)\nmon.write(top)\nwhile True:\n    mon.write(top + limit)\n    sleep(1)\n"),
    "global-derived-chain": S("a = 1\na = 4\nb = a + 1\nb = b * 2\nc = a + b\nmon.write(c)\n"),
    "chained-comparison-runtime": S("lo = 2\nv = 0\nhi = 6\nwhile True:\n    if lo <= v < hi:\n        mon.write('in')\n    else:\n        mon.write('out')\n    k = 0\n    while 0 <= k < v:\n        k = k + 1\n    mon.write(k)\n    mon.write(1 < v <= 3)\n    v = v + 1\n    sleep(1)\n"),
    "first-assignment-from-side-effecting-call": S("def noisy(v):\n    mon.write('call')\n    return v + 1\ndef wrap(k):\n    inner = noisy(k)\n    return inner * 2\nn = 0\nwhile True:\n    got = noisy(n)\n    mon.write(got)\n"
                                                   "    for i in range(2):\n        step = noisy(i)\n        mon.write(step)\n    if n > 0:\n        late = noisy(n + 10)\n        mon.write(late)\n    w = wrap(n)\n    mon.write(w)\n    n = n + 1\n    sleep(1)\n"),
    "list-remove-duplicates": S("xs = [1, 2, 1, 3, 1]\nxs.remove(1)\nmon.write(xs[0])\nmon.write(xs[1])\nmon.write(xs[3])\n"),
    "nested-if-else-inside-if-without-else": S("n = 0\nwhile True:\n    n = n + 1\n    if n > 0:\n        fresh = n * 2\n        if n % 2 == 0:\n            mon.write('on')\n        else:\n            mon.write('off')\n        mon.write(fresh)\n    sleep(1)\n"),
    "nested-if-else-inside-elif-chain": S("n = 0\nwhile True:\n    n = n + 1\n    if n > 5:\n        mon.write('big')\n    elif n > 0:\n        tag = n + 100\n        if n % 2 == 0:\n            mon.write('e')\n        else:\n            mon.write('o')\n        mon.write(tag)\n    sleep(1)\n"),
    "identifiers-starting-with-from-and-import": S("from_level = 3\nimported = 1\ndef important_step(v):\n    mon.write('imp')\n    return v + 1\nwhile True:\n    from_level = from_level + 1\n    imported += 2\n    important_step(from_level)\n    mon.write(from_level + imported)\n    sleep(1)\n"),
    "two-swaps-in-one-block": S("a = 1\nb = 2\nc = 3\nd = 4\nwhile True:\n    a, b = b, a\n    c, d = d, c\n    a, c = c, a\n    mon.write(a)\n    mon.write(b)\n    mon.write(c)\n    mon.write(d)\n    sleep(1)\n"),
    "mutually-recursive-helpers": S("def even(n):\n    if n == 0:\n        return 1\n    return odd(n - 1)\ndef odd(n):\n    if n == 0:\n        return 0\n    return even(n - 1)\nk = 0\nwhile True:\n    r = even(k)\n    mon.write(r)\n    k = k + 1\n    sleep(1)\n"),
    "helper-continue-in-value-returning-loop": S("def count_odd(n):\n    c = 0\n    for i in range(n):\n        if i % 2 == 0:\n            continue\n        c = c + 1\n    return c\nk = 2\nwhile True:\n    r = count_odd(k)\n    mon.write(r)\n    k = k + 1\n    sleep(1)\n"),
    "fstring-format-spec-and-conversion": S("n = 7\nname = 'pump'\nv = 42\nmon.write(f'id={n:03d}')\nmon.write(f'[{v:>5}]')\nmon.write(f'dev={name!r}')\n"),
    "parameter-shadows-global-string-and-list": S("label = 'hello'\ndata = [1, 2, 3, 4]\ndef width(label):\n    return len(label)\ndef total(data):\n    t = 0\n    for i in range(len(data)):\n        t = t + data[i]\n    return t\n"
                                                  "w = width('hi')\nmon.write(w)\ns2 = total([5, 6])\nmon.write(s2)\nmon.write(width(label))\n"),
    "helper-with-nested-blocks-two-signatures": S("def clamp_report(v, hi):\n    if v > hi:\n        mon.write('over')\n        v = hi\n    for i in range(2):\n        if i == 1:\n            mon.write('tick')\n    return v\n"
                                                  "a = clamp_report(3, 10)\nmon.write(a)\nx = 12.5\nb = clamp_report(x, 10)\nmon.write(b + 0.5)\ny = 1.5\nc = clamp_report(y, 10)\nmon.write(c)\n"),
    "flash-pattern-of-named-list-then-append": S("from Reduino.Actuators import Led\nled = Led(9)\nxs = [1, 0, 1]\nled.flash_pattern(xs, 10)\nxs.append(0)\nxs.append(1)\nmon.write('done')\n"),
    "range-len-with-append-in-body": S("xs = [1, 2, 3]\nn = 0\nfor i in range(len(xs)):\n    xs.append(i)\n    n = n + 1\nmon.write(n)\n"),
    # ---- sleeps
    "sleep-expression": S("d = 10\nwhile True:\n    sleep(d)\n    sleep(d * 2)\n    mon.write(d)\n    d = d + 5\n"),
    # ---- round-6 shapes
    "comprehension-over-negative-step-range": S("xs = [i * 2 for i in range(10, 0, -3)]\nmon.write(len(xs))\nmon.write(xs[3])\nn = 7\nys = [j for j in range(n, 0, -2)]\nmon.write(len(ys))\nmon.write(ys[3])\n"),
    "augmented-assignment-conditional-rhs": S("total = 5\nn = 3\nc = 0\ntotal += n if c > 0 else 0\nmon.write(total)\nc = 1\ntotal += n if c > 0 else 0\nmon.write(total)\ntotal -= (n if c > 5 else 1)\nmon.write(total)\n"),
    "augmented-assignment-comparison-rhs": S("hits = 4\na = 1\nb = 9\nhits += a > b\nmon.write(hits)\nhits += b > a\nmon.write(hits)\nhits *= 1 + (a < b)\nmon.write(hits)\n"),
    "augmented-assignment-conditional-in-loop-and-helper": S("def bump(t, i):\n    t += i if i > 1 else 0\n    return t\nt = 0\nwhile True:\n    for i in range(4):\n        t += i if i > 1 else 0\n    mon.write(t)\n    mon.write(bump(t, 1))\n    sleep(5)\n"),
    "arithmetic-on-two-comparison-results": S("a = 3\nb = 5\nf = a < b\ng = b > 1\nn = f + g\nm = f + g + g\nd = f - g - g\nmon.write(n)\nmon.write(m)\nmon.write(d)\ndef both(p, q):\n    return (p > 0) + (q > 0)\nmon.write(both(1, 2) * 10 + 3)\n"),
    "restore-to-entry-constant-then-change-later-in-pass": S("v = 1\nwhile True:\n    v = 1\n    sleep(v)\n    mon.write(v)\n    v = 7\n    mon.write(v)\n"),
    "restore-constant-before-branch": S("v = 2\nc = 1\nwhile True:\n    if c > 0:\n        v = 9\n    mon.write(v)\n    v = 2\n    mon.write(v)\n    c = 1 - c\n    sleep(5)\n"),
    "first-binding-at-top-of-main-loop": S("while True:\n    x = 0\n    x = x + 6\n    mon.write(x)\n    lo, hi = 2, 5\n    lo = lo + hi\n    mon.write(lo)\n    sleep(5)\n"),
    "return-written-tight": S("def clamp(v):\n    if v > 10:\n        return(10)\n    return(v)\ndef neg(v):\n    return-v\nmon.write(clamp(20))\nmon.write(clamp(3))\nmon.write(neg(4))\n"),
    "keywords-tight-against-parenthesis": S("def f(a, b):\n    if(a > b):\n        return(a)\n    elif(a == b):\n        return(0)\n    return(b)\nx = 0\nwhile(x < 3):\n    x = x + 1\nmon.write(f(1, 2))\nmon.write(f(5, 2))\nmon.write(x)\nwhile(True):\n    x = x + 1\n    if(x > 4):\n        mon.write(x)\n    sleep(5)\n"),
    "list-append-and-remove-of-literals": S("names = ['a', 'b']\nnames.append('c')\nmon.write(names[2])\nnames.remove('a')\nmon.write(names[0])\nws = [0.5, 1.5]\nws.append(2.5)\nws.append(2)\nmon.write(ws[2])\nmon.write(ws[3] + 0.5)\n"
                                            "k = 3\nnames.append(f'n{k}')\nmon.write(len(names))\nfs = [True, False]\nfs.append(True)\nmon.write(len(fs))\n"),
    "string-overload-called-from-earlier-helper": S("def report(n):\n    show(n)\n    show('ticks')\ndef show(x):\n    mon.write(x)\nreport(3)\n"),
    "string-overload-first-called-from-earlier-helper": S("def report(n):\n    show('ticks')\n    show(n)\ndef show(x):\n    mon.write(x)\nreport(3)\n"),
    "escaped-quote-then-hash-inside-literal": S("banner = \"screen 7\\\" #2 ready\"\nmon.write(banner)\nnote = 'it\\'s unit #2'\nmon.write(note)\nmon.write(len(banner))\n"),
    "chained-comparison-evaluates-the-middle-once": S("def mid(v):\n    mon.write(v)\n    return v + 1\nk = 3\nwhile True:\n    if 1 < mid(k) < 9:\n        mon.write(100)\n    x = 0 < mid(k) + 1 <= 5 < k\n    mon.write(x)\n"
                                                      "    y = 1 < (1 < (2 < mid(k) < 9) < 3) < 3\n    mon.write(y)\n    k = k + 3\n    sleep(5)\n"),
    "hash-after-the-other-quote-in-a-literal": S("n = 2\nmon.write(\"it's channel #1\")\nmon.write(f\"pass {n}: it's over #250\")\nmon.write('say \"hi\" # x')\nmon.write('a \"q # r')  # real comment\nmon.write(n)\n"),
    "non-ascii-text": S("w = 3\nmon.write('Température: µs ±1°')\nmon.write(f'{w} unités é')\nlabel = 'größe'\nmon.write(label + '€')\nmon.write(len(label))\n"),
    "integer-literal-numerator-division": S("n = 4\ncount = 8\ninv = 1 / n\npct = 100 / count\nq = 1 / 4\nmon.write(inv)\nmon.write(pct)\nmon.write(q)\ndef frac(k):\n    return 1 / k\nmon.write(frac(8))\nmon.write(3 / n + 1)\n"),
    "parameter-named-like-a-differently-typed-global": S("gain = 3\ndef amplify(gain):\n    return gain * 2\nmon.write(amplify(1.5))\nmon.write(gain)\ndef area(n):\n    return n * n\ndef ring(n):\n    return area(n / 2)\nmon.write(ring(3))\n"),
    "nested-lists": S("grid = [[1, 2], [3, 4]]\nmon.write(grid[1][0])\nmon.write(len(grid[0]))\nrows = [[i, i + 1] for i in range(3)]\nmon.write(rows[2][1])\ndef corner(g):\n    return g[0][1]\nmon.write(corner(grid))\n"),
    "fstring-starting-with-a-string-valued-placeholder": S("c = 1\nmon.write(f\"{'ON' if c > 0 else 'OFF'} now\")\nmon.write(f\"{'a'}{'b'} tail\")\ndef state(k):\n    return f\"{'hi' if k else 'lo'}!\"\nmon.write(state(0))\n"),
    "else-block-starting-with-an-if": S("a = 1\nb = 2\nwhile True:\n    if a > 5:\n        mon.write('big')\n    else:\n        if b > 1:\n            mon.write('b')\n        else:\n            mon.write('nb')\n"
                                        "        mon.write('after')\n        a = a + 3\n        for i in range(2):\n            mon.write(i)\n    mon.write(a)\n    sleep(5)\n"),
    "condition-calling-a-helper-with-two-signatures": S("def scale(v):\n    return v * 2\ng = 2.5\nk = 0\nwhile True:\n    if scale(3) < scale(g):\n        mon.write(1)\n    elif scale(k) > scale(g):\n        mon.write(2)\n    else:\n        mon.write(0)\n"
                                                        "    while scale(k) < scale(g) - 1:\n        k = k + 1\n    mon.write(k)\n    g = g + 1.5\n    sleep(5)\n"),
    "bare-except": S("x = 1\ntry:\n    x = 2\nexcept:\n    x = 3\nmon.write(x)\n"),
    "short-circuit-keeps-skipped-operands-unevaluated": S("def check(v):\n    mon.write(v)\n    return 1\nxs = [1, 2, 3]\nk = 0\nwhile True:\n    if k > 2 and check(k) == 1:\n        mon.write('both')\n    if k < 2 or check(k + 10) == 1:\n        mon.write('either')\n"
                                                          "    ok = k < 3 and xs[k] > 1\n    mon.write(ok)\n    j = 0\n    while j < 2 and check(j + 20) > 0:\n        j = j + 1\n    k = k + 1\n    sleep(5)\n"),
    "comprehension-target-reuses-outer-names": S("title = 'abc'\nxs = [title + 1 for title in range(3)]\ncopy = title\nmon.write(copy)\nmon.write(xs[2])\ndef label(tag):\n    ys = [tag * 2 for tag in range(2)]\n    return tag\n"
                                                 "mon.write(label('t'))\nvals = [1, 2, 3]\nzs = [vals for vals in range(2)]\nmon.write(len(vals) + zs[1])\n"),
    "chained-comparison-over-constants-at-module-level": S("ok = 0 < abs(-3) < 5\nnest = 1 < (1 < (2 < 3 < 9) < 3) < 3\nlow = 5 < max(1, 2) < 9\nmon.write(ok)\nmon.write(nest)\nmon.write(low)\ndef f():\n    return 0 < abs(-3) < 5\nmon.write(f())\n"),
    "float-constants-needing-more-than-six-decimals": S("k = 0.0000025\nmon.write(k * 4000000)\nm = 4e-7\nmon.write(m * 10000000)\ndef tiny():\n    return 0.0000033 * 1000000\nmon.write(tiny())\nsleep(0.0000125 * 800000)\n"),
    "helper-defined-above-the-device-it-uses": S("from Reduino.Actuators import Led\ndef blink_once():\n    led.on()\n    sleep(5)\n    led.off()\n    led.toggle()\nled = Led(13)\nwhile True:\n    blink_once()\n    mon.write(led.get_state())\n    sleep(5)\n"),
    "helper-called-above-its-definition-with-a-float": S("def report():\n    mon.write(dim(0.25))\ndef dim(v):\n    return v * 2\nreport()\n"),
    "modulo-index-with-negative-dividend": S("ring = [10, 20, 30, 40]\nhead = 0\nwhile True:\n    mon.write(ring[(head - 1) % 4])\n    mon.write(ring[(head - 3) % len(ring)])\n    head = (head + 1) % 4\n    sleep(5)\n"),
    "helper-assignment-to-a-name-of-a-module-variable-is-local": S("label = 'ab'\nn = 3\ncount = 0\ndef f():\n    label = 'abcdefg'\n    n = 50\n    return len(label) + n\ndef bump():\n    global count\n    count = count + 1\n"
                                                                   "mon.write(len(label))\nmon.write(f())\nmon.write(len(label) + n)\nmon.write(label)\nbump()\nbump()\nmon.write(count)\n"),
    "tuple-target-assignment-in-helper-is-local": S("lo = 1\nhi = 9\ndef span(a, b):\n    lo, hi = a, b\n    lo, hi = hi, lo\n    return lo - hi\nmon.write(span(2, 7))\nmon.write(lo)\nmon.write(hi)\ndef pair(v):\n    [lo, hi] = [v, v + 1]\n    return lo + hi\nmon.write(pair(4))\nmon.write(lo + hi)\n"),
    "helper-binds-a-module-string-only-in-nested-blocks": S("msg = 'abc'\ndef show(v):\n    if v > 1:\n        msg = 'hello'\n    else:\n        msg = 'no'\n    mon.write(len(msg))\n    return len(msg) + 1\nmon.write(show(3))\nmon.write(show(0))\nmon.write(len(msg))\nmon.write(msg)\n"
                                                        "def last(n):\n    for i in range(n):\n        msg = 'wxyz'\n    return len(msg)\nmon.write(last(4))\nmon.write(msg)\n"),
    "comment-at-column-zero-inside-an-untaken-if": S("c = 0\nif c > 0:\n    mon.write('a1')\n# mon.write('off')\n    mon.write('a2')\nmon.write('a3')\n"),
    "comment-at-column-zero-inside-a-helper-loop": S("def f(n):\n    t = 0\n    for i in range(n):\n        t = t + i\n    # note at the indentation of the for\n        t = t + 1\n    return t\nmon.write(f(3))\n"),
    "half-dedented-comment-inside-a-while": S("k = 0\nwhile k < 2:\n    k = k + 1\n  # half-dedented\n    mon.write(k)\nmon.write('done')\n"),
    "comment-at-column-zero-inside-the-main-loop": S("while True:\n    mon.write('p1')\n# disabled: sleep(99)\n    mon.write('p2')\n    sleep(5)\n"),
    "comment-at-column-zero-inside-a-for-in-the-main-loop": S("while True:\n    for i in range(2):\n        mon.write(i)\n# was: sleep(1)\n        mon.write(i + 10)\n    sleep(5)\n"),
    "min-max-with-three-to-six-arguments": S("a = 3\nb = 9\nc = 12\nd = -4\ne = 40\nf = 7\nmon.write(max(a, b, c))\nmon.write(min(a, b, d))\nmon.write(max(a, b, c, d, e))\nmon.write(min(f, e, c, b, d))\nmon.write(max(a, b, c, d, f, e))\nmon.write(min(a, b, c, e, f, d))\n"),
    "negated-comparisons-at-the-boundary": S("a = 5\nb = 5\nc = 6\nmon.write(1 if not (a >= b) else 0)\nmon.write(1 if not (a <= b) else 0)\nmon.write(1 if not (a > b) else 0)\nmon.write(1 if not (a < b) else 0)\nmon.write(1 if not (a == b) else 0)\nmon.write(1 if not (a != b) else 0)\n"
                                         "mon.write(1 if not a >= c else 0)\nmon.write(1 if not c <= a else 0)\nk = 0\nlimit = 3\nwhile not (k >= limit):\n    k = k + 1\nmon.write(k)\nj = 9\nwhile not j <= limit:\n    j = j - 2\nmon.write(j)\nif not (k > limit):\n    mon.write('le')\n"),
    "chained-comparison-with-local-left-operand": S("def inside(low):\n    return low < abs(low + 1) < 900\nk = 0\nwhile True:\n    low = k + 1\n    if low < abs(k + 5) < 900:\n        mon.write(1)\n    for i in range(2):\n        if i < abs(k + 1) < 50:\n            mon.write(i)\n"
                                                    "    mon.write(inside(k))\n    k = k + 1\n    sleep(5)\n"),
    "main-loop-header-with-trailing-comment": S("k = 0\nwhile True:  # main loop\n    k = k + 1\n    mon.write(k)\n    sleep(5)\n"),
    "sleep-in-branches": S("k = 0\nwhile True:\n    if k % 2 == 0:\n        sleep(100)\n    else:\n        sleep(250)\n    k = k + 1\n    mon.write(k)\n"),
}
