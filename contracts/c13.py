"""C13 - board registry validation and project files (sidecar contracts; /repo untouched)."""
import os
import sys

from pyvc.contracts import Registry

PIO = "Reduino/toolchain/pio.py"
X = "<extern>"

PROPERTY = {
    "level": "proof",
    "expect_min_obligations": 50,
    "explanation": "validate_platform_board is proved, for ALL strings (platform, board), to return normally iff the pair is "
                   "registered (membership encoded exactly from the real frozensets read from the working tree); the registry "
                   "itself (each board in exactly one platform, BOARD_TO_PLATFORM the inverse of SUPPORTED_PLATFORMS) is decided by "
                   "exhaustive evaluation over all registered boards (finite back end). _format_lib_section is proved equal to the "
                   "recursive specification dedup (first-seen order, empties dropped) via a loop invariant over lists of any length, "
                   "plus duplicate-freedom; write_project is proved to write exactly src/main.cpp := source and platformio.ini := "
                   "rstrip(template instance)+newline into a ghost file map and to create only <dir>/src (whole-view frame). "
                   "The INI read-back step is an ASSUMED contract on configparser, cross-checked by a bounded native run.",
    "trusted_base": ["pyvc symbolic executor and its encoding of Python (strings as z3 strings, list as Seq, str.join / "
                     "generator map as recursive/λ spec functions, str.rstrip axiomatised)",
                     "z3/cvc5 unsat answers", "CPython ast, string.Formatter",
                     "configparser.RawConfigParser semantics (assumed; bounded cross-check only)"],
    "assumptions": [
        "pathlib.Path.mkdir/write_text: assumed contracts over a ghost file map (write_text stores exactly the given text; "
        "mkdir(parents=True) creates only the named directory because project_dir already exists)",
        "re.sub in _sanitize_env_name is an assumed (uninterpreted) function; its values on all registered boards are enumerated",
        "the INI read-back (one [env:*] section, key = value lines, lib_deps continuation lines) is an assumed contract on "
        "configparser; ports are INI-safe (printable, no leading/trailing blanks, no line breaks, no '%' interpolation is used)",
        "libraries is a list of str (or None)",
    ],
    "bounded": [],
}

_REAL = {}


def real_pio():
    """The real module, imported from the working tree (module-level registry data)."""
    if "m" not in _REAL:
        src = os.path.join(os.environ.get("REDUINO_REPO", "/repo"), "src")
        if src not in sys.path:
            sys.path.insert(0, src)
        import importlib
        cur = sys.modules.get("Reduino")
        if cur is not None and not (getattr(cur, "__file__", "") or "").startswith(src):
            for k in [k for k in sys.modules if k == "Reduino" or k.startswith("Reduino.")]:
                del sys.modules[k]
        _REAL["m"] = importlib.import_module("Reduino.toolchain.pio")
    return _REAL["m"]


def engine_setup(eng):
    import z3
    from pyvc.sym import V, vbool, vstr, STR
    from pyvc.specfuncs import install_map_funcs
    from pyvc.engine import py_join
    from pyvc import typespec
    install_map_funcs(eng)
    m = real_pio()
    mi = eng.modules[PIO]
    # module-level registry data is taken from the real module (it is decided separately by the enum obligations)
    mi.consts["SUPPORTED_PLATFORMS"] = {k: frozenset(v) for k, v in m.SUPPORTED_PLATFORMS.items()}
    mi.consts["BOARD_TO_PLATFORM"] = dict(m.BOARD_TO_PLATFORM)
    A = sorted(m.SUPPORTED_PLATFORMS.get("atmelavr", ()))
    B = sorted(m.SUPPORTED_PLATFORMS.get("atmelmegaavr", ()))

    def member(t, items):
        return z3.Or([t == z3.StringVal(s) for s in items]) if items else z3.BoolVal(False)

    def registered(e, st, p, b):
        # the property's own notion, over the registry: board is registered for exactly that platform
        return vbool(z3.Or(z3.And(p.t == z3.StringVal("atmelavr"), member(b.t, A)),
                           z3.And(p.t == z3.StringVal("atmelmegaavr"), member(b.t, B))))

    S = z3.StringSort()
    SS = z3.SeqSort(S)
    if "dp" not in _REAL:
        dp0 = z3.RecFunction("dedup_prefix", SS, z3.IntSort(), SS)
        l, i = z3.Const("l", SS), z3.Int("i")
        z3.RecAddDefinition(dp0, [l, i], z3.If(i <= 0, z3.Empty(SS), z3.If(
            z3.Or(l[i - 1] == z3.StringVal(""), z3.Contains(dp0(l, i - 1), z3.Unit(l[i - 1]))),
            dp0(l, i - 1), z3.Concat(dp0(l, i - 1), z3.Unit(l[i - 1])))))
        _REAL["dp"] = dp0
    dp = _REAL["dp"]

    def seq_of(st, v):
        from pyvc.state import CList
        c = v.t if v.k == "cell" else st.heap[v.t]
        if isinstance(c, CList):
            units = [z3.Unit(x.t) for x in c.items]
            return z3.Concat(*units) if len(units) > 1 else (units[0] if units else z3.Empty(SS))
        return c.seq

    def dedup_prefix(e, st, libs, n):
        return V("seq", dp(seq_of(st, libs), n.t), "str")

    def as_seq(e, st, lst):
        return V("seq", seq_of(st, lst), "str")

    def render(e, st, u):
        x = z3.Const("x", S)
        from pyvc.engine import py_map
        seq = z3.Concat(z3.Unit(z3.StringVal("lib_deps =")), py_map(z3.Concat(z3.StringVal("  "), x), x, u.t, S))
        return vstr(py_join()(z3.StringVal("\n"), seq, z3.Length(seq)))

    sub = z3.Function("re_sub_env_name", S, S)

    def env_name(e, st, b):
        return vstr(sub(b.t))

    def libsec(e, st, libs):
        if libs.k == "none":
            return vstr("")
        seq = seq_of(st, libs)
        d = dp(seq, z3.Length(seq))
        return vstr(z3.If(z3.Length(d) == 0, z3.StringVal(""), render(e, st, V("seq", d, "str")).t))

    def rstrip(e, st, s):
        from pyvc.engine import py_rstrip
        return vstr(py_rstrip(None, s.t))

    eng.spec_funcs.update(libsec=libsec, rstrip=rstrip)
    eng.spec_funcs.update(registered=registered, dedup_prefix=dedup_prefix, as_seq=as_seq, render=render, env_name=env_name)
    eng.extern_names["re"] = V("module", "re")
    eng.module_attrs["re.sub"] = V("fn", ("extfn", "re.sub"))
    eng.kind_attr["path"] = lambda e, base, attr, st: V("fn", ("extmethod", "Path", attr, base))


INI_TEXT = ("'[env:' + env_name(board) + ']\\nplatform = ' + platform + '\\nboard = ' + board + "
            "'\\nframework = arduino\\nupload_port = ' + port + '\\n\\n' + LIBSEC + '\\n'")


MKDIR, WRITE = 5, 6


def shared_pio(reg):
    """Ghosts shared by C13 and C12: file map, directory set, effect trace E (event codes)."""
    reg.ghost("files", "map:str")      # path -> text written
    reg.ghost("dirs", "map:bool")      # directories created
    reg.ghost("E", "seq:int")          # effect trace: 1 pio --version, 2 pio run, 3 pio run -t upload, 4 mkdtemp,
    #                                    5 mkdir, 6 write_text, 7 read_text


def build():
    reg = Registry()
    shared_pio(reg)
    reg.unit("validate_platform_board", PIO, params={"platform": "str", "board": "str"},
             raises={"ValueError": "not registered(platform, board)"})
    reg.unit("_format_lib_section", PIO, params={"libraries": "list[str]|none"}, returns="str",
             loops={0: {"list_kinds": {"unique": "str"},
                        "inv": ["as_seq(unique) == dedup_prefix(libraries, i)"]}},
             ensures=["result == libsec(libraries)"])
    reg.unit("re.sub", X, extern=True, public=False, params={"pattern": "str", "repl": "str", "string": "str"},
             returns="str", ensures=["result == env_name(string)"],
             note="ASSUMED: re.sub(r'[^A-Za-z0-9_]+', '_', board) is an uninterpreted function of board")
    reg.unit("_sanitize_env_name", PIO, params={"board": "str"}, returns="str", ensures=["result == env_name(board)"])
    reg.unit("Path.mkdir", X, extern=True, public=False, params={"parents": "bool", "exist_ok": "bool"},
             modifies=["ghost.dirs", "ghost.E"],
             ensures=["is_store(dirs, old(dirs), self, True)", "E == old(E) + [5]"], returns="none")
    reg.unit("Path.write_text", X, extern=True, public=False, params={"data": "str", "encoding": "str"},
             modifies=["ghost.files", "ghost.E"],
             ensures=["is_store(files, old(files), self, data)", "E == old(E) + [6]"], returns="int")
    libsec = "ite(is_none(lib_deps), '', LIBS)"
    reg.unit("write_project", PIO,
             params={"project_dir": "path", "cpp_code": "str", "port": "str", "platform": "str", "board": "str",
                     "lib_deps": "list[str]|none"},
             raises={"ValueError": "not registered(platform, board)"},
             modifies=["ghost.files", "ghost.dirs", "ghost.E"],
             ensures=["E == old(E) + [5, 6, 6]",
                      "is_store(dirs, old(dirs), project_dir / 'src', True)",
                      "has(files, project_dir / 'src' / 'main.cpp') and at(files, project_dir / 'src' / 'main.cpp') == cpp_code",
                      "has(files, project_dir / 'platformio.ini')",
                      # whole-view: nothing but the two files was written
                      "is_store2(files, old(files), project_dir / 'src' / 'main.cpp', cpp_code, "
                      "project_dir / 'platformio.ini', at(files, project_dir / 'platformio.ini'))",
                      # the ini text is the template instance, right-stripped, plus one newline
                      "at(files, project_dir / 'platformio.ini') == rstrip('[env:' + env_name(board) + ']\\nplatform = ' + platform + "
                      "'\\nboard = ' + board + '\\nframework = arduino\\nupload_port = ' + port + '\\n\\n' + libsec(lib_deps) + '\\n') + '\\n'"])
    return reg


def engine_setup_late(eng):
    pass


# ------------------------------------------------------------------ finite back end + bounded stand-in
def extra_obligations(mods, tier, seed):
    import re
    import time
    m = real_pio()
    out = []

    def ob(name, ok, where, t0, detail=None, bounded=False):
        out.append({"name": f"C13/{name}", "status": "discharged" if ok else "sat", "backend": "enum",
                    "where": where, "time": round(time.time() - t0, 4), "replay": detail,
                    "replay_confirmed": (not ok)})

    t0 = time.time()
    plats = m.SUPPORTED_PLATFORMS
    A, B = set(plats.get("atmelavr", ())), set(plats.get("atmelmegaavr", ()))
    ob("registry/platform-keys", set(plats) == {"atmelavr", "atmelmegaavr"}, "SUPPORTED_PLATFORMS has exactly the two AVR platforms",
       t0, {"keys": sorted(plats)})
    t0 = time.time()
    both = sorted(A & B)
    ob("registry/each-board-exactly-one-platform", not both, "A ∩ B = ∅ over the real frozensets (exhaustive)", t0,
       {"boards_in_both": both[:10]})
    t0 = time.time()
    bad = [b for b in sorted(A | B) if m.BOARD_TO_PLATFORM.get(b) != ("atmelmegaavr" if b in B else "atmelavr")]
    extra = sorted(set(m.BOARD_TO_PLATFORM) - (A | B))
    ob("registry/board-to-platform-is-inverse", not bad and not extra,
       f"BOARD_TO_PLATFORM[b] is the platform whose set contains b, keys = A ∪ B ({len(A | B)} boards, exhaustive)", t0,
       {"wrong": bad[:10], "unregistered_keys": extra[:10]})
    t0 = time.time()
    nonstr = [b for b in (A | B) if not isinstance(b, str) or not b or b != b.strip()]
    ob("registry/board-ids-are-clean-strings", not nonstr, "every registered id is a non-empty str without surrounding blanks", t0,
       {"bad": nonstr[:10]})
    t0 = time.time()
    unsafe = [b for b in sorted(A | B) if not re.fullmatch(r"[A-Za-z0-9_]+", m._sanitize_env_name(b))]
    ob("sanitize/env-names-ini-safe", not unsafe, "env name of every registered board matches [A-Za-z0-9_]+ (exhaustive)", t0,
       {"bad": unsafe[:10]})
    # the real validate_platform_board over the whole registry (exhaustive, executed): every registered pair returns normally, every
    # registered board under the other platform and a handful of unregistered ids raise ValueError
    t0 = time.time()
    wrong = []
    for b in sorted(A | B):
        good = "atmelmegaavr" if b in B else "atmelavr"
        for plat in ("atmelavr", "atmelmegaavr"):
            try:
                m.validate_platform_board(plat, b)
                res = "accepted"
            except ValueError:
                res = "refused"
            except Exception as ex:
                res = f"{type(ex).__name__}: {ex}"
            if res != ("accepted" if plat == good else "refused"):
                wrong.append({"platform": plat, "board": b, "observed": res})
    for b in ("not-a-board", "", "UNO", "uno ", "uno\n", "nano_every2"):
        for plat in ("atmelavr", "atmelmegaavr", "espressif32", ""):
            try:
                m.validate_platform_board(plat, b)
                wrong.append({"platform": plat, "board": b, "observed": "accepted (unregistered)"})
            except ValueError:
                pass
            except Exception as ex:
                wrong.append({"platform": plat, "board": b, "observed": f"{type(ex).__name__}: {ex}"})
    ob("registry/validate-accepts-exactly-the-registered-pairs", not wrong,
       f"validate_platform_board executed on all {2 * len(A | B)} (platform, registered board) pairs and 24 unregistered pairs: accepted iff registered", t0, {"wrong": wrong[:6]})
    _ini_readback(m, tier, seed, out, ob)
    _regenerate_and_frame(m, out)
    return out


_BOUNDED = {}


def _ini_readback(m, tier, seed, out, ob):
    """BOUNDED stand-in for the assumed configparser contract: real write_project into a scratch directory, real
    RawConfigParser read-back, compared with the inputs.  Labelled bounded; never counted as proved."""
    import configparser
    import itertools
    import random
    import shutil
    import tempfile
    import time
    from pathlib import Path
    rnd = random.Random(seed)
    boards = sorted(m.BOARD_TO_PLATFORM)
    n = 300 if tier == "thorough" else 60
    ports = ["COM3", "/dev/ttyUSB0", "/dev/cu.usbmodem14101", "COM10", "a b", "x=y", "p:1", "[x]", "%d", "ü", "#c", ";c", "", "rfc2217://host:4000", "socket://10.0.0.7:23",
             "loop://", "/dev/ttyACM0/", "./tty", "a//b", "net:host:port", "\\\\.\\COM12", "C:/dev/../x",
             " COM3", "COM3 ", "\tCOM3"]
    libsets = [None, [], ["Servo"], ["Servo", "LiquidCrystal", "Servo"], ["", "A", "", "B", "A"], ["A", "B", "C", "B", "A"],
               ["LiquidCrystal_I2C", "LiquidCrystal_I2C"], ["LiquidCrystal_I2C", "LiquidCrystal"], ["Servo@1.2.0", "Servo", "LiquidCrystal_I2C", "LiquidCrystal"], ["AB", "A", "B"]]
    srcs = ["void setup(){}\n", "// ünïcode ✓\nvoid loop(){}\n", "", "line1\r\nline2\r\n", "x\ry\n", "const char *s = R\"(raw\r\n)\";\n", "no trailing newline",
            "\r\r\n", "tab\there\n\n\n"]
    dashed = [b for b in boards if not b.replace("_", "").isalnum()]
    t0 = time.time()
    fails, runs = [], 0
    base = Path(tempfile.mkdtemp(prefix="c13-ini-"))
    try:
        cases = list(itertools.product(ports, libsets))
        rnd.shuffle(cases)
        for port, libs in cases[:n]:
            board = rnd.choice(boards) if (runs % 4 or not dashed) else dashed[(runs // 4) % len(dashed)]
            plat = m.BOARD_TO_PLATFORM[board]
            src = srcs[runs % len(srcs)]
            d = base / f"p{runs}"
            d.mkdir()
            before = sorted(str(p) for p in base.rglob("*"))
            # lib_deps is annotated Iterable[str]: every third case passes a one-shot iterator / generator / tuple instead of the list
            given = libs
            if libs is not None and runs % 3 == 1:
                given = iter(list(libs))
            elif libs is not None and runs % 3 == 2:
                given = (x for x in list(libs)) if runs % 2 else tuple(libs)
            try:
                m.write_project(d, src, port, platform=plat, board=board, lib_deps=given)
            except ValueError as ex:
                runs += 1
                fails.append({"port": port, "libs": libs, "board": board, "problem": f"a registered pair ({plat}, {board}) was refused: {ex}"})
                shutil.rmtree(d, ignore_errors=True)
                continue
            runs += 1
            after = sorted(str(p.relative_to(d)) for p in d.rglob("*"))
            cp = configparser.RawConfigParser()
            cp.read(d / "platformio.ini", encoding="utf-8")
            want_libs = list(dict.fromkeys(x for x in (libs or []) if x))
            prob = None
            if after != ["platformio.ini", "src", "src/main.cpp"]:
                prob = f"files created: {after}"
            elif (d / "src" / "main.cpp").read_bytes() != src.encode("utf-8"):
                prob = f"main.cpp differs from the given source {src!r}: {(d / 'src' / 'main.cpp').read_bytes()!r}"
            elif len(cp.sections()) != 1 or not cp.sections()[0].startswith("env:"):
                prob = f"sections: {cp.sections()}"
            else:
                s = cp.sections()[0]
                got = {k: cp.get(s, k) for k in cp.options(s)}
                got_libs = [x.strip() for x in got.pop("lib_deps", "").splitlines() if x.strip()]
                want = {"platform": plat, "board": board, "framework": "arduino", "upload_port": port}
                if got != want:
                    prob = f"fields read back {got}, given {want}"
                elif got_libs != want_libs:
                    prob = f"lib_deps read back {got_libs}, expected {want_libs}"
            if prob:
                fails.append({"port": port, "libs": libs, "board": board, "problem": prob})
            shutil.rmtree(d)
    finally:
        shutil.rmtree(base, ignore_errors=True)
    known_region = [f for f in fails if f["port"] != f["port"].strip() or f["port"] == ""]
    other = [f for f in fails if f not in known_region]
    _BOUNDED["list"] = [{"check": "ini-readback", "bound": f"{runs} sampled (port, libraries, board) cases, seed {seed}",
                         "cases": runs, "failures": len(fails), "failures_in_known_region": len(known_region)}]
    out.append({"name": "C13/bounded/ini-readback", "status": "discharged" if not other else "sat", "backend": "bounded-native",
                "where": "configparser read-back equals the given fields (bounded sample)", "time": round(time.time() - t0, 3),
                "bounded": True, "replay": other[:3], "replay_confirmed": bool(other)})
    if known_region:
        out.append({"name": "C13/bounded/ini-readback/blank-padded-port", "status": "sat", "backend": "bounded-native",
                    "where": "a port with leading/trailing blanks is written verbatim and read back stripped",
                    "time": 0.0, "bounded": True, "replay": known_region[:3], "replay_confirmed": True})


_AUDIT = {"on": False, "events": [], "installed": False}


def _audit_hook(event, args):
    if not _AUDIT["on"]:
        return
    try:
        if event == "open":
            path, mode, flags = args[0], args[1], args[2]
            import os as _os
            writing = (isinstance(mode, str) and any(c in mode for c in "wax+")) or (isinstance(flags, int) and flags & (_os.O_WRONLY | _os.O_RDWR | _os.O_CREAT | _os.O_TRUNC))
            if writing and isinstance(path, (str, bytes)) or writing and hasattr(path, "__fspath__"):
                _AUDIT["events"].append(("open-for-writing", str(path)))
        elif event in ("os.rename", "os.remove", "os.mkdir", "os.rmdir", "os.link", "os.symlink", "os.truncate", "os.chmod", "shutil.move", "shutil.copyfile", "tempfile.mkstemp", "tempfile.mkdtemp"):
            for a in args[:2]:
                if isinstance(a, (str, bytes)) or hasattr(a, "__fspath__"):
                    _AUDIT["events"].append((event, str(a if not isinstance(a, bytes) else a.decode("utf-8", "replace"))))
    except Exception:
        pass


def _regenerate_and_frame(m, out):
    """BOUNDED, executed on the real write_project: (1) generating into a project directory that already holds an older main.cpp /
    platformio.ini leaves exactly the new bytes; (2) every file-system write of the call (audit events: open for writing, rename, remove,
    mkdir, mkstemp ...) names a path inside the project directory"""
    import shutil
    import sys
    import tempfile
    import time
    import configparser
    from pathlib import Path
    t0 = time.time()
    board = sorted(m.BOARD_TO_PLATFORM)[0]
    plat = m.BOARD_TO_PLATFORM[board]
    NEW = "line1\nline2\nvoid setup(){}\n"
    OLD = {"same-text-crlf": NEW.replace("\n", "\r\n").encode(), "same-text-cr": NEW.replace("\n", "\r").encode(), "same-text": NEW.encode(), "other-text": b"int old;\n",
           "longer-text": (NEW + "// trailing old text\n").encode(), "invalid-utf8": b"\xff\xfe old \x80\n", "empty": b"", "utf8-bom": b"\xef\xbb\xbf" + NEW.encode()}
    bad_regen, bad_frame = [], []
    if not _AUDIT["installed"]:
        sys.addaudithook(_audit_hook)
        _AUDIT["installed"] = True
    base = Path(tempfile.mkdtemp(prefix="c13-regen-"))
    try:
        for new_src in (NEW, NEW.replace("\n", "\r\n")):
            for oname, old_bytes in OLD.items():
                d = base / f"{oname}-{len(new_src)}"
                (d / "src").mkdir(parents=True)
                (d / "src" / "main.cpp").write_bytes(old_bytes)
                (d / "platformio.ini").write_text("[env:old]\nplatform = oldplat\nboard = oldboard\nframework = arduino\nupload_port = OLDPORT\nlib_deps =\n  OldLib\n", encoding="utf-8")
                _AUDIT["events"] = []
                _AUDIT["on"] = True
                try:
                    m.write_project(d, new_src, "COM7", platform=plat, board=board, lib_deps=["Servo"])
                    err = None
                except Exception as ex:
                    err = f"{type(ex).__name__}: {ex}"
                finally:
                    _AUDIT["on"] = False
                case = {"existing_main_cpp": oname, "new_source": new_src}
                if err:
                    bad_regen.append(dict(case, problem="write_project raised " + err))
                    continue
                got = (d / "src" / "main.cpp").read_bytes()
                if got != new_src.encode("utf-8"):
                    bad_regen.append(dict(case, problem=f"src/main.cpp holds {got[:60]!r}, the given source is {new_src.encode()[:60]!r}"))
                cp = configparser.RawConfigParser()
                cp.read(d / "platformio.ini", encoding="utf-8")
                secs = cp.sections()
                if len(secs) != 1 or cp.get(secs[0], "upload_port", fallback=None) != "COM7" or cp.get(secs[0], "board", fallback=None) != board:
                    bad_regen.append(dict(case, problem=f"platformio.ini still describes {secs} / port {cp.get(secs[0], 'upload_port', fallback=None) if secs else None}"))
                root = str(d.resolve())
                outside = [e for e in _AUDIT["events"] if not str(Path(e[1]).resolve() if not e[1].startswith("<") else e[1]).startswith(root)]
                if outside:
                    bad_frame.append(dict(case, writes_outside_the_project=outside[:4]))
                elif not any(e[1].endswith("platformio.ini") or ".ini" in e[1] for e in _AUDIT["events"]):
                    bad_frame.append(dict(case, harness="the audit hook observed no write of platformio.ini (vacuous observation)", events=_AUDIT["events"][:6]))
    finally:
        _AUDIT["on"] = False
        shutil.rmtree(base, ignore_errors=True)
    # unregistered (platform, board) pairs are rejected by write_project itself, before anything is written
    bad_pairs = []
    some_mega = next((b for b, pl in sorted(m.BOARD_TO_PLATFORM.items()) if pl == "atmelmegaavr"), None)
    some_avr = next((b for b, pl in sorted(m.BOARD_TO_PLATFORM.items()) if pl == "atmelavr"), None)
    base2 = Path(tempfile.mkdtemp(prefix="c13-pairs-"))
    try:
        k = 0
        for plat, brd in [("", some_avr), ("", some_mega), ("atmelavr", some_mega), ("atmelmegaavr", some_avr), ("atmelavr", ""), ("atmelavr", "no_such_board"), ("esp32", some_avr),
                          ("AtmelAVR", some_avr), ("atmelavr ", some_avr), (" atmelavr", some_avr)]:
            for omit_platform in (False, True):
                if omit_platform and plat != "":
                    continue
                d = base2 / f"p{k}"
                d.mkdir()
                k += 1
                try:
                    if omit_platform:
                        m.write_project(d, "void setup(){}\n", "COM3", board=brd)
                        # the default platform is atmelavr: accepted exactly when the board is an atmelavr board
                        expect_ok = m.BOARD_TO_PLATFORM.get(brd) == "atmelavr"
                    else:
                        m.write_project(d, "void setup(){}\n", "COM3", platform=plat, board=brd)
                        expect_ok = False
                    raised = None
                except ValueError as ex:
                    raised = ex
                    expect_ok = expect_ok if omit_platform and False else (m.BOARD_TO_PLATFORM.get(brd) == "atmelavr" if omit_platform else False)
                except TypeError:
                    continue
                left = sorted(str(x.relative_to(d)) for x in d.rglob("*"))
                if raised is None and not expect_ok:
                    bad_pairs.append({"platform": None if omit_platform else plat, "board": brd, "problem": f"accepted (files written: {left})"})
                elif raised is not None and expect_ok:
                    bad_pairs.append({"platform": None if omit_platform else plat, "board": brd, "problem": f"rejected a registered pair: {raised}"})
                elif raised is not None and left:
                    bad_pairs.append({"platform": None if omit_platform else plat, "board": brd, "problem": f"rejected but left {left}"})
    finally:
        shutil.rmtree(base2, ignore_errors=True)
    out.append({"name": "C13/bounded/write-project-rejects-unregistered-pairs", "status": "discharged" if not bad_pairs else "sat", "backend": "bounded-native", "bounded": True,
                "where": "write_project with an empty / mismatched / unknown / differently spelled platform or board (and with the platform omitted) raises ValueError and writes nothing; registered pairs are accepted",
                "time": 0.0, "replay": bad_pairs[:4], "replay_confirmed": bool(bad_pairs)})
    out.append({"name": "C13/bounded/regenerate-into-existing-project", "status": "discharged" if not bad_regen else "sat", "backend": "bounded-native", "bounded": True,
                "where": f"{2 * len(OLD)} regenerations over an existing project (older main.cpp with other line terminators / text / encoding, older platformio.ini): afterwards src/main.cpp is the given "
                         "source byte for byte and platformio.ini describes the new port and board", "time": round(time.time() - t0, 3), "replay": bad_regen[:3], "replay_confirmed": bool(bad_regen)})
    out.append({"name": "C13/bounded/writes-stay-inside-the-project", "status": "discharged" if not bad_frame else "sat", "backend": "bounded-native", "bounded": True,
                "where": "every file-system write of write_project observed through audit events (open for writing, rename, remove, mkdir, mkstemp) names a path inside the project directory",
                "time": 0.0, "replay": bad_frame[:3], "replay_confirmed": bool(bad_frame)})


def extra_evidence():
    return {"bounded": _BOUNDED.get("list", [])}


# ------------------------------------------------------------------ native side for the pure units
def _dedup(libs):
    return list(dict.fromkeys(x for x in (libs or []) if x))


def _libsec(libs):
    u = _dedup(libs)
    return "" if not u else "\n".join(["lib_deps ="] + ["  " + x for x in u])


def _registered(p, b):
    m = real_pio()
    return p in m.SUPPORTED_PLATFORMS and b in m.SUPPORTED_PLATFORMS[p]


NATIVE_HOOKS = {"spec_env": {"registered": _registered, "libsec": _libsec}}


def native_samples(reg, rnd, n):
    m = real_pio()
    boards = sorted(m.BOARD_TO_PLATFORM)
    jobs = []
    plats = ["atmelavr", "atmelmegaavr", "atmelsam", "", "AtmelAVR", "atmelavr@", "atmelavr@1.2.3", "atmelmegaavr@atmelavr", "atmelavr ", " atmelavr", "atmelavr\n",
             "atmel", "atmelavrx", "platformio/atmelavr", "atmelavr#x", "atmelavr;atmelmegaavr"]
    for i in range(n * 3):
        b = rnd.choice(boards)
        near = rnd.choice([b, b.upper(), b.lower(), b + " ", b[:-1], "uno", "nano_every", "esp32dev", ""])
        jobs.append({"id": f"v{i}", "file": PIO, "unit": "validate_platform_board",
                     "params": {"platform": rnd.choice(plats), "board": near}, "self": None, "ghost": {}})
    pool = ["", "Servo", "LiquidCrystal", "LiquidCrystal_I2C", "A", "B"]
    # systematic: every ordered selection of up to three of these names (one is a prefix of another, one carries a version, one is empty)
    import itertools
    names = ["Servo", "LiquidCrystal", "LiquidCrystal_I2C", "Servo@1.2.0", ""]
    k = 0
    for size in (1, 2, 3):
        for combo in itertools.permutations(names, size):
            jobs.append({"id": f"s{k}", "file": PIO, "unit": "_format_lib_section", "params": {"libraries": {"$list": list(combo)}}, "self": None, "ghost": {}})
            k += 1
    for i in range(n * 3):
        libs = rnd.choice([None, {"$list": [rnd.choice(pool) for _ in range(rnd.randint(0, 6))]}])
        jobs.append({"id": f"f{i}", "file": PIO, "unit": "_format_lib_section", "params": {"libraries": libs},
                     "self": None, "ghost": {}})
    return jobs
