"""Mechanical extraction of a loop body of a real function as a stand-alone unit ("arm extraction").

derive_loop_body(file, "Class.method", loop_ordinal, new_name, params) reads the REAL source, takes the body of the
n-th `for` loop of the method and turns it into `def new_name(<params>): <body>` with `continue` replaced by
`return` (one iteration = one call).  What is dropped: the iteration itself (each element is handled by one call;
elements are assumed to be distinct objects) and everything outside the loop.  The text is regenerated on every run."""
import ast
import os

from . import loader


class _Cont(ast.NodeTransformer):
    def visit_Continue(self, node):
        return ast.copy_location(ast.Return(value=None), node)

    def visit_For(self, node):
        return node      # a `continue` of an inner loop belongs to that loop

    def visit_While(self, node):
        return node


def derive_loop_body(file, qual, ordinal, new_name, params, gen_key):
    mi = loader.ModuleInfo(file)
    fn = mi.find(qual)
    loops = [n for n in ast.walk(fn) if isinstance(n, ast.For)]
    loops.sort(key=lambda n: (n.lineno, n.col_offset))
    loop = loops[ordinal]
    body = [_Cont().visit(s) for s in loop.body]
    f = ast.FunctionDef(name=new_name, args=ast.arguments(posonlyargs=[], args=[ast.arg(arg=p) for p in params], kwonlyargs=[],
                                                          kw_defaults=[], defaults=[]), body=body, decorator_list=[], returns=None,
                        type_comment=None)
    mod = ast.Module(body=[f], type_ignores=[])
    ast.fix_missing_locations(mod)
    text = ast.unparse(mod) + "\n"
    loader.GENERATED[gen_key] = text
    return text, {"source": file, "function": qual, "loop_target": ast.unparse(loop.target), "iter": ast.unparse(loop.iter),
                  "lines": [loop.lineno, loop.end_lineno]}
