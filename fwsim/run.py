"""compile an emitted sketch with g++ against the recording mock and run setup() + N loop() passes"""
import hashlib
import os
import subprocess
import tempfile

HERE = os.path.dirname(os.path.abspath(__file__))


def run_sketch(cpp, passes=3, env=None, timeout=20, sanitize=False):
    with tempfile.TemporaryDirectory(prefix="fwsim-") as d:
        src = os.path.join(d, "sketch.cpp")
        open(src, "w").write(cpp)
        exe = os.path.join(d, "sketch")
        cmd = ["g++", "-std=gnu++17", "-w", "-O0", "-I", HERE, src, "-o", exe]
        if sanitize:
            cmd[1:1] = ["-fsanitize=address,undefined", "-fno-omit-frame-pointer"]
        r = subprocess.run(cmd, capture_output=True, text=True, timeout=120)
        if r.returncode != 0:
            return {"compiled": False, "errors": r.stderr[-1500:], "events": []}
        e = dict(os.environ)
        e.update(env or {})
        try:
            r = subprocess.run([exe, str(passes)], capture_output=True, timeout=timeout, env=e)
            # the LCD's block character is the byte 0xFF on the device; the host model shows it as U+2588
            r.stdout = r.stdout.decode("latin-1").replace("\xff", "\u2588")
            r.stderr = r.stderr.decode("latin-1")
        except subprocess.TimeoutExpired:
            return {"compiled": True, "timeout": True, "events": []}
        return {"compiled": True, "rc": r.returncode, "events": r.stdout.splitlines(), "stderr": r.stderr[-1500:]}


def serial_lines(events, section=None):
    out, cur = [], None
    for e in events:
        if e.startswith("== "):
            cur = e[3:]
        elif e.startswith("S:") and (section is None or (cur or "").startswith(section)):
            out.append(e[2:])
    return out
